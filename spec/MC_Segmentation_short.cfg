SPECIFICATION Spec
CONSTANTS
  Streams <- MCStreams
  ShortRead = TRUE
  MaxTimeouts = 2
INVARIANTS NoGarbage Prompt Exact
CHECK_DEADLOCK FALSE
