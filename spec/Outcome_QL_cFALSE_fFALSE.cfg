SPECIFICATION Spec
CONSTANTS
  Configs <- ObsConfigs
  Fixed = TRUE
  AllowForeignClose = FALSE
  AllowCancel = FALSE
  AllowStall = FALSE
VIEW View
INVARIANT NotObserved
CHECK_DEADLOCK FALSE
