---------------------------- MODULE Trace_Writer ----------------------------
(* Trace specification for proto.Writer: every line of the ndjson trace     *)
(* recorded from the real writer must be a step of Writer.tla whose         *)
(* observable part (bytes delivered by a Flush, whether it failed) equals   *)
(* what was observed.                                                       *)
EXTENDS Writer, Json, IOUtils
VARIABLE l
Trace == ndJsonDeserialize(IOEnv.TRACE)
tvars == <<vars, l>>
Ev == Trace[l]
IsEvent(e) == l <= Len(Trace) /\ Ev.ev = e /\ l' = l + 1

TInit == Init /\ l = 1
TReset == /\ IsEvent("Reset")
          /\ arrays' = << [i \in 1..InitCap |-> 0] >>
          /\ buf' = [arr |-> 1, len |-> 0, cap |-> InitCap]
          /\ off' = 0 /\ vec' = <<>> /\ out' = <<>> /\ expected' = <<>> /\ fresh' = 1 /\ ops' = 0
TApp == IsEvent("App") /\ App(Ev.bs) /\ UNCHANGED <<fresh, ops>>
TRewrite == IsEvent("Rewrite") /\ Rewrite(Ev.t, Ev.bs) /\ UNCHANGED <<fresh, ops>>
TChainWrite == IsEvent("ChainWrite") /\ ChainWrite(Ev.bs) /\ UNCHANGED <<fresh, ops>>
TFlush == /\ IsEvent("Flush") /\ Flush(Ev.mode) /\ UNCHANGED <<fresh, ops>>
          /\ LET r == out'[Len(out')] IN r.bytes = Ev.out /\ r.err = Ev.err
TNext == TReset \/ TApp \/ TRewrite \/ TChainWrite \/ TFlush
TSpec == TInit /\ [][TNext]_tvars

HW == TLCSet(1, IF TLCGet(1) < l THEN l ELSE TLCGet(1))
Accepted == PrintT(<<"HWM", TLCGet(1)>>) /\ TLCGet(1) = Len(Trace) + 1
ASSUME TLCSet(1, 0)
=============================================================================
