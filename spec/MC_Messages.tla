---------------------------- MODULE MC_Messages ----------------------------
(* Design lemmas of Messages.tla, one state per (message kind, revision) over  *)
(* every revision 50000..54500: presence of a field is monotone in the         *)
(* revision, a field appears exactly at its threshold (the encoding changes at *)
(* no other revision), and the encoding only ever grows.                       *)
EXTENDS Messages
VARIABLES kind, rev
B(n, bs) == [n |-> n, b |-> bs]
Item == << [c |-> "str", b |-> <<107>>], [c |-> "wire", b |-> <<1>>], [c |-> "str", b |-> <<118>>] >>
Info == << B("info.query", <<1>>), B("info.initialUser", <<117>>), B("info.initialQueryID", <<113>>), B("info.initialAddress", <<97>>),
           B("info.initialTime", <<1, 2, 3, 4, 5, 6, 7, 8>>), B("info.interface", <<1>>), B("info.osUser", <<111>>), B("info.hostname", <<104>>),
           B("info.clientName", <<99>>), B("info.major", <<1>>), B("info.minor", <<2>>), B("info.protocolVersion", <<3>>),
           B("info.quotaKey", <<113, 107>>), B("info.distributedDepth", <<4>>), B("info.patch", <<5>>), B("info.otel", <<1>>),
           B("info.traceID", [i \in 1..16 |-> i]), B("info.spanID", [i \in 1..8 |-> i]), B("info.traceState", <<115>>),
           B("info.traceFlags", <<1>>), B("info.collaborate", <<1>>), B("info.replicas", <<2>>), B("info.replicaNumber", <<3>>) >>
Sample(k) ==
  CASE k = "ClientHello" -> << B("code", <<0>>), B("name", <<110>>), B("major", <<1>>), B("minor", <<2>>), B("protocolVersion", <<3>>),
                               B("database", <<100>>), B("user", <<117>>), B("password", <<112>>) >>
    [] k = "ServerHello" -> << B("code", <<0>>), B("name", <<110>>), B("major", <<1>>), B("minor", <<2>>), B("revision", <<3>>),
                               B("timezone", <<116>>), B("displayName", <<100>>), B("patch", <<4>>) >>
    [] k = "ClientInfo" -> Info
    [] k = "Query" -> << B("code", <<1>>), B("id", <<105>>) >> \o Info \o
                      << B("settings", <<Item>>), B("settingsEnd", <<>>), B("secret", <<115>>), B("stage", <<2>>), B("compression", <<1>>),
                         B("body", <<98>>), B("parameters", <<Item, Item>>), B("parametersEnd", <<>>) >>
    [] k = "ClientData" -> << B("tableName", <<116>>) >>
    [] k = "Progress" -> << B("rows", <<1>>), B("bytes", <<2>>), B("totalRows", <<3>>), B("wroteRows", <<4>>), B("wroteBytes", <<5>>), B("elapsedNs", <<6>>) >>
    [] k = "Profile" -> << B("code", <<6>>), B("rows", <<1>>), B("blocks", <<2>>), B("bytes", <<3>>), B("appliedLimit", <<1>>),
                           B("rowsBeforeLimit", <<4>>), B("calculated", <<0>>) >>
    [] k = "Exception" -> << B("code", <<1, 0, 0, 0>>), B("name", <<110>>), B("message", <<109>>), B("stack", <<115>>), B("nested", <<0>>) >>
    [] k = "TableColumns" -> << B("code", <<11>>), B("first", <<102>>), B("second", <<115>>) >>
Kinds == {"ClientHello", "ServerHello", "ClientInfo", "Query", "ClientData", "Progress", "Profile", "Exception", "TableColumns"}
Init == kind \in Kinds /\ rev = 50000
Next == rev < 54500 /\ rev' = rev + 1 /\ UNCHANGED kind
Spec == Init /\ [][Next]_<<kind, rev>>
Enc(r) == EncMsg(kind, r, Sample(kind))
\* the encoding changes only when a threshold is crossed, and then it grows
ChangesOnlyAtThresholds == (Enc(rev + 1) # Enc(rev)) => (rev + 1 \in Thresholds /\ Len(Enc(rev + 1)) > Len(Enc(rev)))
MonotonePresence == \A i \in 1..Len(Table(kind)) : Present(Sample(kind), Table(kind)[i], rev) => Present(Sample(kind), Table(kind)[i], rev + 1)
=============================================================================
