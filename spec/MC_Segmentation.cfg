SPECIFICATION Spec
CONSTANTS
  Streams <- MCStreams
  ShortRead = FALSE
  MaxTimeouts = 2
INVARIANTS NoGarbage Prompt Exact
PROPERTIES TimeoutIsStutter Finishes
CHECK_DEADLOCK FALSE
