----------------------------- MODULE Outcome_QL -----------------------------
(* Free-running runs (C12): the real client ran one scenario with nothing   *)
(* gated - sender, receiver, cancel watcher, the scripted server, a foreign *)
(* Close and the caller's cancellation interleave as the Go scheduler lets  *)
(* them - under the race detector.  Only the outcome is recorded.  It must  *)
(* be an outcome QueryLifecycle.tla can reach for that configuration: TLC   *)
(* searches the model for a returned state with the observed error class,   *)
(* closed flag and callback log; NotObserved is violated iff one exists.    *)
EXTENDS QueryLifecycle, Json, IOUtils, SequencesExt
Obs == ndJsonDeserialize(IOEnv.TRACE)[1]
CfgOf(e) == [scn |-> e.cfg.scn, needInfo |-> e.cfg.needInfo, ext |-> e.cfg.ext, script |-> e.cfg.script,
             plan |-> e.cfg.plan, present |-> ToSet(e.cfg.present), rfail |-> e.cfg.rfail, rcancel |-> e.cfg.rcancel,
             initRows |-> e.cfg.initRows, wbreak |-> -1]
ObsConfigs == {CfgOf(Obs)}
\* (requests of a session also record what they put on the wire: it must be what the model says this request wrote)
WireProj == [i \in 1..Len(c2s) |-> [k |-> c2s[i].k, v |-> c2s[i].v]]
Matches == /\ phase = "returned"
           /\ Obs.err = (IF firstErr = "none" THEN "nil" ELSE firstErr)
           /\ Obs.closed = closed
           /\ Obs.cbs = cblog
           /\ ("wire" \in DOMAIN Obs => Obs.wire = WireProj)
NotObserved == ~Matches
=============================================================================
