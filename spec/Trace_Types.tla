----------------------------- MODULE Trace_Types -----------------------------
(* Trace specification for type compatibility, inference and result binding. *)
EXTENDS Types, Json, IOUtils, SequencesExt
VARIABLE l
Trace == ndJsonDeserialize(IOEnv.TRACE)
Ev == Trace[l]
\* the library's Conflicts, asked in both orders, is exactly the complement of the specified relation
PairOK(e) == /\ e.cab = ~Compatible(e.a, e.b) /\ e.cba = ~Compatible(e.b, e.a)
             /\ Compatible(e.a, e.b) = Compatible(e.b, e.a)
\* inference of a well-formed type: an error, or a column of a compatible type that decodes data of that type
InferOK(e) == /\ e.panic = ""
              /\ (e.err # "" \/ (e.typeOK /\ e.decode \in {"ok", "n/a"}))
TotalOK(e) == e.panics = <<>>
\* binding a result block to caller-provided targets (Types!BindStep)
BindOK(e) ==
  LET r == BindStep(e.targets, e.block, e.rows) IN
  /\ e.panic = ""
  \* a block is bound only if count, names and types are compatible; a compatible block is bound unless an inferable
  \* target refuses the server's parameters (e.g. an enum target offered a plain integer)
  /\ (e.err = "" => r.ok)
  /\ (r.ok => e.err = "" \/ e.inferRefused)
  /\ \A i \in 1..Len(e.targets) :
       \* (when an inferring target refuses a compatible block, the targets after it have not been visited yet)
       /\ IF r.ok /\ e.err # "" THEN e.after[i].name \in {r.targets[i].name, e.targets[i].name}
                                ELSE e.after[i].name = r.targets[i].name
       \* no target ever holds another column's data: it holds its own column's data, or what it held before, or nothing
       /\ e.after[i].data \in {r.targets[i].data, e.targets[i].data, "empty"}
       /\ (r.ok /\ e.err = "" => e.after[i].data = r.targets[i].data)
       \* an inferring target (enum definitions, DateTime64 precision) that was bound has adopted the server's parameters
       /\ (r.ok /\ e.err = "" /\ Len(e.block) > 0 => e.after[i].adopted)
LineOK == CASE Ev.ev = "Pair" -> PairOK(Ev) [] Ev.ev = "Infer" -> InferOK(Ev) [] Ev.ev = "InferTotal" -> TotalOK(Ev)
            [] Ev.ev = "Bind" -> BindOK(Ev) [] OTHER -> FALSE
Init == l = 1
Next == l <= Len(Trace) /\ l' = l + 1 /\ (LineOK \/ PrintT(<<"REJECT", l>>))
TSpec == Init /\ [][Next]_l
HW == TLCSet(1, IF TLCGet(1) < l THEN l ELSE TLCGet(1))
Accepted == PrintT(<<"HWM", TLCGet(1)>>) /\ TLCGet(1) = Len(Trace) + 1
ASSUME TLCSet(1, 0)
=============================================================================
