--------------------------- MODULE Trace_Calendar ---------------------------
(* Trace specification for the scalar conversions: every recorded call of   *)
(* the library is one line; each line is judged with Calendar.tla.          *)
(*   c    : the civil time handed to the library (fields + zone offset)      *)
(*   v    : the value it produced, split by the harness into [days, sec,    *)
(*          frac] with 64-bit floor division (Date/Date32: days only)        *)
(*   back : the civil UTC fields of value.Time()                             *)
EXTENDS Calendar, Json, IOUtils, TLC
VARIABLE l
Trace == ndJsonDeserialize(IOEnv.TRACE)
Ev == Trace[l]

CivilEq(a, b) == a.y = b.y /\ a.m = b.m /\ a.d = b.d /\ a.h = b.h /\ a.mi = b.mi /\ a.s = b.s /\ a.ns = b.ns

\* time -> Date / Date32: the calendar day the time shows in its own zone (inside the type's range)
ToDayOK(e, lo, hi) == LET want == LocalDay(e.c) IN (want >= lo /\ want <= hi) => e.v.days = want
\* Date / Date32 -> time: midnight UTC of that day
FromDayOK(e) == CivilEq(e.back, Civil([days |-> e.v.days, sec |-> 0, ns |-> 0], 0))
\* a column round trip: Append(time) then Row(i): same calendar day
ColDayOK(e, lo, hi) == LET want == LocalDay(e.c) IN (want >= lo /\ want <= hi) =>
                         (e.err = "" /\ CivilEq(e.back, Civil([days |-> want, sec |-> 0, ns |-> 0], 0)))

\* time -> DateTime: the instant, to the second
ToDateTimeOK(e) == LET i == Instant(e.c) IN InDateTime(i) => (e.v.days = i.days /\ e.v.sec = i.sec)
FromDateTimeOK(e) == CivilEq(e.back, Civil([days |-> e.v.days, sec |-> e.v.sec, ns |-> 0], 0))

\* time -> DateTime64(p): the instant to within one tick, exactly when representable
ToDT64OK(e) == LET i == Instant(e.c) IN InDateTime64(i, e.p) => TicksOK(i, e.p, [days |-> e.v.days, sec |-> e.v.sec, frac |-> e.v.frac])
FromDT64OK(e) == LET t == [days |-> e.v.days, sec |-> e.v.sec, frac |-> e.v.frac] IN
                 InDateTime64(InstantOfTicks(t, e.p), e.p) => CivilEq(e.back, Civil(InstantOfTicks(t, e.p), 0))
\* both directions through a column with a location: the value read back is the instant appended (to the tick),
\* shown in the column's zone
ColInstantOK(e) == LET i == Instant(e.c) IN
                   (IF e.p < 0 THEN InDateTime(i) ELSE InDateTime64(i, e.p)) =>
                     /\ e.err = ""
                     /\ LET got == Instant(e.back)
                            p == IF e.p < 0 THEN 0 ELSE e.p IN
                        TicksOK(i, p, [days |-> got.days, sec |-> got.sec, frac |-> got.ns \div Pow10(9 - p)])
                        /\ got.ns % Pow10(9 - p) = 0

\* days and weeks in a zone with daylight saving: the wall clock of the zone is kept, the calendar day moves by n (or 7n)
IntervalZoneOK(e) == e.panic = "" /\ e.sameLoc /\ CivilEq(e.back, AddInterval(e.c, e.scale, e.n))
IntervalOK(e) == e.panic = "" /\ CivilEq(e.back, AddInterval(e.c, e.scale, e.n)) /\ e.back.off = e.c.off

\* wide integers and addresses, as byte strings
WidenOK(e) == /\ e.wide = (IF e.signed THEN SignExt(e.b, e.w) ELSE ZeroExt(e.b, e.w))
              /\ e.narrow = e.b
IPv4OK(e) == e.addr = RevSeq(e.le) /\ e.backle = e.le
IPv6OK(e) == e.addr = e.val /\ e.backval = e.val

LineOK == CASE Ev.ev = "ToDate" -> ToDayOK(Ev, DateMin, DateMax) /\ FromDayOK(Ev)
            [] Ev.ev = "ToDate32" -> ToDayOK(Ev, Date32Min, Date32Max) /\ FromDayOK(Ev)
            [] Ev.ev = "ColDate" -> ColDayOK(Ev, DateMin, DateMax)
            [] Ev.ev = "ColDate32" -> ColDayOK(Ev, Date32Min, Date32Max)
            [] Ev.ev = "ToDateTime" -> ToDateTimeOK(Ev) /\ FromDateTimeOK(Ev)
            [] Ev.ev = "ToDateTime64" -> ToDT64OK(Ev) /\ FromDT64OK(Ev)
            [] Ev.ev = "FromDateTime64" -> FromDT64OK(Ev)
            [] Ev.ev = "ColInstant" -> ColInstantOK(Ev)
            [] Ev.ev = "Interval" -> IntervalOK(Ev)
            [] Ev.ev = "IntervalZone" -> IntervalZoneOK(Ev)
            [] Ev.ev = "Widen" -> WidenOK(Ev)
            [] Ev.ev = "IPv4" -> IPv4OK(Ev)
            [] Ev.ev = "IPv6" -> IPv6OK(Ev)
            [] OTHER -> FALSE
Init == l = 1
Next == l <= Len(Trace) /\ l' = l + 1 /\ (LineOK \/ PrintT(<<"REJECT", l>>))
TSpec == Init /\ [][Next]_l
HW == TLCSet(1, IF TLCGet(1) < l THEN l ELSE TLCGet(1))
Accepted == PrintT(<<"HWM", TLCGet(1)>>) /\ TLCGet(1) = Len(Trace) + 1
ASSUME TLCSet(1, 0)
=============================================================================
