------------------------------ MODULE Gen_Pool ------------------------------
(* Behaviour generator for Pool.tla: the user-visible operations of a        *)
(* behaviour are recorded in `hist` and printed as JSON when the behaviour   *)
(* reaches the length bound (tlc -simulate).                                 *)
EXTENDS Pool, Json
CONSTANT Len0
VARIABLE hist
gvars == <<vars, hist>>
Rec(r) == hist' = Append(hist, r)
GNext ==
  \/ \E u \in Users :
       \/ (\E c \in Conns : AcquireIdle(u, c)) /\ Rec([op |-> "Acquire", u |-> u])
       \/ AcquireDial(u, TRUE) /\ Rec([op |-> "Acquire", u |-> u])
       \/ AcquireDial(u, FALSE) /\ hist' = hist \o <<[op |-> "FailNextDial"], [op |-> "Acquire", u |-> u]>>
       \/ AcquireFails(u) /\ Rec([op |-> "Acquire", u |-> u])
       \/ \E o \in {"ok", "ping", "exc", "transport", "cancelled"} :
            Use(u, IF o = "ping" THEN "ok" ELSE o) /\ Rec([op |-> "Use", u |-> u, how |-> o])
       \/ Release(u) /\ Rec([op |-> "Release", u |-> u])
       \/ \E c \in Conns : StaleRelease(u, c) /\ Rec([op |-> "StaleRelease", u |-> u, k |-> c])
  \/ \E c \in Conns : (DestroyClose(c) \/ DestroyEnd(c) \/ HC_Process(c)) /\ UNCHANGED hist
  \/ (\E c \in Conns : Expire(c)) /\ Rec([op |-> "Sleep", k |-> 130])
  \/ (\E c \in Conns : IdleExpire(c)) /\ Rec([op |-> "Sleep", k |-> 85])
  \/ HC_Acquire /\ Rec([op |-> "HC"])
  \/ HC_CreateBegin /\ Rec([op |-> "HC"])
  \/ (\E c \in Conns : \E ok \in BOOLEAN : CreateEnd(c, ok)) /\ UNCHANGED hist
  \/ ClosePool /\ Rec([op |-> "Close"])
GSpec == Init /\ hist = <<>> /\ [][GNext]_gvars
EmitHist == Len(hist) >= Len0 => PrintT(ToJson([tag |-> "BEH", hist |-> hist]))
Stop == Len(hist) <= Len0
=============================================================================
