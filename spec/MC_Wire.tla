------------------------------ MODULE MC_Wire ------------------------------
(* Design lemma of Wire.tla: the decoder inverts the (independently written) *)
(* encoder, consumes exactly the encoding, and rejects every proper prefix   *)
(* of it - for every type of the small universe below and every sequence of  *)
(* up to 2 values over 2-3 values per type.  One TLC "state" per case.       *)
EXTENDS Wire
CONSTANT Bound     \* longest value sequence explored for the simpler types
VARIABLE case
F1 == [k |-> "fixed", w |-> 1]
F2 == [k |-> "fixed", w |-> 2]
ST == [k |-> "string"]
BO == [k |-> "bool"]
FS == [k |-> "fstring", n |-> 2]
UU == [k |-> "uuid"]
NO == [k |-> "nothing"]
PT == [k |-> "point"]
Arr(t) == [k |-> "array", e |-> t]
Nul(t) == [k |-> "nullable", e |-> t]
LC(t) == [k |-> "lc", e |-> t]
Map(a, b) == [k |-> "map", key |-> a, val |-> b]
Tup(es) == [k |-> "tuple", es |-> es]
JS == [k |-> "json"]
EN == [k |-> "enum", w |-> 1, names |-> <<<<97>>, <<>>, <<98, 98>>>>, raws |-> <<<<1>>, <<128>>, <<127>>>>]
\* the type universe, as a sequence (type ASTs of different shapes are never put into one set)
Types == << F1, F2, ST, BO, FS, UU, NO, PT,
            Arr(F1), Arr(F2), Arr(ST), Arr(BO), Arr(FS), Arr(UU), Arr(NO), Arr(PT),
            Nul(F1), Nul(F2), Nul(ST), LC(F1), LC(ST), Map(ST, F1), Map(ST, ST), Map(F1, ST), Tup(<<F1, ST>>), Tup(<<ST>>),
            Arr(Arr(F1)), Arr(Arr(ST)), Arr(Nul(F2)), Arr(Nul(ST)), Arr(LC(ST)), Arr(LC(F1)), Arr(Map(ST, F1)),
            Map(ST, Arr(F1)), Map(LC(ST), Arr(F1)), Map(ST, Nul(F1)), Tup(<<Arr(ST), Nul(F2), LC(F1)>>), Tup(<<Map(ST, F1), Arr(Nul(F1))>>),
            Arr(Arr(Arr(F1))), Arr(Arr(LC(ST))), Nul(FS), LC(FS), LC(UU), EN, Arr(EN), Nul(EN), LC(EN), JS, Arr(JS), Nul(JS), Map(ST, JS) >>
Bytes8(x) == [i \in 1..8 |-> x]
RECURSIVE Vals(_)
Seqs(S, n) == UNION {[1..m -> S] : m \in 0..n}
RECURSIVE Take(_, _)
Take(S, n) == IF n = 0 \/ S = {} THEN {} ELSE LET x == CHOOSE y \in S : TRUE IN {x} \cup Take(S \ {x}, n - 1)
Vals(t) ==
  CASE t.k = "fixed" -> {[i \in 1..t.w |-> 0], [i \in 1..t.w |-> 255], [i \in 1..t.w |-> i]}
    [] t.k = "bool" -> {<<0>>, <<1>>}
    [] t.k = "fstring" -> {<<0, 0>>, <<65, 66>>}
    [] t.k = "uuid" -> {[i \in 1..16 |-> i], [i \in 1..16 |-> 0]}
    [] t.k \in {"string", "json"} -> {<<>>, <<97>>, <<98, 0, 255>>}
    [] t.k = "nothing" -> {<<>>}
    [] t.k = "enum" -> {t.names[i] : i \in 1..Len(t.names)}
    [] t.k = "point" -> {<<Bytes8(1), Bytes8(2)>>, <<Bytes8(0), Bytes8(0)>>}
    [] t.k = "nullable" -> {<<>>} \cup {<<v>> : v \in Vals(t.e)}
    [] t.k = "array" -> Seqs(Take(Vals(t.e), 3), 2)
    [] t.k = "map" -> Seqs({<<k, v>> : k \in Take(Vals(t.key), 2), v \in Take(Vals(t.val), 3)}, 2)
    [] t.k = "tuple" -> IF Len(t.es) = 1 THEN {<<a>> : a \in Vals(t.es[1])}
                        ELSE IF Len(t.es) = 2 THEN {<<a, b>> : a \in Take(Vals(t.es[1]), 3), b \in Take(Vals(t.es[2]), 3)}
                        ELSE {<<a, b, c>> : a \in Take(Vals(t.es[1]), 3), b \in Take(Vals(t.es[2]), 2), c \in Take(Vals(t.es[3]), 2)}
    [] t.k = "lc" -> Vals(t.e)
MaxLen(i) == IF i <= 26 THEN Bound ELSE Bound - 1
\* one initial state per type; its successors are the cases of that type (so that the workers share them)
Init == \E i \in 1..Len(Types) : case = [ti |-> i, vals |-> <<>>, root |-> TRUE]
Next == /\ case.root
        /\ \E vs \in Seqs(Vals(Types[case.ti]), MaxLen(case.ti)) : case' = [ti |-> case.ti, vals |-> vs, root |-> FALSE]
Spec == Init /\ [][Next]_case
T == Types[case.ti]
Enc == EncState(T) \o EncCol(T, case.vals)
Dec(b) == LET s == DecState(T, b, 0) IN IF ~s.ok THEN s ELSE DecCol(T, Len(case.vals), b, s.p)
\* null slots decode as NULL whatever the encoder put there; everything else must come back exactly
RoundTrip == LET d == Dec(Enc) IN d.ok /\ d.p = Len(Enc) /\ d.v = case.vals
\* no proper prefix is accepted as a complete encoding of the same number of rows
PrefixFree == \A k \in 0..(Len(Enc) - 1) : ~Dec(SubSeq(Enc, 1, k)).ok
=============================================================================
