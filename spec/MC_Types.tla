------------------------------ MODULE MC_Types ------------------------------
(* Design checks for Types.tla over a small universe of type ASTs:          *)
(*  - Compatible is reflexive and symmetric, relates the documented          *)
(*    equivalences and separates different bases (C19);                      *)
(*  - binding as a state machine: a sequence of blocks against one list of   *)
(*    targets; a target's name, once known, never changes, a target only     *)
(*    ever holds data of the column at its own position whose name and type  *)
(*    matched (C18).                                                         *)
EXTENDS Types
CONSTANT MaxBlocks

Bases == {"UInt8", "Int8", "Int16", "String", "Decimal32", "Decimal64", "DateTime", "DateTime64"}
Leaves == {T0(b) : b \in Bases} \cup
          { [b |-> "Enum8", ps |-> <<"'a' = 1">>, es |-> <<>>], [b |-> "Enum8", ps |-> <<"'x' = 1", "'y' = 2">>, es |-> <<>>],
            [b |-> "Enum16", ps |-> <<"'a' = 1">>, es |-> <<>>],
            [b |-> "FixedString", ps |-> <<"3">>, es |-> <<>>], [b |-> "FixedString", ps |-> <<"16">>, es |-> <<>>],
            [b |-> "DateTime", ps |-> <<"'UTC'">>, es |-> <<>>], [b |-> "DateTime64", ps |-> <<"3">>, es |-> <<>>],
            [b |-> "DateTime64", ps |-> <<"6", "'UTC'">>, es |-> <<>>] }
Decs == { [b |-> "Decimal", ps |-> <<"p", "s">>, es |-> <<>>, prec |-> p] : p \in {1, 9, 10, 18, 19, 38, 39, 76, 77} }
WithPrec(t) == IF "prec" \in DOMAIN t THEN t ELSE [b |-> t.b, ps |-> t.ps, es |-> t.es, prec |-> 0]
L1 == {WithPrec(t) : t \in Leaves} \cup Decs
Wrap(S) == { [b |-> w, ps |-> <<>>, es |-> <<t>>, prec |-> 0] : w \in {"Array", "Nullable", "LowCardinality"}, t \in S }
U == L1 \cup Wrap(L1) \cup Wrap(Wrap({WithPrec(T0("UInt8")), WithPrec(T0("Int8")), WithPrec([b |-> "Enum8", ps |-> <<"'a' = 1">>, es |-> <<>>])}))

ASSUME Reflexive == \A a \in U : Compatible(a, a)
ASSUME Symmetric == \A a, b \in U : Compatible(a, b) = Compatible(b, a)
ASSUME DifferentBases == \A a, b \in U :
          (a.b # b.b /\ {a.b, b.b} \cap {"Enum8", "Enum16", "Decimal"} = {}) => ~Compatible(a, b)
ASSUME EnumUnderlying == \A a \in U : /\ (a.b = "Enum8" => Compatible(a, WithPrec(T0("Int8"))) /\ ~Compatible(a, WithPrec(T0("Int16"))))
                                      /\ (a.b = "Enum16" => Compatible(a, WithPrec(T0("Int16"))) /\ ~Compatible(a, WithPrec(T0("Int8"))))
ASSUME DecimalAliases == \A a \in Decs :
          /\ (a.prec < 10) = Compatible(a, WithPrec(T0("Decimal32")))
          /\ (a.prec >= 10 /\ a.prec < 19) = Compatible(a, WithPrec(T0("Decimal64")))
          /\ \A b \in Decs : Compatible(a, b) = ((PrecClass(a.prec) = PrecClass(b.prec) /\ PrecClass(a.prec) # "none") \/ (a = b))
ASSUME ElementWise == \A a, b \in L1 : \A w \in {"Array", "Nullable", "LowCardinality"} :
          Compatible([b |-> w, ps |-> <<>>, es |-> <<a>>, prec |-> 0], [b |-> w, ps |-> <<>>, es |-> <<b>>, prec |-> 0]) = Compatible(a, b)
ASSUME TimeParams == \A a, b \in U : (a.b = b.b /\ a.b \in {"DateTime", "DateTime64"}) => Compatible(a, b)
ASSUME FixedParams == \A a, b \in U : (a.b = "FixedString" /\ b.b = "FixedString" /\ a # b) => ~Compatible(a, b)

-----------------------------------------------------------------------------
(* binding as a state machine *)
Names == {"a", "b"}
ColTypes == {WithPrec(T0("UInt8")), WithPrec(T0("Int8")), WithPrec([b |-> "Enum8", ps |-> <<"'a' = 1">>, es |-> <<>>]), WithPrec(T0("String"))}
Cols == [name : Names, type : ColTypes, data : {"d"}]
VARIABLES targets, n, bound, lastok, last
(* bound[i]: the set of <<block number, position>> whose data target i held at some point *)
vars == <<targets, n, bound, lastok, last>>
TargetLists == UNION { [1..k -> [name : Names \cup {""}, type : ColTypes, data : {<<0, 0>>}]] : k \in 0..2 }
Init == targets \in TargetLists /\ n = 0 /\ bound = [i \in 1..Len(targets) |-> {}] /\ lastok = TRUE /\ last = <<>>
Blocks == UNION { [1..k -> Cols] : k \in 0..2 }
Tag(blk, k) == [i \in 1..Len(blk) |-> [blk[i] EXCEPT !.data = <<k, i>>]]
Bind == /\ n < MaxBlocks /\ lastok
        /\ \E blk \in Blocks : \E rows \in {0, 2} :
             LET r == BindStep(targets, Tag(blk, n + 1), rows) IN
             /\ targets' = r.targets /\ lastok' = r.ok /\ n' = n + 1 /\ last' = Tag(blk, n + 1)
             /\ bound' = [i \in 1..Len(targets) |-> IF r.targets[i].data # targets[i].data THEN bound[i] \cup {r.targets[i].data} ELSE bound[i]]
Next == Bind
Spec == Init /\ [][Next]_vars
\* a target holds only data of the column at its own position...
OwnPosition == \A i \in 1..Len(targets) : \A d \in bound[i] : d[2] = i
\* ...and its name, once known, is kept
NameKept == [][\A i \in 1..Len(targets) : targets[i].name # "" => targets'[i].name = targets[i].name]_vars
\* data is taken only from a column with the target's name and a compatible type
OnlyMatching == [][\A i \in 1..Len(targets) : targets'[i].data # targets[i].data =>
                      /\ i <= Len(last') /\ last'[i].name = targets'[i].name /\ targets'[i].data = last'[i].data
                      /\ Compatible(last'[i].type, targets'[i].type)
                      /\ Len(last') = Len(targets)]_vars
\* a refused block changes no target's data beyond the columns before the mismatch
RefusedBindsNoLater == [][~lastok' => \A i \in 1..Len(targets) : targets'[i].data # targets[i].data =>
                           \A j \in 1..i : last'[j].name = targets'[j].name /\ Compatible(last'[j].type, targets'[j].type)]_vars
=============================================================================
