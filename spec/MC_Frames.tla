---- MODULE MC_Frames ----
EXTENDS Frames
Alts == {"none", "checksum", "method", "payload", "dataSize", "forgedSize", "rawSize", "cut"}
FrameSet == { [len |-> l, alt |-> a, fits |-> f] : l \in 0..2, a \in Alts, f \in BOOLEAN }
\* a cut ends the stream: it can only be the last frame
WellFormed(s) == \A i \in 1..Len(s) : (s[i].alt = "cut" => i = Len(s)) /\ (s[i].alt \notin {"dataSize", "forgedSize"} => s[i].fits)
MCStreams == { s \in UNION { [1..n -> FrameSet] : n \in 0..3 } : WellFormed(s) }
====
