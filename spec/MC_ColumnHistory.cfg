SPECIFICATION Spec
CONSTANTS
  Values = {1, 2, 3}
  MaxOps = 7
  StaleDict = FALSE
PROPERTY EncodeReflects
CHECK_DEADLOCK FALSE
