SPECIFICATION GSpec
CONSTANTS
  Users = {"u1", "u2", "u3"}
  NConns = 6
  MaxC = 2
  MinC = 1
  Fixed = TRUE
  Len0 = 9
INVARIANT EmitHist
CONSTRAINT Stop
CHECK_DEADLOCK FALSE
