------------------------ MODULE Trace_ColumnHistory ------------------------
(* Trace specification for reused column objects: the history recorded from  *)
(* a real column must be a behaviour of the list-of-values model, and every  *)
(* encode output, decoded by Wire.tla, must be exactly the model's contents. *)
EXTENDS Wire, Json, IOUtils, SequencesExt
VARIABLES l, vals, dirty, ast, rev
Trace == ndJsonDeserialize(IOEnv.TRACE)
Ev == Trace[l]
tvars == <<l, vals, dirty, ast, rev>>

Init == l = 1 /\ vals = <<>> /\ dirty = FALSE /\ ast = <<>> /\ rev = 0
Line(e) == l <= Len(Trace) /\ Ev.ev = e /\ l' = l + 1
TBegin == Line("HBegin") /\ vals' = <<>> /\ dirty' = FALSE /\ ast' = Ev.ast /\ rev' = Ev.rev
TAppend == Line("Append") /\ vals' = Append(vals, Ev.v) /\ (dirty \/ Ev.rows = Len(vals')) /\ UNCHANGED <<dirty, ast, rev>>
TAppendMany == Line("AppendMany") /\ vals' = vals \o Ev.vs /\ (dirty \/ Ev.rows = Len(vals')) /\ UNCHANGED <<dirty, ast, rev>>
\* the column adopts another definition of its type (an enum with the same names under other numbers): its contents stay
TInfer == Line("Infer") /\ Ev.err = "" /\ ast' = Ev.ast /\ (dirty \/ Ev.rows = Len(vals)) /\ UNCHANGED <<vals, dirty, rev>>
TReset == Line("Reset") /\ vals' = <<>> /\ dirty' = FALSE /\ Ev.rows = 0 /\ UNCHANGED <<ast, rev>>
TPrepare == Line("Prepare") /\ (dirty \/ (Ev.err = "" /\ Ev.rows = Len(vals))) /\ UNCHANGED <<vals, dirty, ast, rev>>
\* the raw block: columns, rows, name, type, flag, state, data - decoded by the specification
EncodeOK ==
  LET D == DecRawBlock(rev, <<ast>>, Ev.bytes, 0) IN
  /\ Ev.err = "" /\ Ev.rows = Len(vals)
  /\ D.ok /\ D.p = Len(Ev.bytes) /\ D.v.rows = Len(vals) /\ D.v.cols[1].vals = vals
TEncode == Line("Encode") /\ (dirty \/ EncodeOK) /\ UNCHANGED <<vals, dirty, ast, rev>>
\* a block decoded into the column through Results.DecodeResult, which empties its targets first: the column then holds
\* the rows of that block - none, for a block of zero rows - whatever it held before (also after a failed decode)
TDecodeOK == /\ Line("DecodeOK")
             /\ Ev.err = "" /\ Ev.read = Ev.data /\ Ev.rows = Len(Ev.data) /\ vals' = Ev.data /\ dirty' = FALSE
             /\ UNCHANGED <<ast, rev>>
TDecodeFail == Line("DecodeFail") /\ Ev.err # "" /\ dirty' = TRUE /\ UNCHANGED <<vals, ast, rev>>
Next == TBegin \/ TAppend \/ TAppendMany \/ TInfer \/ TReset \/ TPrepare \/ TEncode \/ TDecodeOK \/ TDecodeFail
TSpec == Init /\ [][Next]_tvars
HW == TLCSet(1, IF TLCGet(1) < l THEN l ELSE TLCGet(1))
Accepted == PrintT(<<"HWM", TLCGet(1)>>) /\ TLCGet(1) = Len(Trace) + 1
ASSUME TLCSet(1, 0)
=============================================================================
