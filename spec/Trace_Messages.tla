--------------------------- MODULE Trace_Messages ---------------------------
(* Trace specification for the protocol messages: each line is one message   *)
(* as the harness filled it, the bytes the library's EncodeAware produced at  *)
(* the given revision, and what its DecodeAware read back.  The bytes must    *)
(* be exactly EncMsg of Messages.tla - the layout IS the property - and the   *)
(* decoder must return every field that is present at that revision,         *)
(* consuming exactly the encoding.  Every proper prefix must be refused.      *)
EXTENDS Messages, Json, IOUtils, SequencesExt
VARIABLE l
Trace == ndJsonDeserialize(IOEnv.TRACE)
Ev == Trace[l]
\* documented refusals of the library's decoders (outside the decode half of the property)
Refuses(e) == \/ (e.kind = "Query" /\ e.rev < SettingsAsStrings)
              \/ (e.kind \in {"Query", "ClientInfo"} /\ Get(e.fields, "info.interface") # <<1>> /\ (e.kind = "ClientInfo" \/ e.rev >= ClientWriteInfo))
MsgOK(e) ==
  /\ e.bytes = EncMsg(e.kind, e.rev, e.fields)
  /\ IF Refuses(e) THEN TRUE
     ELSE /\ e.decErr = "" /\ e.leftover = 0
          /\ SameWhere(e.kind, e.rev, e.fields, e.decoded)
  /\ e.prefixAccepted = <<>>
LineOK == CASE Ev.ev = "Msg" -> MsgOK(Ev) [] OTHER -> FALSE
Init == l = 1
Next == l <= Len(Trace) /\ l' = l + 1 /\ (LineOK \/ PrintT(<<"REJECT", l>>))
TSpec == Init /\ [][Next]_l
HW == TLCSet(1, IF TLCGet(1) < l THEN l ELSE TLCGet(1))
Accepted == PrintT(<<"HWM", TLCGet(1)>>) /\ TLCGet(1) = Len(Trace) + 1
ASSUME TLCSet(1, 0)
=============================================================================
