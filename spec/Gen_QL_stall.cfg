SPECIFICATION Spec
CONSTANTS
  Configs <- CancelConfigs
  Fixed = TRUE
  AllowForeignClose = FALSE
  AllowCancel = TRUE
  AllowStall = TRUE
INVARIANT EmitHist
CHECK_DEADLOCK FALSE
