------------------------------- MODULE Writer -------------------------------
(***************************************************************************)
(* proto.Writer (proto/writer.go): a vectored writer.  Callers append to a *)
(* staging buffer (ChainBuffer), chain external slices without copying     *)
(* (ChainWrite) and flush everything with one vectored write (Flush).      *)
(*                                                                         *)
(* Go's slice semantics are modelled explicitly, because the property the  *)
(* writer has to keep ("exactly what was chained, once, in order, whatever *)
(* reallocations the internal buffer went through") is a statement about   *)
(* aliasing: `arrays` are backing arrays, the staging buffer is a          *)
(* (array, len, cap) triple, an entry of the vector is a *view* into a     *)
(* backing array (or an external slice), and a view is only read when the  *)
(* flush happens.                                                          *)
(*                                                                         *)
(* Code map: App/Rewrite = what a ChainBuffer callback does to w.buf.Buf   *)
(* (writer.go:44-46; the compression path of Client.encodeBlock truncates  *)
(* and re-appends inside one callback); ChainWrite = writer.go:34-37;      *)
(* Cut = cutBuffer writer.go:48-56; Flush = writer.go:68-73 (cut, WriteTo, *)
(* unconditional reset).                                                   *)
(***************************************************************************)
EXTENDS Integers, Sequences, FiniteSets, TLC

CONSTANTS MaxOps,    \* bound on the number of operations (model checking only)
          InitCap,   \* initial capacity of the staging buffer
          CutFirst,  \* TRUE = ChainWrite cuts the staging buffer first (the code); FALSE only to show non-vacuity
          KeepOnErr  \* FALSE = Flush resets also when the write failed (the code); TRUE only to show non-vacuity

VARIABLES arrays,    \* sequence of backing arrays, each a sequence of cells holding byte values
          buf,       \* staging buffer: [arr, len, cap]
          off,       \* bufOffset: start of the not-yet-cut part of the staging buffer
          vec,       \* sequence of [k |-> "view", arr, lo, hi] or [k |-> "ext", bytes]
          out,       \* sequence of flush records [bytes, err]: what each Flush delivered
          expected,  \* ghost: everything appended/chained since the previous flush, in call order
          fresh,     \* next unused byte id (model checking gives every byte a distinct id)
          ops        \* number of operations so far

vars == <<arrays, buf, off, vec, out, expected, fresh, ops>>

TypeOK == /\ buf.len <= buf.cap /\ off <= buf.len /\ buf.arr \in 1..Len(arrays)
          /\ Len(arrays[buf.arr]) = buf.cap

Init == /\ arrays = << [i \in 1..InitCap |-> 0] >>
        /\ buf = [arr |-> 1, len |-> 0, cap |-> InitCap]
        /\ off = 0 /\ vec = <<>> /\ out = <<>> /\ expected = <<>> /\ fresh = 1 /\ ops = 0

-----------------------------------------------------------------------------
(* Go's append on the staging buffer whose length is l after a possible    *)
(* truncation: in place when it fits, otherwise a new backing array - the  *)
(* old views keep pointing at the old array.                               *)
AppendAt(l, bs) ==
  LET k == Len(bs) IN
  IF l + k <= buf.cap
    THEN /\ arrays' = [arrays EXCEPT ![buf.arr] =
                         [i \in 1..buf.cap |-> IF i > l /\ i <= l + k THEN bs[i - l] ELSE @[i]]]
         /\ buf' = [buf EXCEPT !.len = l + k]
    ELSE LET ncap == IF 2 * buf.cap >= l + k THEN 2 * buf.cap ELSE l + k
             old  == arrays[buf.arr]
         IN /\ arrays' = Append(arrays, [i \in 1..ncap |->
                                   IF i <= l THEN old[i] ELSE IF i <= l + k THEN bs[i - l] ELSE 0])
            /\ buf' = [arr |-> Len(arrays) + 1, len |-> l + k, cap |-> ncap]

(* A ChainBuffer callback that appends bs.                                 *)
App(bs) == /\ bs # <<>>
           /\ AppendAt(buf.len, bs)
           /\ expected' = expected \o bs
           /\ UNCHANGED <<off, vec, out>>

(* A ChainBuffer callback that drops the last t not-yet-cut bytes and      *)
(* appends bs instead (block encoded, then replaced by its compressed      *)
(* frame).                                                                 *)
Rewrite(t, bs) == /\ t > 0 /\ t <= buf.len - off
                  /\ AppendAt(buf.len - t, bs)
                  /\ expected' = SubSeq(expected, 1, Len(expected) - t) \o bs
                  /\ UNCHANGED <<off, vec, out>>

CutVec == IF buf.len > off
            THEN Append(vec, [k |-> "view", arr |-> buf.arr, lo |-> off, hi |-> buf.len])
            ELSE vec

ChainWrite(bs) ==
  /\ IF CutFirst
       THEN vec' = Append(CutVec, [k |-> "ext", bytes |-> bs]) /\ off' = buf.len
       ELSE vec' = Append(vec, [k |-> "ext", bytes |-> bs]) /\ off' = off
  /\ expected' = expected \o bs
  /\ UNCHANGED <<arrays, buf, out>>

Content(v) == IF v.k = "ext" THEN v.bytes ELSE SubSeq(arrays[v.arr], v.lo + 1, v.hi)
RECURSIVE Cat(_)
Cat(vs) == IF vs = <<>> THEN <<>> ELSE Content(Head(vs)) \o Cat(Tail(vs))

Pending == Cat(CutVec)     \* what a flush would write now (views are read at flush time)

(* mode = 0: the underlying writer accepts everything; mode = n > 0: it     *)
(* accepts n bytes in total and then fails.                                 *)
Delivered(mode) == IF mode = 0 \/ mode >= Len(Pending) THEN Pending ELSE SubSeq(Pending, 1, mode)
Failed(mode) == mode # 0 /\ mode < Len(Pending)

Flush(mode) ==
  /\ out' = Append(out, [bytes |-> Delivered(mode), err |-> Failed(mode), want |-> expected])
  /\ IF KeepOnErr /\ Failed(mode)
       THEN UNCHANGED <<vec, off, buf, expected>>
       ELSE vec' = <<>> /\ off' = 0 /\ buf' = [buf EXCEPT !.len = 0] /\ expected' = <<>>
  /\ UNCHANGED arrays

-----------------------------------------------------------------------------
(* Model-checking instance: every byte gets a fresh id.                     *)
New(k) == [i \in 1..k |-> fresh + i - 1]
Step == ops < MaxOps /\ ops' = ops + 1

Next == \/ \E k \in 1..2 : Step /\ App(New(k)) /\ fresh' = fresh + k
        \/ \E t \in 1..2 : \E k \in 1..2 : Step /\ Rewrite(t, New(k)) /\ fresh' = fresh + k
        \/ \E k \in 0..2 : Step /\ ChainWrite(New(k)) /\ fresh' = fresh + k
        \/ \E m \in 0..2 : Step /\ Flush(m) /\ UNCHANGED fresh

Spec == Init /\ [][Next]_vars

-----------------------------------------------------------------------------
(* The property (C14).                                                      *)
IsPrefixOf(a, b) == Len(a) <= Len(b) /\ SubSeq(b, 1, Len(a)) = a

\* every flush delivered exactly what had been appended or chained since the
\* previous one - all of it on success, a prefix of it on failure
Exact == \A i \in 1..Len(out) :
           IF out[i].err THEN IsPrefixOf(out[i].bytes, out[i].want) /\ out[i].bytes # out[i].want
                         ELSE out[i].bytes = out[i].want

AllOut == LET RECURSIVE F(_) F(i) == IF i > Len(out) THEN <<>> ELSE out[i].bytes \o F(i + 1) IN F(1)
\* nothing is ever written twice and nothing is reordered (byte ids are increasing)
Once == \A i \in 1..(Len(AllOut) - 1) : AllOut[i] < AllOut[i + 1]
\* what is pending is always what the caller handed in
PendingIsExpected == Pending = expected
=============================================================================
