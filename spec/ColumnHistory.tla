--------------------------- MODULE ColumnHistory ---------------------------
(***************************************************************************)
(* A column object reused across blocks, as a list-of-values model: the    *)
(* only state a column is allowed to have is its current logical contents. *)
(*   Append(v)      adds a row                                             *)
(*   Reset          forgets everything                                     *)
(*   Prepare        (LowCardinality, Enum, Map...) changes nothing logical *)
(*   Encode         what a block encode does (Prepare; state; column):     *)
(*                  its output decodes - with Wire.tla - to exactly the    *)
(*                  current contents, however often the column was         *)
(*                  appended to, prepared, encoded or reset before         *)
(*   DecodeOK(d)    into an empty (fresh or reset) column: contents = d    *)
(*   DecodeFail     a failed decode leaves the contents unspecified until  *)
(*                  the next Reset                                         *)
(* Model checking instance: values are small integers and Encode emits the *)
(* list itself, which checks the model's own properties (ResetForgets,     *)
(* EncodeReflects); with StaleDict = TRUE the encode keeps keys of earlier *)
(* encodes (the pinned LowCardinality.Prepare, F-14) and violates them.    *)
(***************************************************************************)
EXTENDS Integers, Sequences, TLC
CONSTANTS Values, MaxOps, StaleDict
VARIABLES vals, dirty, dict, lastOut, ops
vars == <<vals, dirty, dict, lastOut, ops>>

Init == vals = <<>> /\ dirty = FALSE /\ dict = <<>> /\ lastOut = <<>> /\ ops = 0
Step == ops < MaxOps /\ ops' = ops + 1
AppendV(v) == Step /\ vals' = Append(vals, v) /\ UNCHANGED <<dirty, dict, lastOut>>
Reset == Step /\ vals' = <<>> /\ dirty' = FALSE /\ UNCHANGED <<dict, lastOut>>
         /\ dict' = IF StaleDict THEN dict ELSE <<>>
\* the dictionary an encode builds: fresh numbering of the distinct values - or, with the stale variant, new values
\* numbered from zero again while the old entries stay
Idx(s, x) == CHOOSE j \in 1..Len(s) : s[j] = x
Has(s, x) == \E j \in 1..Len(s) : s[j] = x
RECURSIVE Build(_, _, _)
Build(i, d, n) == IF i > Len(vals) THEN d
                  ELSE IF Has(d, vals[i]) THEN Build(i + 1, d, n) ELSE Build(i + 1, Append(d, vals[i]), n + 1)
RECURSIVE StaleKeys(_, _, _, _)
\* F-14: numbering restarts at 0 (last) but the map keeps old entries: a new value gets key `last`, which may name an old entry
StaleKeys(i, known, last, acc) ==
  IF i > Len(vals) THEN acc
  ELSE IF \E p \in known : p[1] = vals[i]
         THEN StaleKeys(i + 1, known, last, Append(acc, (CHOOSE p \in known : p[1] = vals[i])[2]))
         ELSE StaleKeys(i + 1, known \cup {<<vals[i], last>>}, last + 1, Append(acc, last))
Encode ==
  /\ Step /\ ~dirty
  /\ IF StaleDict
       THEN LET known == {<<dict[j], j - 1>> : j \in 1..Len(dict)}
                keys == StaleKeys(1, known, 0, <<>>)
                nd == Build(1, dict, 0)
            IN /\ dict' = nd
               /\ lastOut' = [i \in 1..Len(vals) |-> IF keys[i] + 1 <= Len(nd) THEN nd[keys[i] + 1] ELSE -1]
       ELSE /\ dict' = Build(1, <<>>, 0)
            /\ lastOut' = [i \in 1..Len(vals) |-> dict'[Idx(dict', vals[i])]]
  /\ UNCHANGED <<vals, dirty>>
DecodeOK(d) == Step /\ vals = <<>> /\ ~dirty /\ vals' = d /\ UNCHANGED <<dirty, dict, lastOut>>
DecodeFail == Step /\ vals = <<>> /\ dirty' = TRUE /\ UNCHANGED <<vals, dict, lastOut>>
Next == \/ \E v \in Values : AppendV(v)
        \/ Reset \/ Encode \/ DecodeFail
        \/ \E d \in {<<>>} \cup {<<v>> : v \in Values} : DecodeOK(d)
Spec == Init /\ [][Next]_vars
\* every encode reflects exactly the current contents
EncodeReflects == [][Encode => lastOut' = vals]_vars
=============================================================================
