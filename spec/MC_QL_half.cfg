SPECIFICATION Spec
CONSTANTS
  Configs <- HalfConfigs
  Fixed = TRUE
  AllowForeignClose = FALSE
  AllowCancel = TRUE
  AllowStall = FALSE
VIEW View
INVARIANT PacketBoundary
INVARIANT NoStaleOutput
INVARIANT CleanSuccess
INVARIANT ClosedImpliesConn
INVARIANT NilOnlyAfterEos
INVARIANT Delivered
INVARIANT ExcReturned
INVARIANT OneTerminator
INVARIANT TailSent
INVARIANT Faithful
INVARIANT CancelReturnsCtx
INVARIANT CancelCloses
INVARIANT CancelPacketOnce
INVARIANT NoOrphans
INVARIANT NoInfoRace
CHECK_DEADLOCK FALSE
