SPECIFICATION TSpec
CONSTANTS
  Streams = {}
  ShortRead = FALSE
  MaxTimeouts = 1000
CONSTRAINT HW
POSTCONDITION Accepted
INVARIANT TNoGarbage
CHECK_DEADLOCK FALSE
