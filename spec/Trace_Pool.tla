----------------------------- MODULE Trace_Pool -----------------------------
(* Trace specification for chpool: every recorded operation of a history     *)
(* replayed on a real pool must be a step of Pool.tla (Fixed = TRUE) with    *)
(* the observed result: which connection a handle got and which connection   *)
(* served its request, errors, panics, puddle's Stat(), which dialed         *)
(* connections are closed.  puddle's asynchronous steps (destructor,         *)
(* forgetting a destroyed resource, MinConns dials) and the health check's   *)
(* per-connection decisions have no trace line: TLC infers them.  Ages and   *)
(* idle times measured by the harness decide `expired` / `idleOld` (with a   *)
(* margin inside which both are accepted).                                   *)
EXTENDS Pool, Json, IOUtils, SequencesExt
CONSTANTS Life, IdleT, Margin     \* milliseconds
VARIABLES l, timed     \* timed: 0 = the line's time has not been applied yet, 1 = its operation is next, 2 = its observation is next
Trace == ndJsonDeserialize(IOEnv.TRACE)
tvars == <<vars, l, timed>>
Ev == Trace[l]

InitVals ==
  /\ status = [c \in Conns |-> IF c <= MinC THEN "idle" ELSE "none"]
  /\ clientClosed = [c \in Conns |-> FALSE] /\ connClosed = [c \in Conns |-> FALSE]
  /\ expired = [c \in Conns |-> FALSE] /\ idleOld = [c \in Conns |-> FALSE]
  /\ permits = MaxC /\ dials = MinC
  /\ cur = [u \in Users |-> 0] /\ stale = [u \in Users |-> {}] /\ busy = [u \in Users |-> FALSE]
  /\ poolClosed = FALSE /\ panicked = FALSE /\ maxInflight = 0
TInit == InitVals /\ l = 2 /\ timed = 0 /\ Trace[1].ev = "Begin"

TBegin ==
  /\ l <= Len(Trace) /\ Ev.ev = "Begin" /\ timed = 0 /\ l' = l + 1 /\ timed' = 0
  /\ status' = [c \in Conns |-> IF c <= MinC THEN "idle" ELSE "none"]
  /\ clientClosed' = [c \in Conns |-> FALSE] /\ connClosed' = [c \in Conns |-> FALSE]
  /\ expired' = [c \in Conns |-> FALSE] /\ idleOld' = [c \in Conns |-> FALSE]
  /\ permits' = MaxC /\ dials' = MinC
  /\ cur' = [u \in Users |-> 0] /\ stale' = [u \in Users |-> {}] /\ busy' = [u \in Users |-> FALSE]
  /\ poolClosed' = FALSE /\ panicked' = FALSE /\ maxInflight' = 0

(* first half of every line: time has passed *)
Known(c) == c <= Len(Ev.ages)
TTime ==
  /\ l <= Len(Trace) /\ "ages" \in DOMAIN Ev /\ timed = 0 /\ timed' = 1 /\ UNCHANGED l
  \* the pool compared the age somewhere between the measurement before (ages) and after (agesAfter) the operation
  /\ \E E \in SUBSET {c \in Conns : Known(c) /\ Ev.agesAfter[c] >= Life - Margin /\ Ev.ages[c] <= Life + Margin} :
       expired' = [c \in Conns |-> expired[c] \/ (Known(c) /\ Ev.ages[c] > Life + Margin) \/ c \in E]
  /\ \E I \in SUBSET {c \in Conns : Known(c) /\ Ev.idlesAfter[c] >= IdleT - Margin /\ Ev.idles[c] <= IdleT + Margin} :
       idleOld' = [c \in Conns |-> Known(c) /\ status[c] \in {"idle", "hc"} /\ (Ev.idles[c] > IdleT + Margin \/ c \in I)]
  /\ UNCHANGED <<status, clientClosed, connClosed, permits, dials, cur, stale, busy, poolClosed, panicked, maxInflight>>

Count(S) == Cardinality({c \in Conns : status[c] \in S})
ObsOK ==
  /\ Ev.stat.total = Count({"constructing", "idle", "acquired", "hc", "destroying"})
  /\ Ev.stat.acquired = Count({"acquired", "hc", "destroying"})
  /\ Ev.stat.idle = Count({"idle"})
  /\ Ev.stat.constructing = Count({"constructing"})
  /\ Ev.dials = dials
  /\ \A c \in 1..dials : connClosed[c] = (c \in ToSet(Ev.closed))
  /\ \A c \in Conns : status[c] # "hc"       \* the health check has finished with every connection it took

Consume(e) == l <= Len(Trace) /\ timed = 1 /\ Ev.ev = e /\ UNCHANGED l /\ timed' = 2
(* the observation recorded with the line holds after the operation and the asynchronous steps that followed it *)
\* (Pool.Do / Pool.Ping are one call of the library: the trace shows their three steps, the pool is observed after the last)
TObserve == /\ l <= Len(Trace) /\ timed = 2 /\ (Ev.ev = "HC" \/ "composite" \in DOMAIN Ev \/ ObsOK) /\ l' = l + 1 /\ timed' = 0 /\ UNCHANGED vars

Outcome(how) == IF how = "ping" THEN "ok" ELSE how
ErrOf(u, how) == IF clientClosed[cur[u]] THEN "closed"
                 ELSE CASE how \in {"ok", "ping"} -> "nil" [] how = "exc" -> "exc" [] how = "transport" -> "err" [] OTHER -> "ctx"

TAcquire ==
  /\ Consume("Acquire")
  /\ IF Ev.res = "ok"
       THEN /\ \/ AcquireIdle(Ev.u, Ev.conn)
               \/ (AcquireDial(Ev.u, TRUE) /\ Ev.conn = dials + 1)
       ELSE AcquireFails(Ev.u) \/ AcquireDial(Ev.u, FALSE) \/ (Ev.errc = "ctx" /\ AcquireAbandon(Ev.u))
TUse ==
  /\ Consume("Use") /\ Use(Ev.u, Outcome(Ev.how))
  /\ Ev.conn = cur[Ev.u]
  \* the request reached the handle's own connection and no other one; a closed client refuses without touching
  \* the connection; a request given up by the caller may not have been seen by the server yet
  /\ ToSet(Ev.served) \subseteq {cur[Ev.u]}
  /\ (clientClosed[cur[Ev.u]] => Ev.served = <<>>)
  /\ (~clientClosed[cur[Ev.u]] /\ Ev.how # "cancelled" => Ev.served = <<cur[Ev.u]>>)
  /\ Ev.errc = ErrOf(Ev.u, Ev.how)
  /\ Ev.clientClosed = clientClosed'[cur[Ev.u]]
TRelease ==
  /\ Consume("Release") /\ Release(Ev.u) /\ Ev.conn = cur[Ev.u] /\ (Ev.panic = "") = ~panicked'
TStaleRelease ==
  /\ Consume("StaleRelease") /\ StaleRelease(Ev.u, Ev.conn) /\ (Ev.panic = "") = ~panicked'
THC ==
  /\ Consume("HC")
  /\ \/ HC_Acquire
     \/ ((poolClosed \/ ~\E c \in Conns : status[c] = "idle") /\ UNCHANGED vars)
TClose ==
  /\ Consume("Close") /\ (ClosePool \/ (poolClosed /\ UNCHANGED vars))

(* steps without a trace line *)
TSilent ==
  /\ UNCHANGED <<l, timed>>
  /\ \/ \E c \in Conns : DestroyClose(c) \/ DestroyEnd(c) \/ HC_Process(c)
     \/ HC_CreateBegin
     \/ \E c \in Conns : \E ok \in BOOLEAN : CreateEnd(c, ok)

TNext == TBegin \/ TTime \/ TObserve \/ TAcquire \/ TUse \/ TRelease \/ TStaleRelease \/ THC \/ TClose \/ TSilent
TSpec == TInit /\ [][TNext]_tvars

HW == TLCSet(1, IF TLCGet(1) < l THEN l ELSE TLCGet(1))
Accepted == PrintT(<<"HWM", TLCGet(1)>>) /\ TLCGet(1) = Len(Trace) + 1
ASSUME TLCSet(1, 0)
=============================================================================
