SPECIFICATION Spec
CONSTANT Bound = 2
INVARIANT RoundTrip
INVARIANT PrefixFree
CHECK_DEADLOCK FALSE
