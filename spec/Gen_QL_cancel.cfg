SPECIFICATION Spec
CONSTANTS
  Configs <- CancelConfigs
  Fixed = TRUE
  AllowForeignClose = FALSE
  AllowCancel = TRUE
INVARIANT EmitHist
CHECK_DEADLOCK FALSE
