SPECIFICATION Spec
CONSTANTS
  Configs <- CancelConfigs
  Fixed = TRUE
  AllowForeignClose = FALSE
  AllowCancel = TRUE
  AllowStall = FALSE
INVARIANT EmitHist
CHECK_DEADLOCK FALSE
