SPECIFICATION Spec
CONSTANTS
  Users = {u1, u2, u3}
  NConns = 3
  MaxC = 2
  MinC = 1
  Fixed = TRUE
INVARIANT OneHolder
INVARIANT MaxConns
INVARIANT NoDeadIdle
INVARIANT NoPanic
INVARIANT HeldIsAcquired
INVARIANT PermitsSane
INVARIANT AllClosedAfterClose
PROPERTY ReleaseIdempotent
CHECK_DEADLOCK FALSE
