SPECIFICATION TSpec
CONSTANTS
  MaxOps = 0
  InitCap = 0
  CutFirst = TRUE
  KeepOnErr = FALSE
CONSTRAINT HW
INVARIANT Exact
POSTCONDITION Accepted
CHECK_DEADLOCK FALSE
