SPECIFICATION Spec
CONSTANTS
  MaxOps = 6
  InitCap = 2
  CutFirst = FALSE
  KeepOnErr = FALSE
INVARIANT TypeOK
INVARIANT Exact
INVARIANT Once
INVARIANT PendingIsExpected
CHECK_DEADLOCK FALSE
