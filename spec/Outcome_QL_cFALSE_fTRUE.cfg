SPECIFICATION Spec
CONSTANTS
  Configs <- ObsConfigs
  Fixed = TRUE
  AllowForeignClose = TRUE
  AllowCancel = FALSE
  AllowStall = FALSE
VIEW View
INVARIANT NotObserved
CHECK_DEADLOCK FALSE
