------------------------------ MODULE Messages ------------------------------
(***************************************************************************)
(* The protocol messages ch-go encodes and decodes, as field tables: for   *)
(* each message the fields in wire order, each with its codec and the      *)
(* revision from which it exists (0 = always).  A message value is a       *)
(* sequence of [n |-> name, b |-> bytes]; numbers arrive already in their  *)
(* wire form (the harness produces LEB128 / little-endian bytes with       *)
(* encoding/binary), so what this module adds is exactly what C17 is       *)
(* about: which fields are on the wire at which revision, in which order,  *)
(* with which framing.                                                     *)
(*   codec "str"  : uvarint length + bytes                                 *)
(*   codec "wire" : the bytes as they are (uvarint, u8, i32, i64, bool)    *)
(*   codec "list" : items (each a sequence of str / wire fields) followed  *)
(*                  by an empty string                                     *)
(***************************************************************************)
EXTENDS Wire, Features

F(n, c, from, when) == [n |-> n, c |-> c, from |-> from, when |-> when]
ClientInfoTable ==
  << F("info.query", "wire", 0, "always"), F("info.initialUser", "str", 0, "always"), F("info.initialQueryID", "str", 0, "always"),
     F("info.initialAddress", "str", 0, "always"), F("info.initialTime", "wire", QueryStartTime, "always"),
     F("info.interface", "wire", 0, "always"), F("info.osUser", "str", 0, "always"), F("info.hostname", "str", 0, "always"),
     F("info.clientName", "str", 0, "always"), F("info.major", "wire", 0, "always"), F("info.minor", "wire", 0, "always"),
     F("info.protocolVersion", "wire", 0, "always"), F("info.quotaKey", "str", QuotaKeyInClientInfo, "always"),
     F("info.distributedDepth", "wire", DistributedDepth, "always"), F("info.patch", "wire", VersionPatch, "tcp"),
     F("info.otel", "wire", OpenTelemetry, "always"), F("info.traceID", "wire", OpenTelemetry, "otel"),
     F("info.spanID", "wire", OpenTelemetry, "otel"), F("info.traceState", "str", OpenTelemetry, "otel"),
     F("info.traceFlags", "wire", OpenTelemetry, "otel"),
     F("info.collaborate", "wire", ParallelReplicas, "always"), F("info.replicas", "wire", ParallelReplicas, "always"),
     F("info.replicaNumber", "wire", ParallelReplicas, "always") >>
Shift(tab, by) == [i \in 1..Len(tab) |-> [tab[i] EXCEPT !.from = IF @ < by THEN by ELSE @]]

Table(kind) ==
  CASE kind = "ClientHello" -> << F("code", "wire", 0, "always"), F("name", "str", 0, "always"), F("major", "wire", 0, "always"),
                                  F("minor", "wire", 0, "always"), F("protocolVersion", "wire", 0, "always"),
                                  F("database", "str", 0, "always"), F("user", "str", 0, "always"), F("password", "str", 0, "always") >>
    [] kind = "ServerHello" -> << F("code", "wire", 0, "always"), F("name", "str", 0, "always"), F("major", "wire", 0, "always"),
                                  F("minor", "wire", 0, "always"), F("revision", "wire", 0, "always"),
                                  F("timezone", "str", Timezone, "always"), F("displayName", "str", DisplayName, "always"),
                                  F("patch", "wire", VersionPatch, "always") >>
    [] kind = "ClientInfo" -> ClientInfoTable
    [] kind = "Query" -> << F("code", "wire", 0, "always"), F("id", "str", 0, "always") >>
                         \o Shift(ClientInfoTable, ClientWriteInfo)
                         \o << F("settings", "list", SettingsAsStrings, "always"), F("settingsEnd", "str", 0, "always"),
                               F("secret", "str", InterServerSecret, "always"), F("stage", "wire", 0, "always"),
                               F("compression", "wire", 0, "always"), F("body", "str", 0, "always"),
                               F("parameters", "list", Parameters, "always"), F("parametersEnd", "str", Parameters, "always") >>
    [] kind = "ClientData" -> << F("tableName", "str", TempTables, "always") >>
    [] kind = "Progress" -> << F("rows", "wire", 0, "always"), F("bytes", "wire", 0, "always"), F("totalRows", "wire", 0, "always"),
                               F("wroteRows", "wire", ClientWriteInfo, "always"), F("wroteBytes", "wire", ClientWriteInfo, "always"),
                               F("elapsedNs", "wire", QueryTimeInProgress, "always") >>
    [] kind = "Profile" -> << F("code", "wire", 0, "always"), F("rows", "wire", 0, "always"), F("blocks", "wire", 0, "always"),
                              F("bytes", "wire", 0, "always"), F("appliedLimit", "wire", 0, "always"),
                              F("rowsBeforeLimit", "wire", 0, "always"), F("calculated", "wire", 0, "always") >>
    [] kind = "Exception" -> << F("code", "wire", 0, "always"), F("name", "str", 0, "always"), F("message", "str", 0, "always"),
                                F("stack", "str", 0, "always"), F("nested", "wire", 0, "always") >>
    [] kind = "TableColumns" -> << F("code", "wire", 0, "always"), F("first", "str", 0, "always"), F("second", "str", 0, "always") >>

Has(m, name) == \E i \in 1..Len(m) : m[i].n = name
Get(m, name) == m[CHOOSE i \in 1..Len(m) : m[i].n = name].b
When(m, w) == CASE w = "always" -> TRUE
                [] w = "tcp" -> Get(m, "info.interface") = <<1>>
                [] w = "otel" -> Get(m, "info.otel") = <<1>>
Present(m, f, rev) == rev >= f.from /\ When(m, f.when)

Flat2(ss) == LET RECURSIVE G(_) G(i) == IF i > Len(ss) THEN <<>> ELSE ss[i] \o G(i + 1) IN G(1)
EncItem(item) == Flat2([j \in 1..Len(item) |-> IF item[j].c = "str" THEN EncStr(item[j].b) ELSE item[j].b])
EncField(m, f) == LET v == Get(m, f.n) IN
                  CASE f.c = "str" -> EncStr(v)
                    [] f.c = "wire" -> v
                    [] f.c = "list" -> Flat2([i \in 1..Len(v) |-> EncItem(v[i])])
\* the encoding of message m of the given kind at revision rev
EncMsg(kind, rev, m) ==
  LET tab == Table(kind) IN Flat2([i \in 1..Len(tab) |-> IF Present(m, tab[i], rev) THEN EncField(m, tab[i]) ELSE <<>>])
\* what a decoder must hand back: every present field as sent
SameWhere(kind, rev, m, d) ==
  LET tab == Table(kind) IN
  \A i \in 1..Len(tab) : (Present(m, tab[i], rev) /\ Has(d, tab[i].n)) => Get(d, tab[i].n) = Get(m, tab[i].n)
\* presence is monotone in the revision (design lemma)
Monotone(kind, m) == \A i \in 1..Len(Table(kind)) : \A r \in Thresholds :
                       Present(m, Table(kind)[i], r) => Present(m, Table(kind)[i], r + 1)
=============================================================================
