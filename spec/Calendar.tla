------------------------------ MODULE Calendar ------------------------------
(***************************************************************************)
(* Civil time as ClickHouse's scalar time types see it.                     *)
(*                                                                         *)
(* An instant is [days, sec, ns]: whole days since 1970-01-01 (negative     *)
(* before it), second of the day 0..86399, nanosecond 0..999999999 - TLC's  *)
(* integers are 32 bits wide, so seconds since the epoch (10^10 in 2299)    *)
(* never appear as one number.  A civil time is [y, m, d, h, mi, s, ns,     *)
(* off]: calendar fields in a zone off seconds east of UTC.                 *)
(*                                                                         *)
(* The calendar is the proleptic Gregorian one, written from its definition *)
(* (leap years, month lengths), independently of any library.               *)
(***************************************************************************)
EXTENDS Integers, Sequences

IsLeap(y) == (y % 4 = 0 /\ y % 100 # 0) \/ y % 400 = 0
DaysInMonth(y, m) == CASE m \in {1, 3, 5, 7, 8, 10, 12} -> 31 [] m \in {4, 6, 9, 11} -> 30 [] OTHER -> IF IsLeap(y) THEN 29 ELSE 28
\* days before January 1st of year y, counted from 0001-01-01
DaysBeforeYear(y) == LET p == y - 1 IN 365 * p + p \div 4 - p \div 100 + p \div 400
DaysBeforeMonth(y, m) == LET cum == <<0, 31, 59, 90, 120, 151, 181, 212, 243, 273, 304, 334>> IN
                         cum[m] + (IF m > 2 /\ IsLeap(y) THEN 1 ELSE 0)
Epoch == DaysBeforeYear(1970)                       \* 719162
\* day number (since 1970-01-01) of a calendar date; d may lie outside the month (normalised arithmetically)
DaysFromCivil(y, m, d) == DaysBeforeYear(y) + DaysBeforeMonth(y, m) + (d - 1) - Epoch

\* the inverse, by search on the definition (years 1 .. 9999)
YearOfDay(z) ==     \* z = day number since 1970-01-01
  LET n == z + Epoch                                 \* days since 0001-01-01
      guess == n \div 366 + 1                        \* never above the true year
      RECURSIVE Up(_)
      Up(y) == IF DaysBeforeYear(y + 1) <= n THEN Up(y + 1) ELSE y
  IN Up(guess)
CivilFromDays(z) ==
  LET y == YearOfDay(z)
      doy == z + Epoch - DaysBeforeYear(y)           \* 0-based day of the year
      RECURSIVE Mo(_)
      Mo(m) == IF m < 12 /\ DaysBeforeMonth(y, m + 1) <= doy THEN Mo(m + 1) ELSE m
      m == Mo(1)
  IN [y |-> y, m |-> m, d |-> doy - DaysBeforeMonth(y, m) + 1]

SecInDay == 86400
\* the instant of a civil time: local fields minus the zone offset
Instant(c) ==
  LET local == c.h * 3600 + c.mi * 60 + c.s - c.off          \* -14h .. +36h in seconds
      dd == DaysFromCivil(c.y, c.m, c.d) + local \div SecInDay
  IN [days |-> dd, sec |-> local % SecInDay, ns |-> c.ns]
\* civil fields of an instant in a zone
Civil(i, off) ==
  LET local == i.sec + off
      dd == i.days + local \div SecInDay
      sod == local % SecInDay
      c == CivilFromDays(dd)
  IN [y |-> c.y, m |-> c.m, d |-> c.d, h |-> sod \div 3600, mi |-> (sod % 3600) \div 60, s |-> sod % 60, ns |-> i.ns, off |-> off]
\* the calendar day a civil time shows in its own zone
LocalDay(c) == DaysFromCivil(c.y, c.m, c.d)

-----------------------------------------------------------------------------
(* The scalar types *)
Pow10(k) == CASE k = 0 -> 1 [] k = 1 -> 10 [] k = 2 -> 100 [] k = 3 -> 1000 [] k = 4 -> 10000 [] k = 5 -> 100000
              [] k = 6 -> 1000000 [] k = 7 -> 10000000 [] k = 8 -> 100000000 [] k = 9 -> 1000000000
DateMin == 0                    DateMax == 65535                            \* 1970-01-01 .. 2149-06-06
Date32Min == DaysFromCivil(1900, 1, 1)     Date32Max == DaysFromCivil(2299, 12, 31)
\* DateTime: [days, sec] of an unsigned 32-bit second count: up to 2106-02-07 06:28:15
DateTimeMaxDays == 49710        DateTimeMaxSec == 23295
InDateTime(i) == i.days >= 0 /\ (i.days < DateTimeMaxDays \/ (i.days = DateTimeMaxDays /\ i.sec <= DateTimeMaxSec))
\* DateTime64(p): a tick count; as [days, sec, frac] with frac in 0 .. 10^p - 1.  Documented range 1900 .. 2299
\* (precision 9: up to 2262-04-11, where 64-bit nanoseconds end)
DT64MaxDays(p) == IF p = 9 THEN DaysFromCivil(2262, 4, 10) ELSE Date32Max
InDateTime64(i, p) == i.days >= Date32Min /\ i.days <= DT64MaxDays(p)
\* the ticks of an instant: exact when the nanoseconds are a whole number of ticks, else the tick below or above
TickFloor(i, p) == [days |-> i.days, sec |-> i.sec, frac |-> i.ns \div Pow10(9 - p)]
Representable(i, p) == i.ns % Pow10(9 - p) = 0
TickSucc(t, p) == IF t.frac + 1 < Pow10(p) THEN [t EXCEPT !.frac = t.frac + 1]
                  ELSE IF t.sec + 1 < SecInDay THEN [days |-> t.days, sec |-> t.sec + 1, frac |-> 0]
                  ELSE [days |-> t.days + 1, sec |-> 0, frac |-> 0]
TicksOK(i, p, t) == t = TickFloor(i, p) \/ (~Representable(i, p) /\ t = TickSucc(TickFloor(i, p), p))
InstantOfTicks(t, p) == [days |-> t.days, sec |-> t.sec, ns |-> t.frac * Pow10(9 - p)]

-----------------------------------------------------------------------------
(* Intervals: seconds .. weeks move the instant; months, quarters and years  *)
(* move the calendar fields (a day beyond the end of the month runs on into  *)
(* the next, as time.AddDate does), keeping the wall clock of the zone.      *)
AddSeconds(i, n) ==          \* |n| < 10^9
  LET total == i.sec + n IN [days |-> i.days + total \div SecInDay, sec |-> total % SecInDay, ns |-> i.ns]
AddMonthsCivil(c, n) ==
  LET mm == c.y * 12 + (c.m - 1) + n
      y2 == mm \div 12
      m2 == (mm % 12) + 1
      c2 == CivilFromDays(DaysFromCivil(y2, m2, c.d))
  IN [c EXCEPT !.y = c2.y, !.m = c2.m, !.d = c2.d]
AddDaysCivil(c, n) == LET c2 == CivilFromDays(DaysFromCivil(c.y, c.m, c.d) + n) IN [c EXCEPT !.y = c2.y, !.m = c2.m, !.d = c2.d]
AddInterval(c, scale, n) ==
  CASE scale = "second" -> Civil(AddSeconds(Instant(c), n), c.off)
    [] scale = "minute" -> Civil(AddSeconds(Instant(c), n * 60), c.off)
    [] scale = "hour" -> Civil(AddSeconds(Instant(c), n * 3600), c.off)
    [] scale = "day" -> AddDaysCivil(c, n)
    [] scale = "week" -> AddDaysCivil(c, 7 * n)
    [] scale = "month" -> AddMonthsCivil(c, n)
    [] scale = "quarter" -> AddMonthsCivil(c, 3 * n)
    [] scale = "year" -> AddMonthsCivil(c, 12 * n)

-----------------------------------------------------------------------------
(* Wide integers, as little-endian byte strings: widening is sign or zero   *)
(* extension, narrowing gives the low bytes back.                           *)
SignExt(b, w) == b \o [i \in 1..(w - Len(b)) |-> IF b[Len(b)] >= 128 THEN 255 ELSE 0]
ZeroExt(b, w) == b \o [i \in 1..(w - Len(b)) |-> 0]
RevSeq(s) == [i \in 1..Len(s) |-> s[Len(s) + 1 - i]]
=============================================================================
