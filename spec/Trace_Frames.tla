---------------------------- MODULE Trace_Frames ----------------------------
(* Trace specification for compress.Reader: the stream of every recorded     *)
(* case (frames as built by compress.Writer or by the harness' independent   *)
(* builder, one byte altered or the stream cut) is turned into the abstract  *)
(* stream of Frames.tla by classifying the altered offset with the frame     *)
(* layout; every recorded Read must then be the Read step of the             *)
(* specification: same number of bytes, taken from the place the             *)
(* specification says, same error class.  Frames built by compress.Writer    *)
(* must also have the documented header.                                     *)
EXTENDS Frames, Json, IOUtils, SequencesExt
VARIABLE l
Trace == ndJsonDeserialize(IOEnv.TRACE)
tvars == <<vars, l>>
Ev == Trace[l]

FieldAt(off) == IF off < 16 THEN "checksum" ELSE IF off = 16 THEN "method" ELSE IF off < 21 THEN "rawSize"
                ELSE IF off < 25 THEN "dataSize" ELSE "payload"
\* 128 MiB = 2048 * 65536
WithinLimit(hi, lo) == hi < 2048 \/ (hi = 2048 /\ lo = 0)
MethodByte(m) == CASE m = "none" -> 2 [] m \in {"lz4", "lz4hc"} -> 130 [] m = "zstd" -> 144

\* number of frames the (possibly cut) stream still has: a cut at offset 0 of frame i leaves i - 1 frames
NFrames(e) == IF e.cut.frame = 0 THEN Len(e.frames) ELSE IF e.cut.off = 0 THEN e.cut.frame - 1 ELSE e.cut.frame
StreamOf(e) ==
  [i \in 1..NFrames(e) |->
     [len |-> e.frames[i].len,
      alt |-> IF e.cut.frame = i /\ e.cut.off > 0 THEN "cut"
              ELSE IF e.alter.frame = i
                THEN (IF e.alter.refix /\ FieldAt(e.alter.off) = "dataSize" THEN "forgedSize" ELSE FieldAt(e.alter.off))
                ELSE "none",
      fits |-> IF e.alter.frame = i /\ FieldAt(e.alter.off) = "dataSize" THEN WithinLimit(e.alter.dataHi, e.alter.dataLo) ELSE TRUE]]
\* what the encoder has to produce (checked on every frame of every case, before alteration)
HeaderOK(fr) == /\ fr.methodByte = MethodByte(fr.method) /\ fr.raw = 9 + (fr.flen - 25) /\ fr.data = fr.len
                /\ fr.checksumOK /\ fr.decompOK

TInit == /\ l = 2 /\ Trace[1].ev = "Begin" /\ InitWith(StreamOf(Trace[1]))
         /\ \A i \in 1..Len(Trace[1].frames) : HeaderOK(Trace[1].frames[i])
TBegin == /\ l <= Len(Trace) /\ Ev.ev = "Begin" /\ l' = l + 1
          /\ \A i \in 1..Len(Ev.frames) : HeaderOK(Ev.frames[i])
          /\ stream' = StreamOf(Ev) /\ next' = 1 /\ cur' = 0 /\ pos' = 0 /\ out' = <<>> /\ lastErr' = "nil" /\ reads' = 0
          /\ failed' = FALSE /\ lost' = 0
TRead ==
  /\ l <= Len(Trace) /\ Ev.ev = "Read" /\ l' = l + 1
  /\ Read(Ev.n)
  /\ Ev.err # "panic"          \* a Read that panics is never a step
  /\ CASE lastErr' = "nil" -> Ev.err = "nil"
       [] lastErr' = "corrupted" -> Ev.err = "corrupted" /\ Ev.both
       [] lastErr' = "io" -> Ev.err = "io"
       [] OTHER -> Ev.err # "nil"
  \* the bytes this Read returned: as many as, and from where, the specification says
  /\ IF Len(out') > Len(out)
       THEN LET c == out'[Len(out')] IN
            /\ c.k = Ev.k
            /\ (Ev.k > 0 => \E m \in ToSet(Ev.matches) : m[1] = c.f /\ m[2] <= c.j /\ c.j <= m[3])
       ELSE Ev.k = 0
TNext == TBegin \/ TRead
TSpec == TInit /\ [][TNext]_tvars

HW == TLCSet(1, IF TLCGet(1) < l THEN l ELSE TLCGet(1))
Accepted == PrintT(<<"HWM", TLCGet(1)>>) /\ TLCGet(1) = Len(Trace) + 1
ASSUME TLCSet(1, 0)
=============================================================================
