SPECIFICATION TSpec
CONSTANTS
  Streams = {}
  ReadSizes = {}
  MaxReads = 0
  KeepBuffer = FALSE
CONSTRAINT HW
INVARIANT OnlyVerified
INVARIANT Ordered
INVARIANT RoundTrip
POSTCONDITION Accepted
CHECK_DEADLOCK FALSE
