SPECIFICATION Spec
