SPECIFICATION Spec
CONSTANTS
  MaxOps = 6
  InitCap = 2
  CutFirst = TRUE
  KeepOnErr = FALSE
INVARIANT TypeOK
INVARIANT Exact
INVARIANT Once
INVARIANT PendingIsExpected
CHECK_DEADLOCK FALSE
