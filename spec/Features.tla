------------------------------ MODULE Features ------------------------------
(* The protocol revisions at which ClickHouse introduced the features ch-go  *)
(* gates on: an independent copy of src/Core/ProtocolDefines.h as far as the *)
(* library uses it.  A change of a threshold in proto/feature.go moves the   *)
(* library's encoder and decoder together; it is caught because this table   *)
(* does not move.                                                            *)
EXTENDS Integers
TempTables == 50264
BlockInfo == 51903
Timezone == 54058
QuotaKeyInClientInfo == 54060
DisplayName == 54372
VersionPatch == 54401
ServerLogs == 54406
ClientWriteInfo == 54420
SettingsAsStrings == 54429
InterServerSecret == 54441
OpenTelemetry == 54442
DistributedDepth == 54448
QueryStartTime == 54449
ProfileEvents == 54451
ParallelReplicas == 54453
CustomSerialization == 54454
QuotaKey == 54458
Addendum == 54458
Parameters == 54459
QueryTimeInProgress == 54460
Thresholds == {TempTables, BlockInfo, Timezone, QuotaKeyInClientInfo, DisplayName, VersionPatch, ServerLogs, ClientWriteInfo,
               SettingsAsStrings, InterServerSecret, OpenTelemetry, DistributedDepth, QueryStartTime, ProfileEvents,
               ParallelReplicas, CustomSerialization, QuotaKey, Parameters, QueryTimeInProgress}
=============================================================================
