------------------------------- MODULE Frames -------------------------------
(***************************************************************************)
(* compress.Reader (compress/reader.go) reading a stream of ClickHouse      *)
(* compressed frames:                                                      *)
(*                                                                         *)
(*   checksum:16 (CityHash128 of everything after it) . method:1 .         *)
(*   rawSize:u32 (= 9 + compressed bytes) . dataSize:u32 . compressed data *)
(*                                                                         *)
(* The stream is a sequence of frames; a frame may carry one alteration    *)
(* (a changed byte somewhere, classified by the field it hits) and the     *)
(* stream may be cut.  A Read(n) hands out at most n bytes of the current  *)
(* frame, loading the next frame when the current one is used up.          *)
(*                                                                         *)
(* What loading an altered frame must do is written from the format, in    *)
(* validation order: header; size fields against the limits (before        *)
(* anything is allocated); body; checksum over method, sizes and body;     *)
(* method; decompression; size match.  Every byte handed out belongs to a  *)
(* frame whose checksum verified - also on reads after a failure (finding  *)
(* F-2: the pinned reader kept a zero-filled or stale buffer after a       *)
(* failed load; KeepBuffer = TRUE restores that for the non-vacuity run).  *)
(***************************************************************************)
EXTENDS Integers, Sequences, FiniteSets, TLC

CONSTANTS Streams,      \* set of streams to explore (model checking); trace validation binds the stream from the trace
          ReadSizes, MaxReads,
          KeepBuffer    \* FALSE: a failed load leaves nothing to hand out (required); TRUE: the pinned code

(* a frame: [len |-> payload length, alt |-> alteration class, fits |-> the altered size still passes the limits] *)
(* alt: "none" | "checksum" | "method" | "payload" | "dataSize" | "forgedSize" | "rawSize" | "cut" (stream ends inside this frame) *)
VARIABLES stream, next, cur, pos, out, lastErr, reads, failed, lost
vars == <<stream, next, cur, pos, out, lastErr, reads, failed, lost>>
(* next : index of the frame the reader loads next; 0 = the reader lost the frame boundaries                   *)
(* cur  : index of the frame whose payload is being handed out (0 = none; -1 = a buffer that is not a payload) *)
(* pos  : bytes of cur handed out                                                                               *)
(* out  : everything handed out, one chunk per Read: [f, j, k] = k bytes of frame f's payload from offset j     *)
(*        (f = -1: bytes that belong to no frame)                                                               *)

InitWith(s) == /\ stream = s /\ next = 1 /\ cur = 0 /\ pos = 0 /\ out = <<>> /\ lastErr = "nil" /\ reads = 0
               /\ failed = FALSE /\ lost = 0     \* lost: the frame at which the boundaries were lost
Init == \E s \in Streams : InitWith(s)

Min(a, b) == IF a < b THEN a ELSE b
CurLen == IF cur > 0 THEN stream[cur].len ELSE IF cur = -1 THEN 1 ELSE 0

(* outcome of loading frame i: error class, where the reader stands afterwards *)
(*   "corrupted" = checksum mismatch reported with both checksums              *)
Load(i) ==
  LET f == stream[i] IN
  CASE f.alt = "none" -> [err |-> "nil", nxt |-> i + 1]
    [] f.alt \in {"checksum", "method", "payload"} -> [err |-> "corrupted", nxt |-> i + 1]
    \* an altered size field: beyond the limits it is refused right after the header (nothing allocated, frame
    \* boundaries lost); within them the checksum, which covers the size fields, cannot match
    [] f.alt = "dataSize" -> IF f.fits THEN [err |-> "some", nxt |-> i + 1] ELSE [err |-> "some", nxt |-> 0]
    \* a forged frame: dataSize changed and the checksum recomputed, so the checksum verifies but the
    \* decompressed size cannot match; the frame is consumed whole
    [] f.alt = "forgedSize" -> IF f.fits THEN [err |-> "some", nxt |-> i + 1] ELSE [err |-> "some", nxt |-> 0]
    [] f.alt = "rawSize" -> [err |-> "some", nxt |-> 0]
    [] f.alt = "cut" -> [err |-> "io", nxt |-> 0]

HandOut(f, from, k) == << [f |-> f, j |-> from, k |-> k] >>

Read(n) ==
  /\ reads' = reads + 1
  /\ lost' = IF pos >= CurLen /\ next > 0 /\ next <= Len(stream) /\ Load(next).nxt = 0 THEN next ELSE lost
  /\ IF pos < CurLen
       THEN LET k == Min(n, CurLen - pos) IN
            /\ out' = out \o HandOut(cur, pos, k) /\ pos' = pos + k
            /\ lastErr' = "nil" /\ UNCHANGED <<cur, next, stream, failed>>
       ELSE IF next = 0
         THEN \* boundaries lost: what follows is not a frame that verifies - unless the reader happens to
              \* stand exactly at the start of a later frame again (an altered rawSize can add up to that)
              \/ /\ lastErr' = "some" /\ UNCHANGED <<cur, pos, out, next, stream, failed>>
              \/ \E i \in (lost + 1)..Len(stream) :
                    /\ stream[i].alt = "none"
                    /\ LET k == Min(n, stream[i].len) IN
                       /\ cur' = i /\ pos' = k /\ out' = out \o HandOut(i, 0, k)
                       /\ next' = i + 1 /\ lastErr' = "nil" /\ UNCHANGED <<stream, failed>>
         ELSE IF next > Len(stream)
           THEN /\ lastErr' = "io" /\ cur' = (IF KeepBuffer THEN cur ELSE 0) /\ pos' = 0
                /\ failed' = TRUE /\ UNCHANGED <<out, next, stream>>
           ELSE LET r == Load(next) IN
                IF r.err = "nil"
                  THEN LET k == Min(n, stream[next].len) IN
                       /\ cur' = next /\ pos' = k /\ out' = out \o HandOut(next, 0, k)
                       /\ next' = r.nxt /\ lastErr' = "nil" /\ UNCHANGED <<stream, failed>>
                  ELSE /\ lastErr' = r.err /\ next' = r.nxt /\ pos' = 0 /\ failed' = TRUE
                       /\ cur' = IF KeepBuffer THEN -1 ELSE 0
                       /\ UNCHANGED <<out, stream>>
Next == reads < MaxReads /\ \E n \in ReadSizes : Read(n)
Spec == Init /\ [][Next]_vars

-----------------------------------------------------------------------------
(* C05 *)
\* every byte handed out belongs to a frame whose checksum verified - also after a failure
OnlyVerified == \A c \in 1..Len(out) : out[c].f > 0 /\ stream[out[c].f].alt = "none"
                                       /\ out[c].j + out[c].k <= stream[out[c].f].len
\* always: payloads are handed out whole, in stream order, each byte once
Ordered == /\ (Len(out) > 0 => out[1].j = 0)
           /\ \A c \in 1..(Len(out) - 1) :
                \/ out[c + 1].f = out[c].f /\ out[c + 1].j = out[c].j + out[c].k
                \/ out[c + 1].f > out[c].f /\ out[c + 1].j = 0 /\ out[c].f > 0
                   /\ out[c].j + out[c].k = stream[out[c].f].len
\* as long as the frame boundaries are not lost no verified frame is skipped: the hand-out is exactly the
\* concatenation of the unaltered payloads (round trip)
NoneBetween(a, b) == \A i \in (a + 1)..(b - 1) : stream[i].alt # "none"
RoundTrip == lost = 0 =>
               /\ (Len(out) > 0 => NoneBetween(0, out[1].f))
               /\ \A c \in 1..(Len(out) - 1) : out[c + 1].f # out[c].f => NoneBetween(out[c].f, out[c + 1].f)
=============================================================================
