-------------------------------- MODULE Types --------------------------------
(***************************************************************************)
(* ClickHouse type names as ch-go compares and binds them.                 *)
(*                                                                         *)
(* A type is an AST [b |-> base, ps |-> parameters, es |-> element types]: *)
(*   UInt8                      [b |-> "UInt8", ps |-> <<>>, es |-> <<>>]   *)
(*   FixedString(16)            [b |-> "FixedString", ps |-> <<"16">>, ..]  *)
(*   Decimal(9, 2)              [b |-> "Decimal", ps |-> <<"9", "2">>, ..]  *)
(*   DateTime64(3, 'UTC')       [b |-> "DateTime64", ps |-> <<"3","'UTC'">>]*)
(*   Enum8('a' = 1, 'b' = 2)    [b |-> "Enum8", ps |-> <<"'a' = 1", ...>>]  *)
(*   Array(T), Nullable(T), LowCardinality(T), Map(K, V), Tuple(T1, ...)    *)
(*                              [b |-> "Array", ps |-> <<>>, es |-> <<T>>]  *)
(* The harness renders an AST to text (with or without spaces after        *)
(* commas); the relation below is stated on ASTs, from the documented      *)
(* equivalences, not from the implementation's string manipulation.        *)
(*                                                                         *)
(* Second part: binding result blocks to caller-provided target columns    *)
(* (proto.Results.DecodeResult) as a state machine over the targets' names.*)
(***************************************************************************)
EXTENDS Integers, Sequences, FiniteSets, TLC

T0(b) == [b |-> b, ps |-> <<>>, es |-> <<>>]
IsPlain(t, b) == t.b = b /\ t.ps = <<>> /\ t.es = <<>>

\* Decimal(P, S) names the same storage as DecimalN for the precision class of P
PrecClass(p) == IF p < 10 THEN "Decimal32" ELSE IF p < 19 THEN "Decimal64" ELSE IF p < 39 THEN "Decimal128"
                ELSE IF p < 77 THEN "Decimal256" ELSE "none"
\* precisions are given to the specification as numbers in a parallel field `prec` (0 = not a Decimal(P, S))
Down(t) == IF t.b = "Decimal" /\ t.prec > 0 /\ PrecClass(t.prec) # "none" THEN PrecClass(t.prec) ELSE "same"

RECURSIVE Compatible(_, _)
Compatible(a, b) ==
  IF a = b THEN TRUE
  ELSE IF (a.b = "Enum8" /\ IsPlain(b, "Int8")) \/ (b.b = "Enum8" /\ IsPlain(a, "Int8"))
          \/ (a.b = "Enum16" /\ IsPlain(b, "Int16")) \/ (b.b = "Enum16" /\ IsPlain(a, "Int16")) THEN TRUE
  ELSE IF a.b = "Decimal" \/ b.b = "Decimal"
         THEN \* decimal aliases by precision: Decimal(P, S) is DecimalN of P's class, whatever the scale
              LET da == IF a.b = "Decimal" THEN Down(a) ELSE (IF a.ps = <<>> /\ a.es = <<>> THEN a.b ELSE "other-a")
                  db == IF b.b = "Decimal" THEN Down(b) ELSE (IF b.ps = <<>> /\ b.es = <<>> THEN b.b ELSE "other-b")
              IN da = db /\ da # "same"
  ELSE IF a.b = "Enum" \/ b.b = "Enum"
         THEN \* "Enum" is not a server type: it stands for the inferring enum target (proto.ColEnum), which adopts the
              \* enum of either width the server names (and is offered, but may refuse, the plain integers)
              LET o == IF a.b = "Enum" THEN b ELSE a IN
              o.b \in {"Enum", "Enum8", "Enum16"} \/ IsPlain(o, "Int8") \/ IsPlain(o, "Int16")
  ELSE IF a.b # b.b THEN FALSE
  ELSE IF a.b \in {"Enum8", "Enum16"} THEN TRUE                 \* the members are the server's business
  ELSE IF a.b \in {"Array", "Nullable", "LowCardinality"} THEN Compatible(a.es[1], b.es[1])
  ELSE IF a.b \in {"DateTime", "DateTime64"} THEN TRUE          \* precision and time zone are adopted from the server
  ELSE FALSE                                                     \* same base, different parameters

-----------------------------------------------------------------------------
(* Binding.  A target is [name, type, data]: name "" = to be inferred from  *)
(* the first block.  `data` is an opaque id of the contents it holds.       *)
(* A block is a sequence of [name, type, data].                             *)
BindStep(targets, block, rows) ==
  \* returns [ok, at (index of the first mismatch, 0 if none), why, targets']
  LET nt == Len(targets)
      nb == Len(block) IN
  IF nb = 0 /\ rows = 0 THEN [ok |-> TRUE, at |-> 0, why |-> "none", targets |-> targets]     \* the empty end-of-data marker binds nothing
  ELSE IF nb # nt /\ ~(nt = 0 /\ rows = 0)
    THEN [ok |-> FALSE, at |-> 0, why |-> "count", targets |-> targets]
  ELSE IF nt = 0 THEN [ok |-> TRUE, at |-> 0, why |-> "none", targets |-> targets]
  ELSE LET RECURSIVE Go(_, _)
           Go(i, ts) ==
             IF i > nt THEN [ok |-> TRUE, at |-> 0, why |-> "none", targets |-> ts]
             ELSE LET t == ts[i]
                      named == IF t.name = "" THEN [t EXCEPT !.name = block[i].name] ELSE t IN
                  IF named.name # block[i].name
                    THEN [ok |-> FALSE, at |-> i, why |-> "name", targets |-> [ts EXCEPT ![i] = named]]
                  ELSE IF ~Compatible(block[i].type, named.type)
                    THEN [ok |-> FALSE, at |-> i, why |-> "type", targets |-> [ts EXCEPT ![i] = named]]
                  ELSE Go(i + 1, [ts EXCEPT ![i] = [named EXCEPT !.data = block[i].data]])
       IN Go(1, targets)
=============================================================================
