--------------------------- MODULE MC_Segmentation ---------------------------
EXTENDS Segmentation
P(l, last) == [len |-> l, sig |-> "p", last |-> last]
MCStreams == { <<P(1, TRUE)>>, <<P(3, TRUE)>>, <<P(1, FALSE), P(1, TRUE)>>, <<P(2, FALSE), P(3, TRUE)>>, <<P(4, FALSE), P(1, FALSE), P(2, TRUE)>>,
               <<P(1, FALSE), P(4, FALSE), P(1, TRUE)>>, <<P(3, FALSE), P(3, FALSE), P(3, TRUE)>> }
=============================================================================
