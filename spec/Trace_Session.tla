---------------------------- MODULE Trace_Session ----------------------------
(* Trace specification for whole sessions of the real client: the handshake   *)
(* (C13) and the bytes written for one query (C02), judged with the field      *)
(* tables of Messages.tla, the block decoder of Wire.tla and the outcome the   *)
(* Handshake model prescribes for each server behaviour.                       *)
EXTENDS Messages, Json, IOUtils, SequencesExt
VARIABLE l
Trace == ndJsonDeserialize(IOEnv.TRACE)
Ev == Trace[l]
MinI(a, b) == IF a < b THEN a ELSE b

\* ---------------------------------------------------------------- handshake
HelloBytes(e) == EncMsg("ClientHello", 0, e.hello)
Negotiated(e) == MinI(e.crevEff, e.srev)
\* a hello is due in time when it arrives before the handshake time-out (with a margin for scheduling)
\* (a caller that cancels first, or a server that stops reading before the addendum can be written, ends it otherwise)
Cancels(e) == e.cancelMs > 0
BlocksAddendum(e) == e.behaviour = "blockw" /\ Negotiated(e) >= Addendum
InTime(e) == \/ (e.behaviour \in {"hello", "blockw"} /\ ~BlocksAddendum(e))        \* done at once, before any cancellation
             \/ (e.behaviour = "late" /\ e.delayMs + 150 < e.handshakeTimeoutMs /\ (Cancels(e) => e.delayMs + 40 < e.cancelMs))
SameServer(a, b) == /\ a.name = b.name /\ a.major = b.major /\ a.minor = b.minor /\ a.revision = b.revision
HandshakeOK(e) ==
  /\ e.helloParsed /\ e.dialed = 1
  /\ IF InTime(e)
       THEN \* success: the hello, then the addendum exactly when the negotiated revision has it; the client reports
            \* the server as sent (optional fields as far as the client's own revision has them)
            /\ e.result = "nil" /\ e.usable /\ ~e.connClosed
            /\ e.written = HelloBytes(e) \o (IF Negotiated(e) >= Addendum THEN EncStr(e.quotaKey) ELSE <<>>)
            /\ SameServer(e.serverInfo, e.serverSent)
            /\ (e.crevEff >= Timezone => e.serverInfo.timezone = e.serverSent.timezone)
            /\ (e.crevEff >= DisplayName => e.serverInfo.displayName = e.serverSent.displayName)
            /\ (e.crevEff >= VersionPatch => e.serverInfo.patch = e.serverSent.patch)
       ELSE \* failure: an error (carrying the exception if there was one), no client, nothing but the hello written,
            \* and the connection the library dialed is closed
            /\ e.result # "nil" /\ ~e.usable
            /\ (e.behaviour = "exception" => e.result = "exc" /\ e.excGot = e.excSent)
            /\ e.written = HelloBytes(e)
            /\ e.connClosed
            /\ (e.behaviour = "stall" /\ ~Cancels(e) => e.elapsedMs + 50 >= e.handshakeTimeoutMs)
            /\ (BlocksAddendum(e) /\ ~Cancels(e) => e.elapsedMs + 50 >= e.handshakeTimeoutMs)
            \* cancellation during the handshake - while waiting for the hello or blocked in the addendum write -
            \* returns the context's error promptly (Handshake!CancelEndsIt); 300 ms of scheduling slack
            /\ (Cancels(e) /\ e.behaviour \in {"stall", "blockw"} => e.result = "ctx" /\ e.elapsedMs <= e.cancelMs + e.readTimeoutMs + 300)

\* ---------------------------------------------------------------- the client's bytes for one query
\* one Data packet at position p of stream s: code, table name, block (inside one frame iff compression is on)
PacketAt(e, i, p) ==
  LET s == e.stream
      pk == e.packets[i]
      tn == IF e.rev >= TempTables THEN Str(s, p + 1) ELSE OK(<<>>, p + 1)
  IN IF p >= Len(s) \/ s[p + 1] # 2 \/ ~tn.ok THEN -1
     ELSE IF e.rev >= TempTables /\ tn.v # pk.tableB THEN -1
     ELSE IF ~e.compressed
       THEN LET D == DecBlock(e.rev, pk.asts, s, tn.p) IN
            IF D.ok /\ D.v.rows = pk.rows /\ Len(D.v.cols) = Len(pk.asts)
               /\ (\A c \in 1..Len(pk.asts) : D.v.cols[c].name = pk.names[c] /\ D.v.cols[c].type = pk.types[c] /\ D.v.cols[c].vals = pk.cols[c])
              THEN D.p ELSE -1
       ELSE IF tn.p + 25 > Len(s) THEN -1
       ELSE LET raw == LE(s, tn.p + 17, 4).v
                data == LE(s, tn.p + 21, 4).v
                fr == e.frames[i]
                D == DecBlock(e.rev, pk.asts, fr.payload, 0) IN
            IF s[tn.p + 17] = e.method /\ raw >= 9 /\ tn.p + 16 + raw <= Len(s) /\ data = Len(fr.payload) /\ fr.checksumOK
               /\ D.ok /\ D.p = Len(fr.payload) /\ D.v.rows = pk.rows /\ Len(D.v.cols) = Len(pk.asts)
               /\ (\A c \in 1..Len(pk.asts) : D.v.cols[c].name = pk.names[c] /\ D.v.cols[c].type = pk.types[c] /\ D.v.cols[c].vals = pk.cols[c])
              THEN tn.p + 16 + raw ELSE -1
RECURSIVE Walk(_, _, _)
Walk(e, i, p) == IF p < 0 THEN -1 ELSE IF i > Len(e.packets) THEN p ELSE Walk(e, i + 1, PacketAt(e, i, p))
\* Below SettingsAsStrings the protocol carries settings in a typed binary form the library does not write: a Query
\* packet there carries the caller's settings only if there are none
SettingsCarried(e) == e.rev >= SettingsAsStrings \/ Get(e.fields, "settings") = <<>>
StreamBytesOK(e) ==
  LET q == EncMsg("Query", e.rev, e.fields) IN
  /\ e.err = "nil"
  /\ Len(e.stream) >= Len(q) /\ SubSeq(e.stream, 1, Len(q)) = q
  /\ (e.compressed => Len(e.frames) = Len(e.packets))
  /\ Walk(e, 1, Len(q)) = Len(e.stream)          \* the packets in order, and nothing else

StreamOK(e) == StreamBytesOK(e) /\ SettingsCarried(e)

LineOK == CASE Ev.ev = "Handshake" -> HandshakeOK(Ev) [] Ev.ev = "ClientStream" -> StreamOK(Ev) [] OTHER -> FALSE
\* (why a stream was rejected, when the only thing wrong with it is that the caller's settings are not in it)
Reason == IF Ev.ev = "ClientStream" /\ StreamBytesOK(Ev) /\ ~SettingsCarried(Ev) THEN "settings-dropped" ELSE ""
Init == l = 1
Next == l <= Len(Trace) /\ l' = l + 1 /\ (LineOK \/ PrintT(<<"REJECT", l, Reason>>))
TSpec == Init /\ [][Next]_l
HW == TLCSet(1, IF TLCGet(1) < l THEN l ELSE TLCGet(1))
Accepted == PrintT(<<"HWM", TLCGet(1)>>) /\ TLCGet(1) = Len(Trace) + 1
ASSUME TLCSet(1, 0)
=============================================================================
