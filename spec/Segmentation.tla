---------------------------- MODULE Segmentation ----------------------------
(***************************************************************************)
(* The receive side of a query over a transport that may hand over the      *)
(* server's bytes in any pieces (C08).                                      *)
(*                                                                         *)
(* The server's response is a sequence of packets; packet k occupies the    *)
(* bytes bounds[k-1]+1 .. bounds[k] of the stream and has an effect sig[k]  *)
(* on the caller (a callback, or ending the query).  The transport delivers *)
(* the stream in arbitrary pieces (Deliver); the client's connection Read   *)
(* returns any non-empty part of what has been delivered and not yet taken. *)
(* The reader needs one byte for the packet code (read under the read       *)
(* deadline) and then the rest of the packet (read without a deadline),     *)
(* asking the connection again until it has them (io.ReadFull); ShortRead = *)
(* TRUE models a reader that takes whatever one Read returned for the whole *)
(* item (the defect class the property is about; non-vacuity run).          *)
(*                                                                         *)
(* A read time-out can only fire while the reader waits for a packet code   *)
(* with nothing delivered; it is retried and changes nothing.               *)
(***************************************************************************)
EXTENDS Integers, Sequences, FiniteSets, TLC

CONSTANTS Streams,          \* set of streams: sequences of [len |-> 1.., sig |-> effect, last |-> BOOLEAN]
          ShortRead,        \* FALSE: read until complete (required)
          MaxTimeouts

VARIABLES stream, delivered, taken, used, pc, fired, timeouts, done, garbled
vars == <<stream, delivered, taken, used, pc, fired, timeouts, done, garbled>>
(* delivered : bytes the transport has handed to the client's socket                        *)
(* taken     : bytes the connection's Read calls have returned (taken <= delivered)         *)
(* used      : bytes the reader has consumed as complete items (used <= taken)              *)
(* pc        : "code" (needs the first byte of the next packet) | "body" | "end"            *)
(* fired     : number of packets whose effect has been applied, in order                    *)

Total(s) == LET RECURSIVE T(_) T(i) == IF i = 0 THEN 0 ELSE s[i].len + T(i - 1) IN T(Len(s))
Bound(s, k) == LET RECURSIVE T(_) T(i) == IF i = 0 THEN 0 ELSE s[i].len + T(i - 1) IN T(k)
\* number of packets completely contained in the first n bytes
Complete(s, n) == Cardinality({k \in 1..Len(s) : Bound(s, k) <= n})

Init == /\ stream \in Streams /\ delivered = 0 /\ taken = 0 /\ used = 0 /\ pc = "code" /\ fired = 0 /\ timeouts = 0
        /\ done = FALSE /\ garbled = FALSE

\* the transport hands over some more bytes
Deliver == /\ delivered < Total(stream)
           /\ \E k \in 1..(Total(stream) - delivered) : delivered' = delivered + k
           /\ UNCHANGED <<stream, taken, used, pc, fired, timeouts, done, garbled>>

Need == IF pc = "code" THEN 1 ELSE stream[fired + 1].len - 1      \* bytes the current item still lacks beyond `used`
Have == taken - used

\* conn.Read: the reader lacks bytes and asks the connection; it gets any non-empty part of what is there
Read == /\ pc \in {"code", "body"} /\ ~done /\ Have < Need /\ delivered > taken
        /\ \E k \in 1..(delivered - taken) :
             /\ taken' = taken + k
             /\ IF ShortRead /\ pc = "body" /\ Have + k < Need
                  THEN \* defect: the item is taken to be complete although bytes are missing
                       /\ garbled' = TRUE /\ used' = taken + k /\ fired' = fired + 1
                       /\ pc' = IF stream[fired + 1].last THEN "end" ELSE "code"
                  ELSE UNCHANGED <<garbled, used, fired, pc>>
        /\ UNCHANGED <<stream, delivered, timeouts, done>>

\* the read deadline passes while waiting for a packet code with nothing to read: retried
Timeout == /\ pc = "code" /\ ~done /\ Have = 0 /\ delivered = taken /\ timeouts < MaxTimeouts
           /\ timeouts' = timeouts + 1
           /\ UNCHANGED <<stream, delivered, taken, used, pc, fired, done, garbled>>

\* the reader has the bytes of the current item
Step == /\ ~done /\ pc \in {"code", "body"} /\ Have >= Need
        /\ IF pc = "code"
             THEN IF stream[fired + 1].len = 1
                    THEN /\ used' = used + 1 /\ fired' = fired + 1
                         /\ pc' = IF stream[fired + 1].last THEN "end" ELSE "code"
                    ELSE /\ used' = used + 1 /\ pc' = "body" /\ UNCHANGED fired
             ELSE /\ used' = used + Need /\ fired' = fired + 1
                  /\ pc' = IF stream[fired + 1].last THEN "end" ELSE "code"
        /\ UNCHANGED <<stream, delivered, taken, timeouts, done, garbled>>

Return == /\ pc = "end" /\ ~done /\ done' = TRUE
          /\ UNCHANGED <<stream, delivered, taken, used, pc, fired, timeouts, garbled>>

Next == Deliver \/ Read \/ Timeout \/ Step \/ Return
Spec == Init /\ [][Next]_vars /\ WF_vars(Read) /\ WF_vars(Step) /\ WF_vars(Return) /\ WF_vars(Deliver)

-----------------------------------------------------------------------------
(* C08 *)
\* effects are applied for complete packets only, in order, and nothing is interpreted that was not received whole
NoGarbage == ~garbled /\ used <= taken /\ taken <= delivered /\ fired <= Complete(stream, taken)
\* whenever the reader goes back to the connection, everything that is complete has been applied:
\* the outcome after any delivered prefix is a function of the prefix, not of the pieces it came in
Prompt == (ENABLED Read \/ ENABLED Timeout) => fired = Complete(stream, used) /\ (pc = "code" => used = Bound(stream, fired))
\* the query returns after the last packet having applied every packet once and consumed exactly the stream
Exact == done => fired = Len(stream) /\ used = Total(stream)
\* a time-out changes nothing
TimeoutIsStutter == [][timeouts' # timeouts => <<taken, used, pc, fired, done>>' = <<taken, used, pc, fired, done>>]_vars
\* every segmentation ends
Finishes == <>done
=============================================================================
