SPECIFICATION GSpec
CONSTANTS
  Users = {"u1", "u2"}
  NConns = 6
  MaxC = 1
  MinC = 0
  Fixed = TRUE
  Len0 = 9
INVARIANT EmitHist
CONSTRAINT Stop
CHECK_DEADLOCK FALSE
