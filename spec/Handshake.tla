------------------------------ MODULE Handshake ------------------------------
(***************************************************************************)
(* ch.Dial / ch.Connect / Client.handshake (client.go:462-604,             *)
(* handshake.go): the client dials, sends its hello, reads the server's    *)
(* answer with the per-packet read time-out - retrying while the handshake *)
(* time-out has not passed -, downgrades to the server's revision, sends   *)
(* the addendum when the negotiated revision has it.  A watchdog closes    *)
(* the connection when the handshake context ends.  Dial closes the        *)
(* connection it opened when the handshake fails.                          *)
(*                                                                         *)
(* Time is abstract: `clock` counts read time-outs; the hello of a "late"  *)
(* server arrives at tick Delay; the handshake time-out is at tick Limit.  *)
(* RetryTimeouts = FALSE is the pinned code (one read attempt: a hello     *)
(* that arrives after the read time-out is refused, finding F-10);         *)
(* CloseOnFail = FALSE is the pinned Dial (finding F-9).                   *)
(***************************************************************************)
EXTENDS Integers, TLC
CONSTANTS CRev, SRev,      \* client's and server's revision
          Behaviour,       \* "hello" | "late" | "exception" | "other" | "cut" | "stall" | "blockw" (hello sent, but the
                           \* server does not read any more: the addendum write blocks)
          CancelAt,        \* tick at which the caller cancels the context (a value beyond Limit: never)
          Delay, Limit,    \* ticks
          AddendumRev,
          RetryTimeouts, CloseOnFail
VARIABLES pc, clock, rev, result, connClosed, sentHello, sentAddendum
vars == <<pc, clock, rev, result, connClosed, sentHello, sentAddendum>>

Min(a, b) == IF a < b THEN a ELSE b
Init == /\ pc = "send" /\ clock = 0 /\ rev = CRev /\ result = "none" /\ connClosed = FALSE
        /\ sentHello = FALSE /\ sentAddendum = FALSE

Fail(e) == /\ result' = e /\ pc' = "done" /\ connClosed' = (connClosed \/ CloseOnFail)
SendHello == /\ pc = "send" /\ sentHello' = TRUE /\ pc' = "read"
             /\ UNCHANGED <<clock, rev, result, connClosed, sentAddendum>>
\* the server's answer is readable: at once, or from tick Delay on for a late hello, never for a silent server
Arrived == sentHello /\ Behaviour # "stall" /\ (Behaviour = "late" => clock >= Delay)
\* one read attempt ends with the read time-out
Tick == /\ pc = "read" /\ ~Arrived /\ clock < Limit /\ clock' = clock + 1
        /\ IF clock + 1 >= Limit THEN Fail("timeout") /\ UNCHANGED <<rev, sentHello, sentAddendum>>    \* handshake time-out: the watchdog closes
           ELSE IF RetryTimeouts THEN UNCHANGED <<pc, rev, result, connClosed, sentHello, sentAddendum>>
           ELSE Fail("timeout") /\ UNCHANGED <<rev, sentHello, sentAddendum>>
Read == /\ pc = "read" /\ Arrived
        /\ IF Behaviour \in {"hello", "late"}
             THEN /\ rev' = Min(CRev, SRev)
                  /\ pc' = IF Min(CRev, SRev) >= AddendumRev THEN "addendum" ELSE "done"
                  /\ result' = IF Min(CRev, SRev) >= AddendumRev THEN result ELSE "ok"
                  /\ UNCHANGED connClosed
             ELSE Fail(IF Behaviour = "exception" THEN "exc" ELSE "err") /\ UNCHANGED rev
        /\ UNCHANGED <<clock, sentHello, sentAddendum>>
SendAddendum == /\ pc = "addendum" /\ Behaviour # "blockw" /\ sentAddendum' = TRUE /\ result' = "ok" /\ pc' = "done"
                /\ UNCHANGED <<clock, rev, connClosed, sentHello>>
\* a blocked addendum write ends with the write deadline of the handshake (or by cancellation)
BlockedTick == /\ pc = "addendum" /\ Behaviour = "blockw" /\ clock < Limit /\ clock' = clock + 1
               /\ IF clock + 1 >= Limit THEN Fail("timeout") /\ UNCHANGED <<rev, sentHello, sentAddendum>>
                  ELSE UNCHANGED <<pc, rev, result, connClosed, sentHello, sentAddendum>>
\* the caller cancels: the watchdog closes the connection whatever the handshake is doing (waiting for the hello,
\* blocked in a write), the context's error is returned
Cancelled == clock >= CancelAt
Cancel == /\ pc # "done" /\ Cancelled
          /\ result' = "ctx" /\ pc' = "done" /\ connClosed' = TRUE
          /\ UNCHANGED <<clock, rev, sentHello, sentAddendum>>
\* (once the context is cancelled nothing else of the handshake goes on)
Next == Cancel \/ (~Cancelled /\ (SendHello \/ Tick \/ Read \/ SendAddendum \/ BlockedTick))
Spec == Init /\ [][Next]_vars /\ WF_vars(Next)

Done == pc = "done"
Negotiated == Done /\ result = "ok" => rev = Min(CRev, SRev)
AddendumIff == Done /\ result = "ok" => (sentAddendum <=> Min(CRev, SRev) >= AddendumRev)
FailsCleanly == Done /\ result # "ok" => connClosed /\ ~sentAddendum
\* a hello that arrives before the handshake time-out is accepted
LateHelloAccepted == Done /\ Behaviour \in {"hello", "late"} /\ Delay < Limit - 1 /\ CancelAt > Limit => result = "ok"
\* cancellation during the handshake closes the connection and returns the context's error - before the handshake
\* time-out, whatever the server does
CancelEndsIt == Done /\ CancelAt < Limit - 1 /\ result # "ok" => (result \in {"ctx", "exc", "err"} /\ connClosed /\ clock <= CancelAt + 1)
ExceptionCarried == Done /\ Behaviour = "exception" => result = "exc"
Terminates == <>Done
=============================================================================
