SPECIFICATION Spec
CONSTANTS
  Configs <- QStreamConfigs
  Fixed = TRUE
  AllowForeignClose = FALSE
  AllowCancel = FALSE
INVARIANT EmitHist
CHECK_DEADLOCK FALSE
