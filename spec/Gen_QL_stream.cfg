SPECIFICATION Spec
CONSTANTS
  Configs <- QStreamConfigs
  Fixed = TRUE
  AllowForeignClose = FALSE
  AllowCancel = FALSE
  AllowStall = FALSE
INVARIANT EmitHist
CHECK_DEADLOCK FALSE
