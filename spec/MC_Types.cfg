SPECIFICATION Spec
CONSTANT MaxBlocks = 2
INVARIANT OwnPosition
PROPERTY NameKept
PROPERTY OnlyMatching
CHECK_DEADLOCK FALSE
PROPERTY RefusedBindsNoLater
