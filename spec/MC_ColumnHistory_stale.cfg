SPECIFICATION Spec
CONSTANTS
  Values = {1, 2, 3}
  MaxOps = 7
  StaleDict = TRUE
PROPERTY EncodeReflects
CHECK_DEADLOCK FALSE
