SPECIFICATION Spec
CONSTANTS
  Configs <- QSelectConfigs
  Fixed = TRUE
  AllowForeignClose = FALSE
  AllowCancel = FALSE
INVARIANT EmitHist
CHECK_DEADLOCK FALSE
