SPECIFICATION Spec
CONSTANTS
  Configs <- QSelectConfigs
  Fixed = TRUE
  AllowForeignClose = FALSE
  AllowCancel = FALSE
  AllowStall = FALSE
INVARIANT EmitHist
CHECK_DEADLOCK FALSE
