SPECIFICATION Spec
CONSTANT Bound = 3
INVARIANT RoundTrip
INVARIANT PrefixFree
CHECK_DEADLOCK FALSE
