----------------------------- MODULE MC_Calendar -----------------------------
(* Lemmas about Calendar.tla, evaluated by TLC: the two directions of the    *)
(* calendar invert each other over the whole range of the types, month and   *)
(* year lengths add up, instants and civil times invert each other in every  *)
(* zone, interval arithmetic composes.                                       *)
EXTENDS Calendar, TLC
Days == Date32Min..Date32Max
ASSUME Bounds == Date32Min = -25567 /\ Date32Max = 120529 /\ Epoch = 719162
ASSUME RoundTripDays == \A z \in Days : LET c == CivilFromDays(z) IN
            /\ c.m \in 1..12 /\ c.d \in 1..DaysInMonth(c.y, c.m) /\ DaysFromCivil(c.y, c.m, c.d) = z
ASSUME Consecutive == \A z \in Date32Min..(Date32Max - 1) : LET a == CivilFromDays(z) b == CivilFromDays(z + 1) IN
            \/ (b.y = a.y /\ b.m = a.m /\ b.d = a.d + 1)
            \/ (b.y = a.y /\ b.m = a.m + 1 /\ b.d = 1 /\ a.d = DaysInMonth(a.y, a.m))
            \/ (b.y = a.y + 1 /\ b.m = 1 /\ b.d = 1 /\ a.m = 12 /\ a.d = 31)
ASSUME KnownDates == /\ DaysFromCivil(1970, 1, 1) = 0 /\ DaysFromCivil(2000, 3, 1) = 11017 /\ DaysFromCivil(1969, 12, 31) = -1
                     /\ DaysFromCivil(2149, 6, 6) = 65535 /\ DaysFromCivil(1900, 3, 1) = -25508 /\ DaysFromCivil(2106, 2, 7) = 49710
Offsets == {-43200, -34200, -3600, 0, 3600, 12600, 20700, 50400}
SampleDays == {Date32Min, -1, 0, 1, 59, 11016, 11017, 49710, 65535, Date32Max}
ASSUME InstantCivil == \A z \in SampleDays : \A s \in {0, 1, 3599, 43200, 86399} : \A off \in Offsets :
            LET i == [days |-> z, sec |-> s, ns |-> 7] IN Instant(Civil(i, off)) = i
ASSUME Quarter == \A z \in SampleDays : \A n \in -5..5 :
            LET c == Civil([days |-> z, sec |-> 100, ns |-> 0], 3600) IN
            /\ AddInterval(c, "quarter", n) = AddInterval(c, "month", 3 * n)
            /\ AddInterval(c, "year", n) = AddInterval(c, "quarter", 4 * n)
            /\ AddInterval(c, "week", n) = AddInterval(c, "day", 7 * n)
            /\ AddInterval(c, "hour", n) = AddInterval(c, "second", 3600 * n)
ASSUME Ticks == \A p \in 0..9 : \A ns \in {0, 1, 999, 1000, 500000000, 999999999} :
            LET i == [days |-> -3, sec |-> 86399, ns |-> ns] IN
            /\ TicksOK(i, p, TickFloor(i, p))
            /\ (Representable(i, p) => InstantOfTicks(TickFloor(i, p), p) = i)
VARIABLE x
Init == x = 0
Next == UNCHANGED x
Spec == Init /\ [][Next]_x
=============================================================================
