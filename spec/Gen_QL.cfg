SPECIFICATION Spec
CONSTANTS
  Configs <- GenConfigs
  Fixed = TRUE
  AllowForeignClose = FALSE
  AllowCancel = TRUE
  AllowStall = FALSE
INVARIANT EmitHist
CHECK_DEADLOCK FALSE
