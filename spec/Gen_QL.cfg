SPECIFICATION Spec
CONSTANTS
  Configs <- GenConfigs
  Fixed = TRUE
  AllowForeignClose = FALSE
  AllowCancel = TRUE
INVARIANT EmitHist
CHECK_DEADLOCK FALSE
