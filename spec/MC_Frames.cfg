SPECIFICATION Spec
CONSTANTS
  Streams <- MCStreams
  ReadSizes = {1, 2}
  MaxReads = 7
  KeepBuffer = FALSE
INVARIANT OnlyVerified
INVARIANT Ordered
INVARIANT RoundTrip
CHECK_DEADLOCK FALSE
