SPECIFICATION Spec
INVARIANT ChangesOnlyAtThresholds
INVARIANT MonotonePresence
CHECK_DEADLOCK FALSE
