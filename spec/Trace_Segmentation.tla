------------------------- MODULE Trace_Segmentation -------------------------
(* Trace specification for C08: one real Do over a connection that hands    *)
(* the server's response over in the recorded pieces.  The recorded events  *)
(* (connection Reads, callbacks, the result; all in the receiver's program  *)
(* order) must be a behaviour of Segmentation.tla: Reads and time-outs are  *)
(* its Read / Timeout actions with the logged sizes, the reader's progress  *)
(* (Step) is not logged and is inferred by TLC, callbacks pin it down.      *)
(*   Begin : bounds (end offset of every script item), items (kinds), ref   *)
(*           (callbacks of the reference run: delivery in one piece),       *)
(*           refRet (its result)                                            *)
(*   rs/re : a connection Read begins / returns n bytes or an error class   *)
(*   cb    : a callback, with the script item it reports                    *)
(*   ret   : Do returned                                                    *)
EXTENDS Segmentation, Json, IOUtils, SequencesExt
VARIABLES l, B, ncb, reading, nto
Trace == ndJsonDeserialize(IOEnv.TRACE)
Ev == Trace[l]
tvars == <<vars, l, B, ncb, reading, nto>>

ErrorEnd(k) == k \in {"bad", "garbage", "trunc"}      \* the query fails inside this item: how far it was read is not specified
NoBytes(k) == k = "cut"
\* the stream of the model: one packet per script item that has bytes
ItemLen(b, i) == b.bounds[i] - (IF i = 1 THEN 0 ELSE b.bounds[i - 1])
StreamOf(b) == [i \in 1..Len(b.items) |->
                  [len |-> ItemLen(b, i) + (IF b.items[i] = "trunc" THEN 1 ELSE 0),   \* a truncated packet never completes
                   sig |-> b.items[i], last |-> (\A j \in (i + 1)..Len(b.items) : NoBytes(b.items[j]))]]
TInit == /\ l = 1 /\ B = <<>> /\ ncb = 0 /\ reading = FALSE /\ nto = 0
        /\ stream = <<>> /\ delivered = 0 /\ taken = 0 /\ used = 0 /\ pc = "end" /\ fired = 0 /\ timeouts = 0 /\ done = TRUE /\ garbled = FALSE
Line(e) == l <= Len(Trace) /\ Ev.ev = e /\ l' = l + 1

TBegin == /\ Line("Begin") /\ done          \* the previous run has returned
          /\ B' = Ev /\ ncb' = 0 /\ reading' = FALSE /\ nto' = 0
          /\ stream' = SelectSeq(StreamOf(Ev), LAMBDA p : ~NoBytes(p.sig))
          /\ delivered' = 0 /\ taken' = 0 /\ used' = 0 /\ fired' = 0 /\ timeouts' = 0 /\ done' = FALSE /\ garbled' = FALSE
          /\ pc' = IF SelectSeq(StreamOf(Ev), LAMBDA p : ~NoBytes(p.sig)) = <<>> THEN "end" ELSE "code"
Cur == stream[fired + 1]
\* the reader goes to the connection: it must lack bytes (everything that is complete has been processed)
TReadStart == /\ Line("rs") /\ ~reading /\ ~done /\ reading' = TRUE
              /\ \/ pc \in {"code", "body"} /\ Have < Need
                 \/ pc = "end" /\ Len(B.items) > 0 /\ NoBytes(B.items[Len(B.items)])    \* waiting for the end of the connection
              /\ UNCHANGED <<vars, B, ncb, nto>>
\* a Read returns n bytes: Segmentation!Read with the transport having delivered them
TReadBytes == /\ Line("re") /\ reading /\ Ev.n > 0 /\ Ev.err = "nil" /\ reading' = FALSE
              /\ taken + Ev.n <= B.total
              /\ taken' = taken + Ev.n /\ delivered' = taken + Ev.n
              /\ UNCHANGED <<stream, used, pc, fired, timeouts, done, garbled, B, ncb, nto>>
\* Segmentation!Timeout: only while waiting for a packet code with nothing buffered; changes nothing
TReadTimeout == /\ Line("re") /\ reading /\ Ev.n = 0 /\ Ev.err = "timeout" /\ reading' = FALSE
                /\ pc = "code" /\ Have = 0 /\ nto' = nto + 1
                /\ UNCHANGED <<vars, B, ncb>>
\* the server closed the connection after a cut / truncated response
TReadEOF == /\ Line("re") /\ reading /\ Ev.n = 0 /\ Ev.err \in {"eof", "unexpected-eof"} /\ reading' = FALSE
            /\ taken = B.total /\ B.items[Len(B.items)] \in {"cut", "trunc"}
            /\ pc' = "end" /\ UNCHANGED <<stream, delivered, taken, used, fired, timeouts, done, garbled, B, ncb, nto>>
\* the reader's progress, not logged: Segmentation!Step; an item inside which the query fails may end early
TStep == /\ ~reading /\ ~done /\ pc \in {"code", "body"}
         /\ \/ Step
            \/ /\ ErrorEnd(Cur.sig) /\ Cur.last /\ Have >= 1
               /\ pc' = "end" /\ fired' = fired + 1 /\ used' = taken
               /\ UNCHANGED <<stream, delivered, taken, timeouts, done, garbled>>
         /\ UNCHANGED <<l, B, ncb, reading, nto>>
\* item index (in the script) of the packet the model processed last
ItemOfPacket(k) == LET RECURSIVE F(_, _) F(i, n) == IF NoBytes(B.items[i]) THEN F(i + 1, n) ELSE IF n = 1 THEN i ELSE F(i + 1, n - 1) IN F(1, k)
\* a callback: the next one of the reference run, reporting the packet just processed, all of whose bytes have arrived
TCallback == /\ Line("cb") /\ ~reading /\ ~done
             /\ ncb < Len(B.ref) /\ ncb' = ncb + 1
             /\ B.ref[ncb + 1].name = Ev.name /\ B.ref[ncb + 1].pkt = Ev.pkt /\ B.ref[ncb + 1].rows = Ev.rows
             /\ fired >= 1 /\ ItemOfPacket(fired) = Ev.pkt /\ B.bounds[Ev.pkt] <= taken
             /\ UNCHANGED <<vars, B, reading, nto>>
\* Do returns: the result of the reference run, every callback made, every time-out retried, nothing left over
CleanEnd == ~ErrorEnd(B.items[Len(B.items)])
TReturn == /\ Line("ret") /\ ~reading /\ ~done /\ pc = "end" /\ done' = TRUE
           /\ ncb = Len(B.ref)
           /\ Ev.err = B.refRet.err /\ Ev.closed = B.refRet.closed /\ Ev.chain = B.refRet.chain
           /\ Ev.stuck = "" /\ nto = B.injected
           /\ (CleanEnd => (taken = B.total /\ Ev.undelivered = 0 /\ fired = Len(stream)))
           /\ UNCHANGED <<stream, delivered, taken, used, pc, fired, timeouts, garbled, B, ncb, reading, nto>>
TNext == TBegin \/ TReadStart \/ TReadBytes \/ TReadTimeout \/ TReadEOF \/ TStep \/ TCallback \/ TReturn
TSpec == TInit /\ [][TNext]_tvars
HW == TLCSet(1, IF TLCGet(1) < l THEN l ELSE TLCGet(1))
Accepted == PrintT(<<"HWM", TLCGet(1)>>) /\ TLCGet(1) = Len(Trace) + 1
ASSUME TLCSet(1, 0)
\* the invariants of the design, evaluated on the states TLC infers for the real run
TNoGarbage == done \/ stream = <<>> \/ (~garbled /\ used <= taken /\ taken <= delivered)
=============================================================================
