SPECIFICATION Spec
CONSTANTS
  CRev = 54460
  SRev = 54460
  Behaviour = "blockw"
  CancelAt = 2
  Delay = 0
  Limit = 5
  AddendumRev = 54458
  RetryTimeouts = TRUE
  CloseOnFail = TRUE
INVARIANT Negotiated
INVARIANT AddendumIff
INVARIANT FailsCleanly
INVARIANT LateHelloAccepted
INVARIANT ExceptionCarried
INVARIANT CancelEndsIt
PROPERTY Terminates
CHECK_DEADLOCK FALSE
