-------------------------------- MODULE Pool --------------------------------
(***************************************************************************)
(* chpool.Pool / chpool.Client over jackc/puddle as chpool uses it.        *)
(*                                                                         *)
(* A connection (resource) is none | constructing | idle | acquired | hc   *)
(* (taken by the health check) | destroying (Destroy(): still counted by   *)
(* the pool and holding its permit until the destructor has run) | closing *)
(* (dropped by a closed pool: already forgotten, destructor pending) |      *)
(* gone.  puddle's semaphore is `permits`: held by acquired, *)
(* hc, constructing and destroying resources, not by idle ones.  A user    *)
(* holds at most one live handle; `stale[u]` are the connections of        *)
(* handles u has already released (a handle can be released again).        *)
(*                                                                         *)
(* Code map: Acquire = Pool.Acquire (pool.go:118) over puddle.acquire;     *)
(* Use = Client.Do/Ping (client.go:34-44); Release = Client.Release        *)
(* (client.go:19-32): destroy when the client is closed or older than      *)
(* MaxConnLifetime, else return to idle; HealthCheck = checkIdleConnsHealth*)
(* + checkMinConns (pool.go:162-185); ClosePool = Pool.Close (pool.go:204).*)
(* puddle destroys asynchronously (DestroyEnd is its own step).            *)
(*                                                                         *)
(* Fixed = TRUE is the repaired Release (the handle is cleared, so a       *)
(* second Release does nothing); Fixed = FALSE is the pinned code, where a *)
(* second Release acts on whatever the resource is doing now (F-7).        *)
(***************************************************************************)
EXTENDS Integers, FiniteSets, Sequences, TLC

CONSTANTS Users, NConns, MaxC, MinC, Fixed

VARIABLES status,        \* [1..NConns -> status]
          clientClosed,  \* [1..NConns -> BOOLEAN]   ch.Client.IsClosed()
          connClosed,    \* [1..NConns -> BOOLEAN]   the dialed net.Conn was closed
          expired,       \* [1..NConns -> BOOLEAN]   older than MaxConnLifetime
          idleOld,       \* [1..NConns -> BOOLEAN]   idle for longer than MaxConnIdleTime
          permits,
          dials,         \* connections dialed so far (ids are assigned in dial order)
          cur,           \* [Users -> 0..NConns]     connection of the live handle (0 = none)
          stale,         \* [Users -> SUBSET 1..NConns] connections of handles already released
          busy,          \* [Users -> BOOLEAN]       a request of u is in flight on cur[u]
          poolClosed, panicked,
          maxInflight    \* ghost: largest number of requests ever in flight on one connection

vars == <<status, clientClosed, connClosed, expired, idleOld, permits, dials, cur, stale, busy, poolClosed,
          panicked, maxInflight>>

Conns == 1..NConns
Live(c) == status[c] \in {"constructing", "idle", "acquired", "hc", "destroying"}   \* what puddle counts
Inflight(c) == Cardinality({u \in Users : cur[u] = c /\ busy[u]})

Init == /\ status = [c \in Conns |-> "none"]
        /\ clientClosed = [c \in Conns |-> FALSE] /\ connClosed = [c \in Conns |-> FALSE]
        /\ expired = [c \in Conns |-> FALSE] /\ idleOld = [c \in Conns |-> FALSE]
        /\ permits = MaxC /\ dials = 0
        /\ cur = [u \in Users |-> 0] /\ stale = [u \in Users |-> {}] /\ busy = [u \in Users |-> FALSE]
        /\ poolClosed = FALSE /\ panicked = FALSE /\ maxInflight = 0

-----------------------------------------------------------------------------
(* Acquire: an idle connection if there is one (puddle pops its idle stack; *)
(* which one is not pinned), else a new one is dialed; the dial may fail.   *)
(* With no permit the call waits - in a sequential history it times out.    *)
AcquireIdle(u, c) ==
  /\ ~panicked /\ cur[u] = 0 /\ ~poolClosed /\ permits > 0 /\ status[c] = "idle"
  /\ status' = [status EXCEPT ![c] = "acquired"] /\ cur' = [cur EXCEPT ![u] = c] /\ permits' = permits - 1
  /\ UNCHANGED <<clientClosed, connClosed, expired, idleOld, dials, stale, busy, poolClosed, panicked, maxInflight>>
AcquireDial(u, ok) ==
  /\ ~panicked /\ cur[u] = 0 /\ ~poolClosed /\ permits > 0 /\ dials < NConns
  /\ ~\E c \in Conns : status[c] = "idle"
  /\ dials' = dials + 1
  /\ IF ok THEN /\ status' = [status EXCEPT ![dials + 1] = "acquired"] /\ cur' = [cur EXCEPT ![u] = dials + 1]
                /\ permits' = permits - 1 /\ UNCHANGED connClosed
     ELSE \* the handshake failed: the connection the library dialed is closed, the permit is returned
          /\ status' = [status EXCEPT ![dials + 1] = "gone"] /\ connClosed' = [connClosed EXCEPT ![dials + 1] = TRUE]
          /\ UNCHANGED <<cur, permits>>
  /\ UNCHANGED <<clientClosed, expired, idleOld, stale, busy, poolClosed, panicked, maxInflight>>
(* The caller gives up while the connection is still being dialed: puddle    *)
(* finishes the construction in the background and puts the result into the  *)
(* idle set (CreateEnd).                                                     *)
AcquireAbandon(u) ==
  /\ ~panicked /\ cur[u] = 0 /\ ~poolClosed /\ permits > 0 /\ dials < NConns
  /\ ~\E c \in Conns : status[c] = "idle"
  /\ dials' = dials + 1 /\ permits' = permits - 1
  /\ status' = [status EXCEPT ![dials + 1] = "constructing"]
  /\ UNCHANGED <<clientClosed, connClosed, expired, idleOld, cur, stale, busy, poolClosed, panicked, maxInflight>>
AcquireFails(u) ==
  /\ ~panicked /\ cur[u] = 0 /\ (poolClosed \/ permits = 0)
  /\ UNCHANGED vars

(* A request on the live handle.  outcome: "ok" | "exc" (server exception:  *)
(* the client stays open) | "transport" | "cancelled" (the client is closed)*)
BeginUse(u) ==
  /\ ~panicked /\ cur[u] # 0 /\ ~busy[u]
  /\ busy' = [busy EXCEPT ![u] = TRUE]
  /\ maxInflight' = IF Inflight(cur[u]) + 1 > maxInflight THEN Inflight(cur[u]) + 1 ELSE maxInflight
  /\ UNCHANGED <<status, clientClosed, connClosed, expired, idleOld, permits, dials, cur, stale, poolClosed, panicked>>
EndUse(u, outcome) ==
  /\ ~panicked /\ busy[u] /\ busy' = [busy EXCEPT ![u] = FALSE]
  /\ IF outcome \in {"transport", "cancelled"} \/ clientClosed[cur[u]]
       THEN /\ clientClosed' = [clientClosed EXCEPT ![cur[u]] = TRUE]
            /\ connClosed' = [connClosed EXCEPT ![cur[u]] = TRUE]
       ELSE UNCHANGED <<clientClosed, connClosed>>
  /\ UNCHANGED <<status, expired, idleOld, permits, dials, cur, stale, poolClosed, panicked, maxInflight>>

(* a whole request when nothing else runs in between (sequential histories) *)
Use(u, outcome) ==
  /\ ~panicked /\ cur[u] # 0 /\ ~busy[u]
  /\ maxInflight' = IF Inflight(cur[u]) + 1 > maxInflight THEN Inflight(cur[u]) + 1 ELSE maxInflight
  /\ IF outcome \in {"transport", "cancelled"} \/ clientClosed[cur[u]]
       THEN /\ clientClosed' = [clientClosed EXCEPT ![cur[u]] = TRUE]
            /\ connClosed' = [connClosed EXCEPT ![cur[u]] = TRUE]
       ELSE UNCHANGED <<clientClosed, connClosed>>
  /\ UNCHANGED <<status, expired, idleOld, permits, dials, cur, stale, busy, poolClosed, panicked>>

(* What Client.Release does to connection c.  puddle panics when the        *)
(* resource is not acquired.                                                *)
ReleaseRes(c) ==
  IF status[c] # "acquired" THEN panicked' = TRUE /\ UNCHANGED <<status, permits, idleOld>>
  ELSE /\ UNCHANGED panicked
       /\ IF clientClosed[c] \/ expired[c]
            THEN status' = [status EXCEPT ![c] = "destroying"] /\ UNCHANGED <<permits, idleOld>>
            ELSE IF poolClosed
              THEN status' = [status EXCEPT ![c] = "closing"] /\ permits' = permits + 1 /\ UNCHANGED idleOld
              ELSE /\ status' = [status EXCEPT ![c] = "idle"] /\ permits' = permits + 1
                   /\ idleOld' = [idleOld EXCEPT ![c] = FALSE]
Release(u) ==
  /\ ~panicked /\ cur[u] # 0 /\ ~busy[u]
  /\ ReleaseRes(cur[u])
  /\ cur' = [cur EXCEPT ![u] = 0] /\ stale' = [stale EXCEPT ![u] = @ \cup {cur[u]}]
  /\ UNCHANGED <<clientClosed, connClosed, expired, dials, busy, poolClosed, maxInflight>>
(* Releasing a handle that was released before.                             *)
StaleRelease(u, c) ==
  /\ ~panicked /\ c \in stale[u]
  /\ IF Fixed THEN UNCHANGED <<status, permits, idleOld, panicked>> ELSE ReleaseRes(c)
  /\ UNCHANGED <<clientClosed, connClosed, expired, dials, cur, stale, busy, poolClosed, maxInflight>>

(* puddle runs the destructor (Client.Close) in its own goroutine; a        *)
(* resource given to Destroy() is forgotten, and its permit returned, only  *)
(* after that.                                                              *)
DestroyClose(c) ==
  /\ status[c] \in {"destroying", "closing"} /\ ~connClosed[c]
  /\ clientClosed' = [clientClosed EXCEPT ![c] = TRUE] /\ connClosed' = [connClosed EXCEPT ![c] = TRUE]
  /\ UNCHANGED <<status, expired, idleOld, permits, dials, cur, stale, busy, poolClosed, panicked, maxInflight>>
DestroyEnd(c) ==
  /\ status[c] \in {"destroying", "closing"} /\ connClosed[c]
  /\ status' = [status EXCEPT ![c] = "gone"]
  /\ permits' = IF status[c] = "destroying" THEN permits + 1 ELSE permits
  /\ UNCHANGED <<clientClosed, connClosed, expired, idleOld, dials, cur, stale, busy, poolClosed, panicked, maxInflight>>

(* time passes *)
Expire(c) == /\ Live(c) /\ ~expired[c] /\ expired' = [expired EXCEPT ![c] = TRUE]
             /\ UNCHANGED <<status, clientClosed, connClosed, idleOld, permits, dials, cur, stale, busy, poolClosed, panicked, maxInflight>>
IdleExpire(c) == /\ status[c] = "idle" /\ ~idleOld[c] /\ idleOld' = [idleOld EXCEPT ![c] = TRUE]
                 /\ UNCHANGED <<status, clientClosed, connClosed, expired, permits, dials, cur, stale, busy, poolClosed, panicked, maxInflight>>

(* Health check: AcquireAllIdle takes as many idle connections as there are *)
(* permits (atomically, under puddle's lock); each is then destroyed or     *)
(* returned unused.                                                         *)
HC_Acquire ==
  /\ ~poolClosed /\ \E c \in Conns : status[c] = "idle"
  /\ ~\E c \in Conns : status[c] = "hc"
  /\ LET idle == {c \in Conns : status[c] = "idle"}
         n == IF Cardinality(idle) <= permits THEN Cardinality(idle) ELSE permits
     IN \E S \in SUBSET idle : /\ Cardinality(S) = n
                               /\ status' = [c \in Conns |-> IF c \in S THEN "hc" ELSE status[c]]
                               /\ permits' = permits - n
  /\ UNCHANGED <<clientClosed, connClosed, expired, idleOld, dials, cur, stale, busy, poolClosed, panicked, maxInflight>>
HC_Process(c) ==
  /\ status[c] = "hc"
  /\ IF expired[c] \/ idleOld[c] THEN status' = [status EXCEPT ![c] = "destroying"] /\ UNCHANGED permits
     ELSE IF poolClosed THEN status' = [status EXCEPT ![c] = "closing"] /\ permits' = permits + 1
     ELSE status' = [status EXCEPT ![c] = "idle"] /\ permits' = permits + 1
  /\ UNCHANGED <<clientClosed, connClosed, expired, idleOld, dials, cur, stale, busy, poolClosed, panicked, maxInflight>>
(* checkMinConns: create idle connections up to MinConns, each in its own   *)
(* goroutine (puddle.CreateResource holds a permit while it dials)          *)
HC_CreateBegin ==
  /\ ~poolClosed /\ permits > 0 /\ dials < NConns
  /\ Cardinality({c \in Conns : Live(c)}) < MinC
  /\ dials' = dials + 1 /\ permits' = permits - 1
  /\ status' = [status EXCEPT ![dials + 1] = "constructing"]
  /\ UNCHANGED <<clientClosed, connClosed, expired, idleOld, cur, stale, busy, poolClosed, panicked, maxInflight>>
CreateEnd(c, ok) ==
  /\ status[c] = "constructing" /\ permits' = permits + 1
  /\ IF ok THEN /\ status' = [status EXCEPT ![c] = IF poolClosed THEN "closing" ELSE "idle"] /\ UNCHANGED connClosed
     ELSE status' = [status EXCEPT ![c] = "gone"] /\ connClosed' = [connClosed EXCEPT ![c] = TRUE]
  /\ UNCHANGED <<clientClosed, expired, idleOld, dials, cur, stale, busy, poolClosed, panicked, maxInflight>>

(* Pool.Close: idle connections are destroyed at once, the others when they *)
(* are released.                                                            *)
ClosePool ==
  /\ ~poolClosed /\ poolClosed' = TRUE
  /\ status' = [c \in Conns |-> IF status[c] = "idle" THEN "closing" ELSE status[c]]
  /\ UNCHANGED <<clientClosed, connClosed, expired, idleOld, permits, dials, cur, stale, busy, panicked, maxInflight>>

Next ==
  \/ \E u \in Users :
       \/ \E c \in Conns : AcquireIdle(u, c)
       \/ \E ok \in BOOLEAN : AcquireDial(u, ok)
       \/ AcquireAbandon(u)
       \/ BeginUse(u)
       \/ \E o \in {"ok", "exc", "transport", "cancelled"} : EndUse(u, o)
       \/ Release(u)
       \/ \E c \in Conns : StaleRelease(u, c)
  \/ \E c \in Conns : DestroyClose(c) \/ DestroyEnd(c) \/ Expire(c) \/ IdleExpire(c) \/ HC_Process(c)
  \/ HC_Acquire \/ ClosePool \/ HC_CreateBegin
  \/ \E c \in Conns : \E ok \in BOOLEAN : CreateEnd(c, ok)
Spec == Init /\ [][Next]_vars
FairSpec == Spec /\ \A c \in Conns : WF_vars(DestroyClose(c)) /\ WF_vars(DestroyEnd(c)) /\ WF_vars(HC_Process(c))
                                        /\ WF_vars(\E ok \in BOOLEAN : CreateEnd(c, ok))

-----------------------------------------------------------------------------
(* C11 *)
OneHolder == /\ \A c \in Conns : Cardinality({u \in Users : cur[u] = c}) <= 1
             /\ maxInflight <= 1
MaxConns == Cardinality({c \in Conns : Live(c)}) <= MaxC
\* a connection whose client is closed or which is past its lifetime never sits in the idle set after a release
NoDeadIdle == \A c \in Conns : status[c] = "idle" => ~clientClosed[c]
NoPanic == ~panicked
HeldIsAcquired == \A u \in Users : cur[u] # 0 => status[cur[u]] = "acquired"
PermitsSane == permits >= 0 /\ permits <= MaxC
\* a repeated Release changes nothing (action property; the Fixed = FALSE variant violates OneHolder / NoPanic instead)
ReleaseIdempotent == [][\A u \in Users : \A c \in Conns :
                          StaleRelease(u, c) => UNCHANGED <<status, permits, cur>>]_vars
\* after the pool is closed and every handle released, every dialed connection ends up closed
AllClosedAfterClose == (poolClosed /\ \A u \in Users : cur[u] = 0 /\ \A c \in Conns : status[c] \notin {"destroying", "closing", "hc", "constructing"})
                          => \A c \in 1..dials : connClosed[c]
EventuallyAllClosed == [](poolClosed /\ (\A u \in Users : cur[u] = 0) => <>(\A c \in 1..dials : connClosed[c] \/ ~poolClosed))
=============================================================================
