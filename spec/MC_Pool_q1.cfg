SPECIFICATION Spec
CONSTANTS
  Users = {u1, u2}
  NConns = 3
  MaxC = 1
  MinC = 0
  Fixed = TRUE
INVARIANT OneHolder
INVARIANT MaxConns
INVARIANT NoDeadIdle
INVARIANT NoPanic
INVARIANT HeldIsAcquired
INVARIANT PermitsSane
INVARIANT AllClosedAfterClose
PROPERTY ReleaseIdempotent
CHECK_DEADLOCK FALSE
