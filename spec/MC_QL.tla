------------------------------- MODULE MC_QL -------------------------------
(* Model-checking configurations of QueryLifecycle: the scenario universe.  *)
EXTENDS QueryLifecycle, Json

P(k) == [k |-> k, n |-> 0]
PN(k, n) == [k |-> k, n |-> n]
S(ks) == [i \in 1..Len(ks) |-> P(ks[i])]

\* well-formed and faulty server scripts (kinds only; the harness refines them to bytes)
SelectScripts ==
  { S(<<>>), S(<<"eos">>), S(<<"exc">>), S(<<"hdr", "eos">>), S(<<"hdr", "exc">>), S(<<"hdr", "data", "eos">>),
    S(<<"hdr", "data", "end", "eos">>), S(<<"data", "totals", "end", "eos">>), S(<<"prog", "eos">>),
    S(<<"hdr", "prog", "exc">>), S(<<"prog", "profile", "tcols", "eos">>),
    <<PN("log", 2), P("eos")>>, <<P("hdr"), PN("pevents", 2), P("data"), P("eos")>>,
    S(<<"bad">>), S(<<"pong">>), S(<<"cut">>), S(<<"hdr", "trunc">>), S(<<"hdr", "garbage">>),
    S(<<"data", "cut">>), S(<<"eosEarly">>) }
InsertScripts ==
  { S(<<>>), S(<<"eos">>), S(<<"exc">>), S(<<"hdr", "eos">>), S(<<"hdr", "exc">>), S(<<"hdr", "prog", "end", "eos">>),
    S(<<"hdr", "prog", "exc">>), S(<<"prog", "hdr", "eos">>), <<P("hdr"), PN("log", 1), P("eos")>>,
    S(<<"bad">>), S(<<"hdr", "pong">>), S(<<"cut">>), S(<<"hdr", "cut">>), S(<<"hdr", "trunc">>),
    S(<<"eosEarly">>), S(<<"hdr", "eosEarly">>), S(<<"tcols", "hdr", "eos">>),
    \* a server that repeats the header block (column info arrives again while the sender uses the first)
    S(<<"hdr", "hdr", "eos">>), S(<<"hdr", "hdr", "hdr", "prog", "eos">>) }

Pl(o, r) == [op |-> o, ret |-> r]
Plans ==
  { <<>>, <<Pl("keep", "eof")>>, <<Pl("append", "eof")>>, <<Pl("append", "nil"), Pl("reset", "eof")>>,
    <<Pl("append", "nil"), Pl("reappend", "nil"), Pl("reset", "eof")>>,
    <<Pl("append", "nil"), Pl("overwrite", "weof")>>, <<Pl("reappend", "nil"), Pl("keep", "err")>>,
    <<Pl("append", "err")>>, <<Pl("reset", "nil"), Pl("append", "eof")>>, <<Pl("cancel", "nil"), Pl("keep", "eof")>> }

AllCbs == {"result", "progress", "profile", "logs", "log", "pevents", "pevent"}

Cfg(scn, ni, ext, script, plan, present, rfail, rcancel, ir, wf) ==
  [scn |-> scn, needInfo |-> ni, ext |-> ext, script |-> script, plan |-> plan, present |-> present,
   rfail |-> rfail, rcancel |-> rcancel, initRows |-> ir, wbreak |-> wf]

SelectConfigs ==
  { Cfg("select", FALSE, ext, s, <<>>, pr, rf, rc, 0, wf) :
      ext \in BOOLEAN, s \in SelectScripts, pr \in {AllCbs, {}, {"result"}}, rf \in 0..3, rc \in 0..1, wf \in -1..3 }
InsertConfigs ==
  { Cfg("insert", ni, FALSE, s, <<>>, AllCbs, rf, 0, 1, wf) :
      ni \in BOOLEAN, s \in InsertScripts, rf \in 0..1, wf \in -1..4 }
StreamConfigs ==
  { Cfg("stream", TRUE, FALSE, s, pl, AllCbs, 0, 0, ir, wf) :
      s \in InsertScripts, pl \in Plans, ir \in 0..1, wf \in -1..5 }
\* small sets for the quick tier
QSelectConfigs == { c \in SelectConfigs : c.present = AllCbs /\ c.rcancel = 0 /\ ~c.ext /\ c.rfail <= 1 }
QStreamConfigs == { c \in StreamConfigs : c.wbreak <= 3 /\ Len(c.plan) <= 2 }
\* fault-free universe for the cancellation properties
WellFormed(s) == \A i \in 1..Len(s) : s[i].k \notin {"bad", "pong", "cut", "trunc", "garbage", "eosEarly", "exc", "half"}
CancelConfigs == { c \in QSelectConfigs \cup InsertConfigs \cup QStreamConfigs :
                     WellFormed(c.script) /\ c.rfail = 0 /\ c.wbreak = -1 /\ \A i \in 1..Len(c.plan) : c.plan[i].ret # "err" }

\* streams the server completes (liveness without cancellation: MC_QL_ends.cfg)
\* (an INSERT that waits for column info the server never sends only ends by cancellation)
Ends(c) == /\ Len(c.script) > 0 /\ c.script[Len(c.script)].k = "eos"
           /\ (c.scn # "select" /\ c.needInfo => \E i \in 1..Len(c.script) : c.script[i].k = "hdr")
EndConfigs == { c \in CancelConfigs : Ends(c) }
\* a write that blocks and then breaks while the server's answer (an exception, the end of the stream) arrives: MC_QL_wbreak.cfg
WBreakConfigs == { c \in InsertConfigs \cup QStreamConfigs \cup QSelectConfigs :
                     /\ c.rfail = 0 /\ c.wbreak = -1 /\ Len(c.plan) <= 1
                     /\ c.script \in { S(<<"exc">>), S(<<"hdr", "exc">>), S(<<"hdr", "prog", "exc">>), S(<<"hdr", "eos">>), S(<<"eos">>),
                                        S(<<"hdr", "data", "eos">>) } }
\* a server exception while the sender is (or gets) blocked in a write: MC_QL_live_excstall.cfg
ExcStallConfigs == { c \in InsertConfigs : c.rfail = 0 /\ c.wbreak = -1 /\ c.script \in { S(<<"exc">>), S(<<"hdr", "exc">>) } }
\* a server that falls silent inside a packet: MC_QL_half.cfg (safety), MC_QL_live_half.cfg (Returns fails: known finding F-30)
HalfConfigs == { Cfg("select", FALSE, FALSE, s, <<>>, AllCbs, 0, 0, 0, -1) : s \in { S(<<"hdr", "half">>), S(<<"half">>), S(<<"hdr", "data", "prog", "half">>) } }
\* the column-info hand-over without its repairs (MC_QL_info_neg_*.cfg)
No == FALSE
InfoConfigs == { c \in InsertConfigs \cup QStreamConfigs : c.needInfo /\ WellFormed(c.script) /\ c.rfail = 0 /\ c.wbreak = -1
                                                        /\ Len(c.plan) <= 1 /\ Ends(c) }

\* behaviour generation: print the scenario and its schedule when a behaviour is complete
GenConfigs == QSelectConfigs \cup InsertConfigs \cup QStreamConfigs
EmitHist == phase = "next" => PrintT(ToJson([tag |-> "BEH", cfg |-> cfg, hist |-> hist]))
=============================================================================
