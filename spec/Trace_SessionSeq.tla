-------------------------- MODULE Trace_SessionSeq --------------------------
(* Several requests, one after the other, on one client (one connection).   *)
(* What each request may end in, given that it starts on an open client at  *)
(* a packet boundary, is QueryLifecycle.tla's business (Outcome_QL.tla      *)
(* searches the model for every recorded outcome, including the packets the *)
(* request put on the wire).  This module states what ties the requests     *)
(* together:                                                                *)
(*   - a request starts on a closed client iff the one before it left the   *)
(*     client closed, and the first one starts on an open client;           *)
(*   - on a closed client a request fails with the closed error, runs no    *)
(*     callback and writes nothing (ClosedIsFinal);                         *)
(*   - a closed client stays closed.                                        *)
EXTENDS Integers, Sequences, Json, IOUtils, TLC
VARIABLES l, closed
Trace == ndJsonDeserialize(IOEnv.TRACE)
Ev == Trace[l]
Init == l = 1 /\ closed = FALSE
Step == /\ l <= Len(Trace) /\ l' = l + 1
        /\ LET start == IF Ev.seq = 1 THEN FALSE ELSE closed IN
           /\ Ev.startClosed = start
           /\ (start => Ev.err = "closed" /\ Ev.cbs = <<>> /\ Ev.wire = <<>> /\ Ev.wroteBytes = 0 /\ Ev.closed)
           /\ closed' = Ev.closed
Next == Step
TSpec == Init /\ [][Next]_<<l, closed>>
HW == TLCSet(1, IF TLCGet(1) < l THEN l ELSE TLCGet(1))
Accepted == PrintT(<<"HWM", TLCGet(1)>>) /\ TLCGet(1) = Len(Trace) + 1
ASSUME TLCSet(1, 0)
=============================================================================
