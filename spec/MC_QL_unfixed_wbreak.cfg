SPECIFICATION Spec
CONSTANTS
  Configs <- WBreakConfigs
  Fixed = FALSE
  AllowForeignClose = FALSE
  AllowCancel = TRUE
  AllowStall = TRUE
VIEW View
INVARIANT PacketBoundary
INVARIANT NoStaleOutput
INVARIANT CleanSuccess
INVARIANT ClosedImpliesConn
INVARIANT NilOnlyAfterEos
INVARIANT Delivered
INVARIANT ExcReturned
INVARIANT OneTerminator
INVARIANT TailSent
INVARIANT Faithful
INVARIANT CancelReturnsCtx
INVARIANT CancelCloses
INVARIANT CancelPacketOnce
INVARIANT NoOrphans
INVARIANT NoInfoRace
CHECK_DEADLOCK FALSE
