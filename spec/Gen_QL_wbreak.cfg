SPECIFICATION Spec
CONSTANTS
  Configs <- WBreakConfigs
  Fixed = TRUE
  AllowForeignClose = FALSE
  AllowCancel = TRUE
  AllowStall = TRUE
INVARIANT EmitHist
CHECK_DEADLOCK FALSE
