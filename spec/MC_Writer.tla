---- MODULE MC_Writer ----
EXTENDS Writer
\* VIEW: `out` keeps only what the invariants need; `ops` is part of the bound.
====
