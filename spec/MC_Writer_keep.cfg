SPECIFICATION Spec
CONSTANTS
  MaxOps = 6
  InitCap = 2
  CutFirst = TRUE
  KeepOnErr = TRUE
INVARIANT TypeOK
INVARIANT Exact
INVARIANT Once
INVARIANT PendingIsExpected
CHECK_DEADLOCK FALSE
