----------------------------- MODULE Trace_Prompt -----------------------------
(* Real-time side of C10.  QueryLifecycle.tla proves Returns only under the  *)
(* fairness assumption that the read time-out fires while the receiver       *)
(* waits (WF of R_Timeout) - i.e. that a receiver parked on a silent server  *)
(* wakes up at least every ReadTimeout to look at its context.  That         *)
(* assumption is an obligation of the implementation; it is checked here on  *)
(* free-running runs: the caller cancels (its context may or may not carry a *)
(* far-away deadline) while the server is silent, and Do must return the     *)
(* context's error, with the client closed, within ReadTimeout + Grace.      *)
EXTENDS Integers, Sequences, Json, IOUtils, TLC
VARIABLE l
Trace == ndJsonDeserialize(IOEnv.TRACE)
Ev == Trace[l]
GraceMs == 4000      \* scheduling slack of a loaded machine; the defect class is "waits for the far deadline" (hours)
LineOK == /\ Ev.ev = "Outcome" /\ Ev.stuck = ""
          /\ Ev.cancelled => (/\ Ev.err = "ctx" /\ Ev.closed
                              /\ Ev.afterCancelMs >= 0 /\ Ev.afterCancelMs <= Ev.readTimeoutMs + GraceMs)
Init == l = 1
Next == l <= Len(Trace) /\ l' = l + 1 /\ (LineOK \/ PrintT(<<"REJECT", l>>))
TSpec == Init /\ [][Next]_l
HW == TLCSet(1, IF TLCGet(1) < l THEN l ELSE TLCGet(1))
Accepted == PrintT(<<"HWM", TLCGet(1)>>) /\ TLCGet(1) = Len(Trace) + 1
ASSUME TLCSet(1, 0)
=============================================================================
