SPECIFICATION QuietFairSpec
CONSTANTS
  Configs <- InfoConfigs
  InfoOnce <- No
  Fixed = TRUE
  AllowForeignClose = FALSE
  AllowCancel = FALSE
  AllowStall = FALSE
VIEW View
INVARIANT PacketBoundary
INVARIANT NoStaleOutput
INVARIANT CleanSuccess
INVARIANT ClosedImpliesConn
INVARIANT NilOnlyAfterEos
INVARIANT Delivered
INVARIANT ExcReturned
INVARIANT OneTerminator
INVARIANT TailSent
INVARIANT Faithful
INVARIANT CancelReturnsCtx
INVARIANT CancelCloses
INVARIANT CancelPacketOnce
INVARIANT NoOrphans
INVARIANT NoInfoRace
PROPERTY Returns
CHECK_DEADLOCK FALSE
