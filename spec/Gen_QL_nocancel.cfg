SPECIFICATION Spec
CONSTANTS
  Configs <- GenConfigs
  Fixed = TRUE
  AllowForeignClose = FALSE
  AllowCancel = FALSE
  AllowStall = FALSE
INVARIANT EmitHist
CHECK_DEADLOCK FALSE
