-------------------------------- MODULE Wire --------------------------------
(***************************************************************************)
(* The ClickHouse native wire format as far as ch-go's columns and blocks  *)
(* use it, written as functions over sequences of bytes (0..255).  TLC      *)
(* evaluates this module as the independent reference decoder: the bytes   *)
(* the real encoders produced are decoded HERE and compared with the        *)
(* logical contents, and what the real decoders returned is compared with  *)
(* what this module returns for the same bytes.                             *)
(*                                                                         *)
(* A type is an AST record:                                                *)
(*   [k |-> "fixed", w |-> n]   n raw little-endian bytes per value        *)
(*                              (ints, floats, Date*, DateTime*, Decimal*, *)
(*                              Enum*, IPv4/6, Interval*, Bool, Int128...)  *)
(*   [k |-> "bool"]             one byte per value, 0 or 1                   *)
(*   [k |-> "uuid"]             16 bytes, each 8-byte half reversed         *)
(*   [k |-> "string"]           uvarint length + bytes                      *)
(*   [k |-> "fstring", n]       FixedString(n)                              *)
(*   [k |-> "nothing"]          one zero byte per row                       *)
(*   [k |-> "point"]            all X (8 bytes each) then all Y             *)
(*   [k |-> "nullable", e]      null map (one byte per row) then e          *)
(*   [k |-> "array", e]         cumulative u64 offsets then e               *)
(*   [k |-> "map", key, val]    offsets, keys, values                       *)
(*   [k |-> "tuple", es]        the element columns in order                *)
(*   [k |-> "enum", w, names, raws]  Enum8/16 seen as names: w-byte numbers *)
(*   [k |-> "lc", e]            LowCardinality(e): state prefix, then meta, *)
(*                              dictionary, keys                            *)
(* A value is: the raw bytes (fixed / uuid / fstring, as a sequence of     *)
(* ints), the bytes of a string, <<>> or <<v>> (nullable), a sequence of    *)
(* values (array), a sequence of <<k, v>> (map), a sequence of element     *)
(* values (tuple), <<x, y>> (point), the inner value (lc).                  *)
(* Scalars stay raw bytes: TLC's integers are 32-bit, and the properties   *)
(* the suite checks are about layout, order, lengths, offsets, null maps,  *)
(* dictionaries and keys, which this module defines completely.             *)
(***************************************************************************)
EXTENDS Integers, Sequences, FiniteSets, TLC

OK(v, p) == [ok |-> TRUE, v |-> v, p |-> p]
Short == [ok |-> FALSE, v |-> "short", p |-> 0]     \* the bytes end too early
Bad == [ok |-> FALSE, v |-> "bad", p |-> 0]         \* the bytes are not an encoding

-----------------------------------------------------------------------------
(* integers.  p is the number of bytes consumed so far (0-based position). *)
\* unsigned LEB128; values beyond 2^28 are reported as -1 (not needed for lengths in the explored universe)
RECURSIVE UVarFrom(_, _, _, _)
UVarFrom(b, p, shift, acc) ==
  IF p >= Len(b) THEN Short
  ELSE LET x == b[p + 1]
           v == IF acc < 0 THEN -1
                ELSE IF shift <= 21 THEN acc + (x % 128) * (2 ^ shift)
                ELSE IF x % 128 = 0 THEN acc ELSE -1
       IN IF x < 128 THEN OK(v, p + 1)
          ELSE IF shift >= 63 THEN Bad        \* more than ten bytes
          ELSE UVarFrom(b, p + 1, shift + 7, v)
UVarInt(b, p) == UVarFrom(b, p, 0, 0)

\* canonical encoding of a small non-negative integer
RECURSIVE EncUVar(_)
EncUVar(n) == IF n < 128 THEN <<n>> ELSE <<128 + (n % 128)>> \o EncUVar(n \div 128)

\* little-endian unsigned of width w at p; -1 when it does not fit 31 bits
LE(b, p, w) ==
  IF p + w > Len(b) THEN Short
  ELSE LET big == \E i \in 5..w : b[p + i] # 0
           top == IF w >= 4 THEN b[p + 4] ELSE 0 IN
       IF big \/ top >= 128 THEN OK(-1, p + w)
       ELSE OK((IF w >= 1 THEN b[p + 1] ELSE 0) + (IF w >= 2 THEN b[p + 2] * 256 ELSE 0)
               + (IF w >= 3 THEN b[p + 3] * 65536 ELSE 0) + (IF w >= 4 THEN b[p + 4] * 16777216 ELSE 0), p + w)
EncLE(n, w) == [i \in 1..w |-> IF i <= 4 THEN (n \div (256 ^ (i - 1))) % 256 ELSE 0]      \* for 0 <= n < 2^31

Str(b, p) == LET l == UVarInt(b, p) IN
             IF ~l.ok THEN l ELSE IF l.v < 0 THEN Bad
             ELSE IF l.p + l.v > Len(b) THEN Short ELSE OK(SubSeq(b, l.p + 1, l.p + l.v), l.p + l.v)
EncStr(s) == EncUVar(Len(s)) \o s

Rev(s) == [i \in 1..Len(s) |-> s[Len(s) + 1 - i]]

-----------------------------------------------------------------------------
(* column state prefixes: parents first *)
RECURSIVE DecState(_, _, _)
DecStates(ts, b, p) ==
  LET RECURSIVE F(_, _)
      F(i, q) == IF i > Len(ts) THEN OK(<<>>, q)
                 ELSE LET r == DecState(ts[i], b, q) IN IF r.ok THEN F(i + 1, r.p) ELSE r
  IN F(1, p)
DecState(t, b, p) ==
  CASE t.k = "lc" -> IF p + 8 > Len(b) THEN Short
                     ELSE IF SubSeq(b, p + 1, p + 8) # <<1, 0, 0, 0, 0, 0, 0, 0>> THEN Bad
                     ELSE DecState(t.e, b, p + 8)
    \* JSON transferred as strings: serialization version 1
    [] t.k = "json" -> IF p + 8 > Len(b) THEN Short
                       ELSE IF SubSeq(b, p + 1, p + 8) # <<1, 0, 0, 0, 0, 0, 0, 0>> THEN Bad
                       ELSE OK(<<>>, p + 8)
    [] t.k \in {"array", "nullable"} -> DecState(t.e, b, p)
    [] t.k = "map" -> DecStates(<<t.key, t.val>>, b, p)
    [] t.k = "tuple" -> DecStates(t.es, b, p)
    [] OTHER -> OK(<<>>, p)

-----------------------------------------------------------------------------
(* column data *)
\* TLC keeps [i \in 1..n |-> e] as an unevaluated function and re-evaluates e on every application and the
\* whole function on every SubSeq; AsTuple makes it a plain tuple once
AsTuple(f) == f \o <<>>
FixedRun(b, p, n, w) == IF p + n * w > Len(b) THEN Short
                        ELSE OK(AsTuple([i \in 1..n |-> SubSeq(b, p + (i - 1) * w + 1, p + i * w)]), p + n * w)

\* n strings, one after the other
RECURSIVE StrRun(_, _, _, _)
StrRun(b, p, n, acc) == IF n = 0 THEN OK(acc, p)
                        ELSE LET s == Str(b, p) IN IF ~s.ok THEN s ELSE StrRun(b, s.p, n - 1, Append(acc, s.v))

\* n cumulative u64 offsets: non-decreasing
Offsets(b, p, n) ==
  IF p + 8 * n > Len(b) THEN Short
  ELSE LET off == AsTuple([i \in 1..n |-> LE(b, p + 8 * (i - 1), 8).v]) IN
       IF \E i \in 1..n : off[i] < 0 \/ (i > 1 /\ off[i] < off[i - 1]) THEN Bad ELSE OK(off, p + 8 * n)
Slice(vals, off, i) == SubSeq(vals, (IF i = 1 THEN 0 ELSE off[i - 1]) + 1, off[i])

KeyWidth(code) == CASE code = 0 -> 1 [] code = 1 -> 2 [] code = 2 -> 4 [] code = 3 -> 8 [] OTHER -> 0

RECURSIVE DecCol(_, _, _, _)
DecCols(ts, n, b, p) ==      \* several columns of n rows each, one after the other
  LET RECURSIVE F(_, _, _)
      F(i, q, acc) == IF i > Len(ts) THEN OK(acc, q)
                      ELSE LET r == DecCol(ts[i], n, b, q) IN IF r.ok THEN F(i + 1, r.p, Append(acc, r.v)) ELSE r
  IN F(1, p, <<>>)
DecCol(t, n, b, p) ==
  CASE t.k = "fixed" -> FixedRun(b, p, n, t.w)
    [] t.k = "bool" -> IF p + n > Len(b) THEN Short
                       ELSE IF \E i \in 1..n : b[p + i] > 1 THEN Bad ELSE FixedRun(b, p, n, 1)
    [] t.k = "fstring" -> FixedRun(b, p, n, t.n)
    [] t.k = "uuid" -> LET r == FixedRun(b, p, n, 16) IN
                       IF ~r.ok THEN r ELSE OK(AsTuple([i \in 1..n |-> Rev(SubSeq(r.v[i], 1, 8)) \o Rev(SubSeq(r.v[i], 9, 16))]), r.p)
    [] t.k \in {"string", "json"} -> StrRun(b, p, n, <<>>)
    \* an enum whose values are names on the client's side: the wire carries the numbers of the definition
    [] t.k = "enum" -> LET r == FixedRun(b, p, n, t.w) IN
                       IF ~r.ok THEN r
                       ELSE IF \E i \in 1..n : \A j \in 1..Len(t.raws) : t.raws[j] # r.v[i] THEN Bad
                       ELSE OK(AsTuple([i \in 1..n |-> t.names[CHOOSE j \in 1..Len(t.raws) : t.raws[j] = r.v[i]]]), r.p)
    [] t.k = "nothing" -> IF p + n > Len(b) THEN Short ELSE OK(AsTuple([i \in 1..n |-> <<>>]), p + n)
    [] t.k = "point" -> LET x == FixedRun(b, p, n, 8) IN IF ~x.ok THEN x ELSE
                        LET y == FixedRun(b, x.p, n, 8) IN IF ~y.ok THEN y ELSE
                        OK(AsTuple([i \in 1..n |-> <<x.v[i], y.v[i]>>]), y.p)
    [] t.k = "nullable" ->
         IF p + n > Len(b) THEN Short
         ELSE IF \E i \in 1..n : b[p + i] > 1 THEN Bad
         ELSE LET r == DecCol(t.e, n, b, p + n) IN
              IF ~r.ok THEN r ELSE OK(AsTuple([i \in 1..n |-> IF b[p + i] = 1 THEN <<>> ELSE <<r.v[i]>>]), r.p)
    [] t.k = "array" ->
         LET o == Offsets(b, p, n) IN IF ~o.ok THEN o ELSE
         LET total == IF n = 0 THEN 0 ELSE o.v[n]
             r == DecCol(t.e, total, b, o.p) IN
         IF ~r.ok THEN r ELSE OK(AsTuple([i \in 1..n |-> Slice(r.v, o.v, i)]), r.p)
    [] t.k = "map" ->
         IF n = 0 THEN OK(<<>>, p) ELSE
         LET o == Offsets(b, p, n) IN IF ~o.ok THEN o ELSE
         LET total == o.v[n]
             ks == DecCol(t.key, total, b, o.p) IN IF ~ks.ok THEN ks ELSE
         LET vs == DecCol(t.val, total, b, ks.p) IN IF ~vs.ok THEN vs ELSE
         LET kv == AsTuple([j \in 1..total |-> <<ks.v[j], vs.v[j]>>]) IN
         OK(AsTuple([i \in 1..n |-> Slice(kv, o.v, i)]), vs.p)
    [] t.k = "tuple" ->
         LET r == DecCols(t.es, n, b, p) IN
         IF ~r.ok THEN r ELSE OK(AsTuple([i \in 1..n |-> [e \in 1..Len(t.es) |-> r.v[e][i]]]), r.p)
    [] t.k = "lc" ->
         IF n = 0 THEN OK(<<>>, p) ELSE
         IF p + 8 > Len(b) THEN Short ELSE
         LET code == b[p + 1]
             flags == b[p + 2]
             w == KeyWidth(code) IN
         \* additional-keys bit (bit 9) required, global-dictionary bit (bit 8) refused, nothing above the flags
         IF w = 0 \/ (flags \div 2) % 2 = 0 \/ flags % 2 = 1 \/ \E i \in 3..8 : b[p + i] # 0 THEN Bad ELSE
         LET dn == LE(b, p + 8, 8) IN IF ~dn.ok THEN dn ELSE IF dn.v < 0 THEN Bad ELSE
         LET dict == DecCol(t.e, dn.v, b, dn.p) IN IF ~dict.ok THEN dict ELSE
         LET kn == LE(b, dict.p, 8) IN IF ~kn.ok THEN kn ELSE IF kn.v # n THEN Bad ELSE
         IF kn.p + n * w > Len(b) THEN Short ELSE
         LET key == AsTuple([i \in 1..n |-> LE(b, kn.p + (i - 1) * w, w).v]) IN
         IF \E i \in 1..n : key[i] < 0 \/ key[i] >= dn.v THEN Bad
         ELSE OK(AsTuple([i \in 1..n |-> dict.v[key[i] + 1]]), kn.p + n * w)

-----------------------------------------------------------------------------
(* A canonical encoder, written independently of the decoder above, for the *)
(* design lemma DecCol(t, n, EncCol(t, vals)) = vals (checked by TLC on a   *)
(* small universe).  LowCardinality: dictionary in order of first           *)
(* occurrence, one-byte keys.                                               *)
RECURSIVE EncCol(_, _)
Flat(ss) == LET RECURSIVE F(_) F(i) == IF i > Len(ss) THEN <<>> ELSE ss[i] \o F(i + 1) IN F(1)
EncState(t) ==
  LET RECURSIVE S(_)
      S(u) == CASE u.k = "lc" -> <<1, 0, 0, 0, 0, 0, 0, 0>> \o S(u.e)
                [] u.k = "json" -> <<1, 0, 0, 0, 0, 0, 0, 0>>
                [] u.k \in {"array", "nullable"} -> S(u.e)
                [] u.k = "map" -> S(u.key) \o S(u.val)
                [] u.k = "tuple" -> Flat([i \in 1..Len(u.es) |-> S(u.es[i])])
                [] OTHER -> <<>>
  IN S(t)
CumLens(vals) == LET RECURSIVE C(_, _) C(i, acc) == IF i > Len(vals) THEN <<>> ELSE <<acc + Len(vals[i])>> \o C(i + 1, acc + Len(vals[i])) IN C(1, 0)
Distinct(vals) == LET RECURSIVE D(_, _)
                      D(i, seen) == IF i > Len(vals) THEN seen
                                    ELSE IF \E j \in 1..Len(seen) : seen[j] = vals[i] THEN D(i + 1, seen) ELSE D(i + 1, Append(seen, vals[i]))
                  IN D(1, <<>>)
IndexOf(s, x) == CHOOSE j \in 1..Len(s) : s[j] = x
ZeroOf(t) == CASE t.k = "fixed" -> [i \in 1..t.w |-> 0]
               [] t.k = "bool" -> <<0>>
               [] t.k = "fstring" -> [i \in 1..t.n |-> 0]
               [] t.k = "uuid" -> [i \in 1..16 |-> 0]
               [] t.k = "enum" -> t.names[1]
               [] OTHER -> <<>>
EncCol(t, vals) ==
  LET n == Len(vals) IN
  CASE t.k \in {"fixed", "fstring", "bool"} -> Flat(vals)
    [] t.k = "uuid" -> Flat([i \in 1..n |-> Rev(SubSeq(vals[i], 1, 8)) \o Rev(SubSeq(vals[i], 9, 16))])
    [] t.k \in {"string", "json"} -> Flat([i \in 1..n |-> EncStr(vals[i])])
    [] t.k = "enum" -> Flat([i \in 1..n |-> t.raws[CHOOSE j \in 1..Len(t.names) : t.names[j] = vals[i]]])
    [] t.k = "nothing" -> [i \in 1..n |-> 0]
    [] t.k = "point" -> Flat([i \in 1..n |-> vals[i][1]]) \o Flat([i \in 1..n |-> vals[i][2]])
    [] t.k = "nullable" -> [i \in 1..n |-> IF vals[i] = <<>> THEN 1 ELSE 0]
                           \o EncCol(t.e, [i \in 1..n |-> IF vals[i] = <<>> THEN ZeroOf(t.e) ELSE vals[i][1]])
    [] t.k = "array" -> Flat([i \in 1..n |-> EncLE(CumLens(vals)[i], 8)]) \o EncCol(t.e, Flat(vals))
    [] t.k = "map" -> IF n = 0 THEN <<>>
                      ELSE Flat([i \in 1..n |-> EncLE(CumLens(vals)[i], 8)])
                           \o EncCol(t.key, [j \in 1..Len(Flat(vals)) |-> Flat(vals)[j][1]])
                           \o EncCol(t.val, [j \in 1..Len(Flat(vals)) |-> Flat(vals)[j][2]])
    [] t.k = "tuple" -> Flat([e \in 1..Len(t.es) |-> EncCol(t.es[e], [i \in 1..n |-> vals[i][e]])])
    [] t.k = "lc" -> IF n = 0 THEN <<>>
                     ELSE LET dict == Distinct(vals) IN
                          <<0, 2, 0, 0, 0, 0, 0, 0>> \o EncLE(Len(dict), 8) \o EncCol(t.e, dict)
                          \o EncLE(n, 8) \o [i \in 1..n |-> IndexOf(dict, vals[i]) - 1]

-----------------------------------------------------------------------------
(* blocks *)
\* BlockInfo: field 1 = is_overflows (u8), field 2 = bucket_num (i32), 0 = end
DecInfo(b, p) ==
  LET RECURSIVE F(_, _)
      F(q, acc) == LET id == UVarInt(b, q) IN
                   IF ~id.ok THEN id
                   ELSE IF id.v = 0 THEN OK(acc, id.p)
                   ELSE IF id.v = 1 THEN (IF id.p + 1 > Len(b) THEN Short ELSE F(id.p + 1, [acc EXCEPT !.overflows = b[id.p + 1]]))
                   ELSE IF id.v = 2 THEN (IF id.p + 4 > Len(b) THEN Short ELSE F(id.p + 4, [acc EXCEPT !.bucket = SubSeq(b, id.p + 1, id.p + 4)]))
                   ELSE Bad
  IN F(p, [overflows |-> 0, bucket |-> <<0, 0, 0, 0>>])

HasBlockInfo(rev) == rev >= 51903
HasCustomSerialization(rev) == rev >= 54454

\* columns of a block: ts[i] is the type AST the i-th column is decoded with (the caller derives it from the
\* type name it expects); returns the names, type names and values
DecBlockWith(withInfo, rev, ts, b, p0) ==
  LET info == IF withInfo THEN DecInfo(b, p0) ELSE OK([overflows |-> 0, bucket |-> <<0, 0, 0, 0>>], p0) IN
  IF ~info.ok THEN info ELSE
  LET nc == UVarInt(b, info.p) IN IF ~nc.ok THEN nc ELSE
  LET nr == UVarInt(b, nc.p) IN IF ~nr.ok THEN nr ELSE
  IF nc.v # Len(ts) \/ nr.v < 0 THEN Bad ELSE
  LET RECURSIVE F(_, _, _)
      F(i, q, acc) ==
        IF i > Len(ts) THEN OK([info |-> info.v, rows |-> nr.v, cols |-> acc], q)
        ELSE LET name == Str(b, q) IN IF ~name.ok THEN name ELSE
             LET ty == Str(b, name.p) IN IF ~ty.ok THEN ty ELSE
             LET q1 == IF HasCustomSerialization(rev) THEN ty.p + 1 ELSE ty.p IN
             IF HasCustomSerialization(rev) /\ ty.p + 1 > Len(b) THEN Short
             ELSE IF HasCustomSerialization(rev) /\ b[ty.p + 1] # 0 THEN Bad
             ELSE IF nr.v = 0 THEN F(i + 1, q1, Append(acc, [name |-> name.v, type |-> ty.v, vals |-> <<>>]))
             ELSE LET st == DecState(ts[i], b, q1) IN IF ~st.ok THEN st ELSE
                  LET c == DecCol(ts[i], nr.v, b, st.p) IN IF ~c.ok THEN c ELSE
                  F(i + 1, c.p, Append(acc, [name |-> name.v, type |-> ty.v, vals |-> c.v]))
  IN F(1, nr.p, <<>>)
DecBlock(rev, ts, b, p0) == DecBlockWith(HasBlockInfo(rev), rev, ts, b, p0)
\* a raw block: no BlockInfo in front
DecRawBlock(rev, ts, b, p0) == DecBlockWith(FALSE, rev, ts, b, p0)
=============================================================================
