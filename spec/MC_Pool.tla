---- MODULE MC_Pool ----
EXTENDS Pool
====
