------------------------------ MODULE Trace_QL ------------------------------
(* Trace specification for Client.Do: every line recorded from the real     *)
(* client under the deterministic scheduler must be a step of              *)
(* QueryLifecycle.tla (Fixed = TRUE) with the observed outcome: where the   *)
(* role went, which packets it put on the wire, which callbacks ran, which  *)
(* error class it returned; at the end what Do returned, whether the client *)
(* is closed, and what the next request wrote.  The only steps without a    *)
(* trace line are the errgroup's G_Once steps (not observable).  All        *)
(* property invariants of the module are evaluated in every state of the    *)
(* replayed behaviour.                                                      *)
EXTENDS QueryLifecycle, Json, IOUtils, SequencesExt
VARIABLES l, tb, seen   \* next trace line; line of the current Begin event; the packets observed on the wire so far
Trace == ndJsonDeserialize(IOEnv.TRACE)
tvars == <<vars, l, tb, seen>>
Ev == Trace[l]
IsEvent(e) == l <= Len(Trace) /\ Ev.ev = e /\ l' = l + 1

CfgOf(e) == [scn |-> e.cfg.scn, needInfo |-> e.cfg.needInfo, ext |-> e.cfg.ext, script |-> e.cfg.script,
             plan |-> e.cfg.plan, present |-> ToSet(e.cfg.present), rfail |-> e.cfg.rfail, rcancel |-> e.cfg.rcancel,
             initRows |-> e.cfg.initRows, wbreak |-> e.cfg.wbreak,
             closeFails |-> ("closeFails" \in DOMAIN e.cfg /\ e.cfg.closeFails)]

TInit == /\ Len(Trace) >= 1 /\ Trace[1].ev = "Begin" /\ InitWith(CfgOf(Trace[1])) /\ l = 2 /\ tb = 1 /\ seen = <<>>

TBegin ==
  /\ IsEvent("Begin") /\ tb' = l /\ seen' = <<>>
  /\ LET c == CfgOf(Ev) IN
     /\ cfg' = c
     /\ spc' = "start" /\ rpc' = "loop" /\ wpc' = "wait"
     /\ rerr' = [x \in Roles |-> "run"] /\ once' = [x \in Roles |-> FALSE]
     /\ pend' = <<>> /\ c2s' = <<>> /\ s2c' = <<>> /\ sidx' = 1
     /\ caller' = "live" /\ gctx' = "live" /\ firstErr' = "none"
     /\ closed' = FALSE /\ connClosed' = FALSE /\ gotExc' = FALSE /\ done' = FALSE
     /\ info' = InfoInit
     /\ ver' = 1 /\ rows' = c.initRows /\ tail' = FALSE /\ round' = 0 /\ cbS' = 0
     /\ cbR' = 0 /\ seenRows' = FALSE /\ cblog' = <<>>
     /\ call' = 1 /\ phase' = "inDo" /\ wbroken' = FALSE
     /\ cancelAt' = "none" /\ cancelClean' = FALSE /\ lateFault' = FALSE /\ stalled' = FALSE
     /\ hist' = <<>>

\* what this step added to the wire / to the callback log, as the trace shows it
Proj(seq) == [i \in 1..Len(seq) |-> [k |-> seq[i].k, v |-> seq[i].v]]
(* The packets observed on the wire are, in order, the packets the specification says were written - the       *)
(* property speaks about WHAT reaches the server and in which order, not about which call flushes it, so the    *)
(* observed stream may lag behind the model's (a client that holds output back longer is not wrong for that);   *)
(* it is complete when Do returns and at the next request.                                                       *)
CbDelta == SubSeq(cblog', Len(cblog) + 1, Len(cblog'))
WireOK == /\ seen' = seen \o Ev.wire
          /\ Len(seen') <= Len(c2s') /\ SubSeq(Proj(c2s'), 1, Len(seen')) = seen'
WireAll == seen' = seen \o Ev.wire /\ seen' = Proj(c2s')
Obs == /\ WireOK
       /\ Len(cblog') >= Len(cblog) /\ CbDelta = Ev.cbs

TMove ==
  /\ IsEvent("Move") /\ UNCHANGED <<tb, hist, stalled>>
  /\ CASE Ev.role = "S" -> /\ spc = Ev.from /\ SenderNext /\ spc' = Ev.to
                           /\ ("errc" \in DOMAIN Ev => rerr'["S"] = Ev.errc)
       [] Ev.role = "R" -> \* (the harness sees a receiver blocked in Read; whether inside a packet is the model's knowledge)
                           /\ (rpc = Ev.from \/ (rpc = "midread" /\ Ev.from = "read"))
                           /\ IF "timeout" \in DOMAIN Ev THEN R_Timeout ELSE (R_Begin \/ R_Resume \/ R_MidWake \/ R_Info \/ R_Done \/ R_Exit)
                           /\ (rpc' = Ev.to \/ (rpc' = "midread" /\ Ev.to = "read"))
                           /\ ("errc" \in DOMAIN Ev => rerr'["R"] = Ev.errc)
       [] Ev.role = "W" -> /\ wpc = (IF Ev.from = "wake" THEN "wait" ELSE Ev.from) /\ WatchNext /\ wpc' = Ev.to
                           /\ ("errc" \in DOMAIN Ev => rerr'["W"] = Ev.errc)
  /\ Obs

TEnv ==
  /\ IsEvent("Env") /\ UNCHANGED <<tb, hist, seen>>
  /\ CASE Ev.a = "V" -> sidx = Ev.i /\ ServerSend /\ UNCHANGED stalled
       [] Ev.a = "C" -> CallerCancel("cancelled") /\ UNCHANGED stalled
       [] Ev.a = "D" -> CallerCancel("deadline") /\ UNCHANGED stalled
       [] Ev.a = "X" -> ForeignClose /\ UNCHANGED stalled
       [] Ev.a = "Z" -> Stall
       [] Ev.a = "B" -> WBreak /\ UNCHANGED stalled

TSilent == /\ \E x \in Roles : G_Once(x)
           /\ UNCHANGED <<l, tb, seen>>

\* the exception Do returned is the one the server sent: whole chain, matchable by every code
ExcOK ==
  IF firstErr = "exc"
    THEN LET want == Trace[tb].chains[Consumed] IN
         /\ "chain" \in DOMAIN Ev /\ Len(Ev.chain) = Len(want)
         /\ \A i \in 1..Len(want) : /\ Ev.chain[i].code = want[i].code /\ Ev.chain[i].name = want[i].name
                                    /\ Ev.chain[i].msg = want[i].msg /\ Ev.chain[i].stack = want[i].stack
         /\ ToSet(Ev.is) = {want[i].code : i \in 1..Len(want)}
         /\ ~Ev.isAbsent
         \* the library's own helpers: IsErr / IsCode answer for the head of the chain, IsException for any
         /\ Ev.isErrHead /\ ~Ev.isErrAbsent /\ Ev.isException
    ELSE TRUE

TDoReturn ==
  /\ IsEvent("DoReturn") /\ UNCHANGED <<tb, hist, stalled>>
  /\ DoReturn
  /\ Ev.err = (IF firstErr = "none" THEN "nil" ELSE firstErr)
  /\ Ev.closed = closed /\ Ev.connClosed = connClosed
  /\ WireAll /\ Ev.cbs = <<>>
  /\ Ev.orphans = 0
  /\ ExcOK
  /\ (firstErr = "ctx" => Ev.ctxMatch)

TNext ==
  /\ IsEvent("Next") /\ UNCHANGED <<tb, hist, stalled>>
  /\ NextReq
  /\ WireAll
  /\ Ev.err = (IF closed THEN "closed" ELSE IF wbroken THEN "err" ELSE "nil")
  /\ (closed => ~Ev.touched)
  /\ Ev.closed = closed

TNextStep == TBegin \/ TMove \/ TEnv \/ TSilent \/ TDoReturn \/ TNext
TSpec == TInit /\ [][TNextStep]_tvars

HW == TLCSet(1, IF TLCGet(1) < l THEN l ELSE TLCGet(1))
Accepted == PrintT(<<"HWM", TLCGet(1)>>) /\ TLCGet(1) = Len(Trace) + 1
ASSUME TLCSet(1, 0)
=============================================================================
