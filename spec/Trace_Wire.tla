----------------------------- MODULE Trace_Wire -----------------------------
(* Trace specification for the column / block codecs.  Every line is one     *)
(* block: the logical contents, the bytes the real encoders produced, and    *)
(* what the real decoders returned for those bytes.  The specification       *)
(* (Wire.tla) decodes the bytes itself and requires:                         *)
(*   - they are an encoding of exactly the logical contents (names, types,   *)
(*     row count, values), with nothing left over;                          *)
(*   - every other encoding path gave the same bytes and left the bytes      *)
(*     already in the buffer alone;                                          *)
(*   - the typed decode returned exactly the values the specification        *)
(*     decodes, consuming everything;                                        *)
(*   - the inferred decode either refused the type or returned columns of    *)
(*     the same names and types that re-encode to the same bytes.            *)
(* "Prefix" lines (C07): a proper prefix of an encoding must not decode.     *)
EXTENDS Wire, Json, IOUtils, SequencesExt
VARIABLE l
Trace == ndJsonDeserialize(IOEnv.TRACE)
Ev == Trace[l]

Asts(e) == [i \in 1..Len(e.cols) |-> e.cols[i].ast]
SpecDecode(e) == DecBlock(e.rev, Asts(e), e.bytes, 0)

BlockOK(e) ==
  LET D == SpecDecode(e) IN
  /\ e.encodeErr = ""
  /\ D.ok /\ D.p = Len(e.bytes) /\ D.v.rows = e.rows /\ Len(D.v.cols) = Len(e.cols)
  /\ \A i \in 1..Len(e.cols) :
       /\ D.v.cols[i].name = e.cols[i].name /\ D.v.cols[i].type = e.cols[i].type
       /\ D.v.cols[i].vals = e.cols[i].vals
  /\ \A i \in 1..Len(e.alts) : e.alts[i].equal /\ e.alts[i].prefixKept
  /\ e.typed.err = "" /\ e.typed.rows = e.rows /\ e.typed.leftover = 0
  /\ \A i \in 1..Len(e.cols) : e.typed.cols[i] = D.v.cols[i].vals
  \* the same into targets that were used before and reset
  /\ e.reused.err = "" /\ e.reused.rows = e.rows /\ e.reused.leftover = 0
  /\ \A i \in 1..Len(e.cols) : e.reused.cols[i] = D.v.cols[i].vals
  /\ \/ e.auto.inferError
     \/ /\ e.auto.err = "" /\ e.auto.rows = e.rows /\ e.auto.reencode = "" /\ e.auto.reencodeEqual
        /\ \A i \in 1..Len(e.cols) : e.auto.types[i] = e.cols[i].tname

\* arbitrary bytes decoded as n rows of one column: the implementation accepts exactly what the specification
\* accepts (consuming everything) and returns the same values
DecodeOK(e) ==
  LET D == DecCol(e.ast, e.rows, e.bytes, 0) IN
  IF D.ok /\ D.p = Len(e.bytes) THEN e.err = "" /\ e.vals = D.v /\ e.reusedErr = "" /\ e.reusedVals = D.v
  ELSE IF ~D.ok THEN e.err # "" /\ e.reusedErr # ""
  ELSE TRUE   \* more bytes than the rows need: not a question for the column decoder

\* every proper prefix of an encoding was decoded by the library (typed, inferred, and inside a compressed
\* frame): a cut it accepted is a violation unless the format itself cannot tell (the specification accepts the
\* same prefix); at a few random cuts the specification is evaluated as well and must say "too short / not an encoding"
PrefixOK(e) ==
  /\ \A i \in 1..Len(e.acceptedTyped) : DecBlock(e.rev, e.asts, SubSeq(e.bytes, 1, e.acceptedTyped[i]), 0).ok
  /\ \A i \in 1..Len(e.acceptedAuto) : DecBlock(e.rev, e.asts, SubSeq(e.bytes, 1, e.acceptedAuto[i]), 0).ok
  /\ e.acceptedFramed = <<>>
  /\ \A i \in 1..Len(e.probes) :
       LET D == DecBlock(e.rev, e.asts, SubSeq(e.bytes, 1, e.probes[i]), 0) IN ~(D.ok /\ D.p = e.probes[i])

\* C06: a mutated encoding was decoded by the library: it returned (no panic, no hang, the process did not abort);
\* what it accepted is consistent; and where the specification's own decoder accepts the same bytes the values
\* the library returned are the specification's
HostileOK(e) ==
  /\ e.panic = "" /\ ~e.hang /\ e.abort = "" /\ e.inconsistent = ""
  /\ (e.err = "" /\ e.path = "typed" =>
        LET D == DecBlock(e.rev, e.asts, e.bytes, 0) IN
        \* (a mutated type name may legitimately change what an inferring target makes of the data)
        (D.ok /\ Len(D.v.cols) = Len(e.cols) /\ \A i \in 1..Len(e.cols) : D.v.cols[i].type = e.tnames[i]) =>
           (D.v.rows = e.rows /\ \A i \in 1..Len(e.cols) : e.cols[i] = D.v.cols[i].vals))
HostileAggOK(e) == e.panics = 0 /\ e.inconsistent = 0 /\ e.mutants = e.rejected + e.accepted

Init == l = 1
\* a column beyond one MiB (too long to be decoded here): decoding it and encoding it again gives the same bytes, the same
\* number of rows and the same rows (the harness sends digests)
BigColumnOK(e) == e.err = "" /\ e.rowsOut = e.rows /\ e.inSum = e.outSum /\ e.rowsSumIn = e.rowsSumOut
LineOK == CASE Ev.ev = "Block" -> BlockOK(Ev)
            [] Ev.ev = "Hostile" -> HostileOK(Ev)
            [] Ev.ev = "HostileAgg" -> HostileAggOK(Ev)
            [] Ev.ev = "Prefix" -> PrefixOK(Ev)
            [] Ev.ev = "Decode" -> DecodeOK(Ev)
            [] Ev.ev = "BigColumn" -> BigColumnOK(Ev)
            [] OTHER -> FALSE
\* lines are independent of each other: a failing line is flagged and the validation goes on
Next == /\ l <= Len(Trace) /\ l' = l + 1
        /\ (LineOK \/ PrintT(<<"REJECT", l>>))
TSpec == Init /\ [][Next]_l

HW == TLCSet(1, IF TLCGet(1) < l THEN l ELSE TLCGet(1))
Accepted == PrintT(<<"HWM", TLCGet(1)>>) /\ TLCGet(1) = Len(Trace) + 1
ASSUME TLCSet(1, 0)
=============================================================================
