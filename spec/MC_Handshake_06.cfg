SPECIFICATION Spec
CONSTANTS
  CRev = 54460
  SRev = 54460
  Behaviour = "stall"
  Delay = 0
  Limit = 5
  AddendumRev = 54458
  RetryTimeouts = TRUE
  CloseOnFail = TRUE
INVARIANT Negotiated
INVARIANT AddendumIff
INVARIANT FailsCleanly
INVARIANT LateHelloAccepted
INVARIANT ExceptionCarried
PROPERTY Terminates
CHECK_DEADLOCK FALSE
