SPECIFICATION TSpec
CONSTANTS
  Configs = {}
  Fixed = FALSE
  AllowForeignClose = TRUE
  AllowCancel = TRUE
  AllowStall = TRUE
CONSTRAINT HW
INVARIANT PacketBoundary
INVARIANT NoStaleOutput
INVARIANT CleanSuccess
INVARIANT ClosedImpliesConn
INVARIANT NilOnlyAfterEos
INVARIANT Delivered
INVARIANT ExcReturned
INVARIANT OneTerminator
INVARIANT TailSent
INVARIANT Faithful
INVARIANT CancelReturnsCtx
INVARIANT CancelCloses
INVARIANT CancelPacketOnce
INVARIANT NoOrphans
POSTCONDITION Accepted
CHECK_DEADLOCK FALSE
