--------------------------- MODULE QueryLifecycle ---------------------------
(***************************************************************************)
(* ch.Client.Do (query.go) as the code runs it: three goroutines - sender  *)
(* (S), receiver (R), cancel-watch (W) - under one errgroup, over one      *)
(* connection, followed by the next request on the same client.           *)
(*                                                                         *)
(* One action per critical section of the code; the program counters are   *)
(* the names of the `verif` hook points, so a recorded step "role X moved  *)
(* from gate g to gate g'" is exactly one action of this module:           *)
(*                                                                         *)
(*   S: start -sendQuery-> flushq -flush-> colinfo|input -> encblock       *)
(*        (any flush may end in wblocked: the write blocks on a peer that   *)
(*        stopped reading, until the connection is closed)                  *)
(*        -encodeBlock-> flushr -flush-> cb -OnInput-> encblock|term       *)
(*        -blank block-> finalflush -flush-> ret -> exit                   *)
(*   R: loop -ctx check, packet(), handle-> loop|info|read|ret -close(done)-> done -> exit *)
(*        (read = blocked in conn.Read; info = before the colInfo select)  *)
(*   W: wait -(done closed)-> cancelQuery or nothing -> ret -> exit        *)
(*                                                                         *)
(* Everything on the wire is a token [call, k, v]: which call encoded it,  *)
(* its kind, and for data blocks the version of the input columns it       *)
(* holds.  The writer's un-flushed output is `pend`.                       *)
(*                                                                         *)
(* The module states what the client must do for C03/C04/C09/C10 to hold.  *)
(* Where the pinned code deviated (findings F-1, F-5, F-18 in DESIGN.md)   *)
(* the constant Fixed = FALSE restores the old behaviour so that TLC shows *)
(* the counterexample; all registered configurations use Fixed = TRUE.     *)
(***************************************************************************)
EXTENDS Integers, Sequences, FiniteSets, TLC

CONSTANTS Configs,      \* set of scenario records (see MC_QL.tla); trace validation binds cfg from the trace
          Fixed,        \* TRUE: the repaired behaviour (registered); FALSE: the pinned code's behaviour
          AllowForeignClose, \* enable Close() from a foreign goroutine as an environment action
          AllowCancel,       \* enable cancellation / deadline expiry of the caller's context
          AllowStall         \* enable the peer ceasing to read (writes block) as an environment action

VARIABLES
  cfg,        \* scenario: [scn, needInfo, ext, script, plan, present, rfail, rcancel, initRows, wbreak]
  spc, rpc, wpc,
  rerr,       \* rerr[X]: "run" | "nil" | error class the goroutine function returns
  once,       \* once[X]: the errgroup has processed X's return value
  pend, c2s,  \* writer contents / everything written to the connection (tokens)
  s2c, sidx,  \* server packets delivered and not yet consumed (script indices) / next script index
  caller,     \* "live" | "cancelled" | "deadline"
  gctx,       \* errgroup context: "live" | "dead"
  firstErr,   \* error class Do returns ("none" = nil)
  closed, connClosed, gotExc, done,
  info,       \* colInfo channel and the column info it carries: [buf |-> 0..1, cl |-> BOOLEAN (closed),
              \*   sent |-> the receiver's handler has handed the info over, arr |-> array the message refers to
              \*   (0 none, 1 the receiver's own result array, 2 a private copy), raced |-> ghost, see NoInfoRace]
  ver, rows, tail, round, cbS,    \* input columns: contents version, row count class (0/1), tail mode, blocks encoded, OnInput calls
  cbR, seenRows, cblog,           \* receiver: callbacks invoked, default handler saw a non-empty block, callback log
  call, phase,                    \* number of the current call; "inDo" | "returned" | "next"
  wbroken,                        \* the connection stopped accepting writes (cfg.wbreak complete tokens were accepted)
  stalled,                        \* the peer stopped reading: a write blocks until the connection is closed (or its deadline passes)
  cancelAt, cancelClean, lateFault,   \* ghosts for C10
  hist                            \* schedule so far (roles / environment moves), for behaviour generation

vars == <<cfg, spc, rpc, wpc, rerr, once, pend, c2s, s2c, sidx, caller, gctx, firstErr, closed, connClosed,
          gotExc, done, info, ver, rows, tail, round, cbS, cbR, seenRows, cblog, call, phase, wbroken, stalled,
          cancelAt, cancelClean, lateFault, hist>>

\* everything but the schedule history (VIEW for model checking; subscript of the fairness conditions)
View == <<cfg, spc, rpc, wpc, rerr, once, pend, c2s, s2c, sidx, caller, gctx, firstErr, closed, connClosed,
          gotExc, done, info, ver, rows, tail, round, cbS, cbR, seenRows, cblog, call, phase, wbroken, stalled,
          cancelAt, cancelClean, lateFault>>

\* The column info of an INSERT (query.go, Do): handed to the sender once, as a copy.  Both are definitions so that a
\* configuration can override them (MC_QL_info_neg*.cfg show what the properties catch without them).
InfoOnce == TRUE
InfoCopy == TRUE
InfoInit == [buf |-> 0, cl |-> FALSE, sent |-> FALSE, arr |-> 0, raced |-> FALSE]

\* (a scenario of the replay may use a connection whose Close closes it and reports an error all the same, as TLS does)
CloseFails == "closeFails" \in DOMAIN cfg /\ cfg.closeFails
Roles == {"S", "R", "W"}
Tok(k, v) == [call |-> call, k |-> k, v |-> v]
CtxDead == gctx = "dead"
BlockKinds == {"hdr", "data", "totals"}

InitWith(c) ==
  /\ cfg = c
  /\ spc = "start" /\ rpc = "loop" /\ wpc = "wait"
  /\ rerr = [x \in Roles |-> "run"] /\ once = [x \in Roles |-> FALSE]
  /\ pend = <<>> /\ c2s = <<>> /\ s2c = <<>> /\ sidx = 1
  /\ caller = "live" /\ gctx = "live" /\ firstErr = "none"
  /\ closed = FALSE /\ connClosed = FALSE /\ gotExc = FALSE /\ done = FALSE
  /\ info = InfoInit
  /\ ver = 1 /\ rows = c.initRows /\ tail = FALSE /\ round = 0 /\ cbS = 0
  /\ cbR = 0 /\ seenRows = FALSE /\ cblog = <<>>
  /\ call = 1 /\ phase = "inDo" /\ wbroken = FALSE /\ stalled = FALSE
  /\ cancelAt = "none" /\ cancelClean = FALSE /\ lateFault = FALSE
  /\ hist = <<>>
Init == \E c \in Configs : InitWith(c)

-----------------------------------------------------------------------------
(* errgroup: the first non-nil return value wins and cancels the group      *)
(* context.  When the context is still live the cancellation is observable  *)
(* (the replay waits for it), so exit and errOnce form one step; when it is *)
(* already dead the order in which returning goroutines reach errOnce is    *)
(* not observable and G_Once is a separate, silent step.                    *)
ExitOf(x) ==
  IF rerr[x] = "nil" THEN /\ once' = [once EXCEPT ![x] = TRUE] /\ UNCHANGED <<firstErr, gctx>>
  ELSE IF ~CtxDead THEN /\ once' = [once EXCEPT ![x] = TRUE] /\ firstErr' = rerr[x] /\ gctx' = "dead"
  ELSE UNCHANGED <<once, firstErr, gctx>>
G_Once(x) ==
  /\ phase = "inDo" /\ ~once[x] /\ rerr[x] \notin {"run", "nil"}
  /\ (x = "S" => spc = "exit") /\ (x = "R" => rpc = "exit") /\ (x = "W" => wpc = "exit")
  /\ once' = [once EXCEPT ![x] = TRUE]
  /\ firstErr' = IF firstErr = "none" THEN rerr[x] ELSE firstErr
  /\ UNCHANGED <<cfg, spc, rpc, wpc, rerr, pend, c2s, s2c, sidx, caller, gctx, closed, connClosed, gotExc, done,
                 info, ver, rows, tail, round, cbS, cbR, seenRows, cblog, call, phase, wbroken, stalled,
                 cancelAt, cancelClean, lateFault, hist>>

(* c = the caller's context is being cancelled in this very step (from inside a callback) *)
RetL(x, e, c) == /\ rerr' = [rerr EXCEPT ![x] = e]
                 /\ lateFault' = (lateFault \/ ((cancelAt # "none" \/ c) /\ e \notin {"nil", "ctx"}))
Ret(x, e) == RetL(x, e, FALSE)

-----------------------------------------------------------------------------
(* Sender                                                                  *)
SU == UNCHANGED <<cfg, rpc, wpc, s2c, sidx, gotExc, done, cbR, seenRows, cblog, call, phase, cancelAt, cancelClean>>

S_SendQuery ==
  /\ spc = "start"
  /\ IF closed
       THEN spc' = "ret" /\ Ret("S", "closed") /\ UNCHANGED pend
       ELSE /\ pend' = pend \o <<Tok("query", 0)>> \o (IF cfg.ext THEN <<Tok("ext", 0)>> ELSE <<>>) \o <<Tok("blank", 0)>>
            /\ spc' = "flushq" /\ UNCHANGED <<rerr, lateFault>>
  /\ UNCHANGED <<once, c2s, caller, gctx, firstErr, closed, connClosed, info, ver, rows, tail, round, cbS, wbroken>> /\ SU

(* c.flush: context check first (the writer is left untouched on a dead     *)
(* context); Writer.Flush resets the writer whether or not the write        *)
(* succeeded.  A failed write leaves the connection in an unknown state, so *)
(* the (repaired) client is closed.                                         *)
Breaks(n) == cfg.wbreak >= 0 /\ Len(c2s) + n > cfg.wbreak
Flush(from, to) ==
  /\ spc = from
  /\ \/ /\ CtxDead /\ spc' = "ret" /\ Ret("S", "ctx")
        /\ UNCHANGED <<pend, c2s, wbroken, closed, connClosed>>
     \/ /\ ~CtxDead /\ pend = <<>> /\ spc' = to
        /\ (IF to = "ret" THEN Ret("S", "nil") ELSE UNCHANGED <<rerr, lateFault>>)
        /\ UNCHANGED <<pend, c2s, wbroken, closed, connClosed>>
     \/ /\ ~CtxDead /\ pend # <<>> /\ ~connClosed /\ ~wbroken /\ stalled      \* the peer does not read: the write blocks
        /\ spc' = "wblocked" /\ UNCHANGED <<rerr, lateFault, pend, c2s, wbroken, closed, connClosed>>
     \/ /\ ~CtxDead /\ pend # <<>> /\ ~connClosed /\ ~wbroken /\ ~stalled /\ ~Breaks(Len(pend))
        /\ c2s' = c2s \o pend /\ pend' = <<>> /\ spc' = to
        /\ (IF to = "ret" THEN Ret("S", "nil") ELSE UNCHANGED <<rerr, lateFault>>)
        /\ UNCHANGED <<wbroken, closed, connClosed>>
     \/ /\ ~CtxDead /\ pend # <<>> /\ (connClosed \/ wbroken \/ (~stalled /\ Breaks(Len(pend))))
        /\ IF connClosed \/ wbroken THEN UNCHANGED <<c2s, wbroken>>
           ELSE /\ \E part \in BOOLEAN :
                     c2s' = c2s \o SubSeq(pend, 1, cfg.wbreak - Len(c2s)) \o (IF part THEN <<Tok("partial", 0)>> ELSE <<>>)
                /\ wbroken' = TRUE
        /\ pend' = <<>> /\ spc' = "ret" /\ Ret("S", "err")
        /\ IF Fixed THEN closed' = TRUE /\ connClosed' = TRUE ELSE UNCHANGED <<closed, connClosed>>
  /\ UNCHANGED <<once, caller, gctx, firstErr, info, ver, rows, tail, round, cbS>> /\ SU

(* a blocked write ends when the connection is closed under it (cancelQuery, a foreign Close) or when the          *)
(* connection breaks under it (WBreak: the peer resets it), having taken none or a part of the packet: it fails,   *)
(* whatever has happened to the context in the meantime (the check of the context precedes the write)            *)
S_WriteWake ==
  /\ spc = "wblocked" /\ (connClosed \/ wbroken \/ caller = "deadline")     \* (flush gives the write the deadline of the context)
  /\ pend' = <<>> /\ spc' = "ret" /\ Ret("S", "err")
  /\ IF Fixed THEN closed' = TRUE /\ connClosed' = TRUE ELSE UNCHANGED <<closed, connClosed>>
  /\ UNCHANGED <<once, c2s, caller, gctx, firstErr, info, ver, rows, tail, round, cbS, wbroken>> /\ SU

AfterQ == IF cfg.scn # "select" /\ cfg.needInfo THEN "colinfo" ELSE "input"
S_FlushQ == Flush("flushq", AfterQ)

(* select { case <-ctx.Done(); case v := <-colInfo } - Go picks at random   *)
(* when both are ready.                                                     *)
S_ColInfo ==
  /\ spc = "colinfo"
  /\ \/ /\ info.buf > 0 /\ info' = [info EXCEPT !.buf = 0] /\ spc' = "input" /\ UNCHANGED <<rerr, lateFault>>
     \/ /\ info.buf = 0 /\ info.cl /\ spc' = "input" /\ UNCHANGED <<info, rerr, lateFault>>
     \/ /\ CtxDead /\ spc' = "ret" /\ Ret("S", "ctx") /\ UNCHANGED info
  /\ UNCHANGED <<once, pend, c2s, caller, gctx, firstErr, closed, connClosed, ver, rows, tail, round, cbS, wbroken>> /\ SU

(* One OnInput call: plan[cbS + 1] says what the callback does to the        *)
(* columns and what it returns.  Calls beyond the plan return io.EOF.       *)
PlanAt(j) == IF j <= Len(cfg.plan) THEN cfg.plan[j] ELSE [op |-> "keep", ret |-> "eof"]
RowsAfter(op) == CASE op \in {"append", "reappend"} -> 1
                   [] op = "reset" -> 0
                   [] OTHER -> rows
VerAfter(op) == IF op \in {"keep", "cancel"} \/ (op = "reset" /\ rows = 0) \/ (op = "overwrite" /\ rows = 0)
                  THEN ver ELSE ver + 1
\* the callback may cancel the caller's context from inside
CbCancel(op) == IF op = "cancel" /\ caller = "live"
                  THEN /\ caller' = "cancelled" /\ gctx' = "dead"
                  ELSE UNCHANGED <<caller, gctx>>
CbGhost(op) == IF op = "cancel" /\ caller = "live"
                  THEN /\ cancelAt' = IF rerr["R"] = "nil" THEN "late" ELSE "running"
                       /\ cancelClean' = (firstErr = "none" /\ \A x \in Roles : rerr[x] \in {"run", "nil"})
                  ELSE UNCHANGED <<cancelAt, cancelClean>>
\* where the sender goes after a callback returned r with the columns then holding rws rows
AfterCb(r, rws, c) ==
  CASE r = "nil" -> /\ spc' = "encblock" /\ tail' = FALSE /\ UNCHANGED <<rerr, lateFault>>
    [] r \in {"eof", "weof"} ->
         IF rws > 0 /\ (Fixed \/ spc = "cb")      \* F-5: the pinned code dropped rows appended by the initial callback
           THEN spc' = "encblock" /\ tail' = TRUE /\ UNCHANGED <<rerr, lateFault>>
           ELSE spc' = "term" /\ tail' = FALSE /\ UNCHANGED <<rerr, lateFault>>
    [] OTHER -> /\ spc' = "ret" /\ tail' = FALSE /\ RetL("S", "cb", c)

S_Input ==
  /\ spc = "input"
  /\ IF cfg.scn = "select" THEN
        /\ spc' = "finalflush" /\ UNCHANGED <<rerr, lateFault, ver, rows, tail, cbS, caller, gctx, cancelAt, cancelClean>>
     ELSE IF cfg.scn = "stream" /\ rows = 0 THEN
        LET p == PlanAt(cbS + 1) IN
        /\ cbS' = cbS + 1 /\ rows' = RowsAfter(p.op) /\ ver' = VerAfter(p.op)
        /\ CbCancel(p.op) /\ CbGhost(p.op) /\ AfterCb(p.ret, RowsAfter(p.op), p.op = "cancel" /\ caller = "live")
     ELSE /\ spc' = "encblock" /\ UNCHANGED <<rerr, lateFault, ver, rows, tail, cbS, caller, gctx, cancelAt, cancelClean>>
  /\ UNCHANGED <<cfg, once, pend, c2s, firstErr, closed, connClosed, info, round, wbroken,
                 rpc, wpc, s2c, sidx, gotExc, done, cbR, seenRows, cblog, call, phase>>

S_EncBlock ==
  /\ spc = "encblock"
  /\ IF CtxDead THEN spc' = "ret" /\ Ret("S", "ctx") /\ UNCHANGED <<pend, round>>
     ELSE /\ pend' = Append(pend, Tok("block", IF rows = 0 THEN 0 ELSE ver)) /\ round' = round + 1  \* v = 0: an empty block
          /\ spc' = IF cfg.scn = "insert" \/ tail THEN "term" ELSE "flushr"
          /\ UNCHANGED <<rerr, lateFault>>
  /\ UNCHANGED <<once, c2s, caller, gctx, firstErr, closed, connClosed, info, ver, rows, tail, cbS, wbroken>> /\ SU

S_FlushR == Flush("flushr", "cb")

S_Callback ==
  /\ spc = "cb"
  /\ LET p == PlanAt(cbS + 1) IN
     /\ cbS' = cbS + 1 /\ rows' = RowsAfter(p.op) /\ ver' = VerAfter(p.op)
     /\ CbCancel(p.op) /\ CbGhost(p.op) /\ AfterCb(p.ret, RowsAfter(p.op), p.op = "cancel" /\ caller = "live")
  /\ UNCHANGED <<cfg, once, pend, c2s, firstErr, closed, connClosed, info, round, wbroken,
                 rpc, wpc, s2c, sidx, gotExc, done, cbR, seenRows, cblog, call, phase>>

S_Term ==
  /\ spc = "term" /\ pend' = Append(pend, Tok("blank", 0)) /\ spc' = "finalflush"
  /\ UNCHANGED <<rerr, lateFault, once, c2s, caller, gctx, firstErr, closed, connClosed, info, ver, rows, tail, round, cbS, wbroken>> /\ SU

S_FinalFlush == Flush("finalflush", "ret")

S_Exit ==
  /\ spc = "ret" /\ spc' = "exit" /\ ExitOf("S")
  /\ UNCHANGED <<rerr, lateFault, pend, c2s, caller, closed, connClosed, info, ver, rows, tail, round, cbS, wbroken>> /\ SU

SenderNext == S_SendQuery \/ S_FlushQ \/ S_ColInfo \/ S_Input \/ S_EncBlock \/ S_FlushR \/ S_Callback
              \/ S_Term \/ S_FinalFlush \/ S_WriteWake \/ S_Exit

-----------------------------------------------------------------------------
(* Receiver                                                                *)
RU == UNCHANGED <<cfg, spc, wpc, once, pend, c2s, sidx, firstErr, closed, connClosed, ver, rows, tail, round, cbS,
                  call, phase, wbroken, done>>

RRet(e) == rpc' = "ret" /\ Ret("R", e)
RStay == rpc' = "loop" /\ UNCHANGED <<rerr, lateFault>>

(* callbacks of one packet, in call order: <<name, ...>>                    *)
Rep(n, x) == [i \in 1..n |-> x]
CbsOf(p) ==
  CASE p.k \in BlockKinds -> IF "result" \in cfg.present THEN <<"result">> ELSE <<>>
    [] p.k = "prog"    -> IF "progress" \in cfg.present THEN <<"progress">> ELSE <<>>
    [] p.k = "profile" -> IF "profile" \in cfg.present THEN <<"profile">> ELSE <<>>
    [] p.k = "log"     -> (IF "logs" \in cfg.present THEN <<"logs">> ELSE <<>>) \o
                          (IF "log" \in cfg.present THEN Rep(p.n, "log") ELSE <<>>)
    [] p.k = "pevents" -> (IF "pevents" \in cfg.present THEN <<"pevents">> ELSE <<>>) \o
                          (IF "pevent" \in cfg.present THEN Rep(p.n, "pevent") ELSE <<>>)
    [] OTHER -> <<>>

(* run the callbacks of packet number i: all of them, or up to and          *)
(* including the failing one                                                *)
RunCbs(i, names) ==
  LET failAt == IF cfg.rfail > cbR /\ cfg.rfail <= cbR + Len(names) THEN cfg.rfail - cbR ELSE 0
      ran    == IF failAt = 0 THEN Len(names) ELSE failAt
      cancelIn == cfg.rcancel > cbR /\ cfg.rcancel <= cbR + ran /\ caller = "live"
  IN /\ cbR' = cbR + ran
     /\ cblog' = cblog \o [j \in 1..ran |-> [cb |-> names[j], id |-> i]]
     /\ IF cancelIn
          THEN /\ caller' = "cancelled" /\ gctx' = "dead"
               /\ cancelAt' = "running"
               /\ cancelClean' = (firstErr = "none" /\ \A x \in Roles : rerr[x] \in {"run", "nil"})
          ELSE UNCHANGED <<caller, gctx, cancelAt, cancelClean>>
     /\ IF failAt # 0 THEN rpc' = "ret" /\ RetL("R", "cb", cancelIn) ELSE RStay

NoCb == UNCHANGED <<cbR, cblog, caller, gctx, cancelAt, cancelClean>>

(* what the receive loop does with packet number i of the script            *)
Handle(i) ==
  LET p == cfg.script[i] IN
  CASE p.k \in {"eos", "eosEarly"} -> RRet("nil") /\ NoCb /\ UNCHANGED <<gotExc, seenRows, info>>
    [] p.k = "exc" -> gotExc' = TRUE /\ RRet("exc") /\ NoCb /\ UNCHANGED <<seenRows, info>>
    [] p.k \in BlockKinds ->
         IF cfg.scn # "select" /\ cfg.needInfo
           THEN \* ColInfoInput.DecodeResult rewrites the receiver's result array, then the handler runs; the sender reads
                \* the info it was handed until it leaves "input" (the inference loop at the start of sendInput)
                /\ rpc' = "info" /\ NoCb /\ UNCHANGED <<rerr, lateFault, gotExc, seenRows>>
                /\ info' = [info EXCEPT !.raced = @ \/ (info.arr = 1 /\ spc \in {"start", "flushq", "colinfo", "input"})]
           ELSE IF "result" \in cfg.present
             THEN RunCbs(i, <<"result">>) /\ UNCHANGED <<gotExc, seenRows, info>>
             ELSE \* default handler: a second block after a non-empty one is an error
                  /\ NoCb /\ UNCHANGED <<gotExc, info>>
                  /\ IF seenRows THEN RRet("err") /\ UNCHANGED seenRows
                     ELSE RStay /\ seenRows' = (p.k # "hdr")
    [] p.k = "end" -> \* the empty block that marks the end of the data: decoded, never handed to a callback
         RStay /\ NoCb /\ UNCHANGED <<gotExc, seenRows, info>>
    [] p.k \in {"prog", "profile", "log", "pevents", "tcols"} ->
         RunCbs(i, CbsOf(p)) /\ UNCHANGED <<gotExc, seenRows, info>>
    [] p.k = "half" -> \* the first part of a packet, and then silence: the body of a packet is read without a deadline
         rpc' = "midread" /\ NoCb /\ UNCHANGED <<rerr, lateFault, gotExc, seenRows, info>>
    [] OTHER -> \* "bad" code, well-formed unexpected packet, undecodable body, cut, truncated packet
         RRet("err") /\ NoCb /\ UNCHANGED <<gotExc, seenRows, info>>

(* Once the connection is closed locally a read fails - unless the packet   *)
(* was already sitting in the reader's buffer, which the model does not     *)
(* track: both outcomes are allowed then.                                   *)
Consume ==
  \/ /\ s2c # <<>> /\ s2c' = Tail(s2c) /\ Handle(Head(s2c))
  \/ /\ connClosed /\ RRet("err") /\ NoCb /\ UNCHANGED <<s2c, gotExc, seenRows, info>>

R_Begin ==
  /\ rpc = "loop"
  /\ \/ /\ CtxDead /\ RRet("ctx") /\ NoCb /\ UNCHANGED <<s2c, gotExc, seenRows, info>>
     \/ /\ ~CtxDead /\ Consume
     \/ /\ ~CtxDead /\ s2c = <<>> /\ ~connClosed /\ rpc' = "read"
        /\ NoCb /\ UNCHANGED <<rerr, lateFault, s2c, gotExc, seenRows, info>>
  /\ RU
(* blocked in conn.Read: data, a closed connection or the read deadline wake it *)
R_Resume == /\ rpc = "read" /\ Consume /\ RU
(* inside a packet only a closed connection ends the read (no deadline is armed there, and nobody looks at the context) *)
R_MidWake == /\ rpc = "midread" /\ connClosed /\ RRet("err") /\ NoCb /\ UNCHANGED <<s2c, gotExc, seenRows, info>> /\ RU
R_Timeout == /\ rpc = "read" /\ rpc' = "loop"
             /\ NoCb /\ UNCHANGED <<rerr, lateFault, s2c, gotExc, seenRows, info>> /\ RU
(* the handler installed for input-type inference: select { ctx.Done(); colInfo <- result } *)
R_Info ==
  /\ rpc = "info"
  /\ \/ /\ InfoOnce /\ info.sent /\ RStay /\ UNCHANGED info          \* later header blocks: nothing to hand over
     \/ /\ ~(InfoOnce /\ info.sent) /\ info.buf = 0
        /\ info' = [info EXCEPT !.buf = 1, !.sent = TRUE, !.arr = IF InfoCopy THEN 2 ELSE 1] /\ RStay
     \/ /\ ~(InfoOnce /\ info.sent) /\ CtxDead /\ RRet("ctx") /\ UNCHANGED info
  /\ NoCb /\ UNCHANGED <<s2c, gotExc, seenRows>> /\ RU
(* The receiver's deferred calls close colInfo and done BEFORE its function  *)
(* returns to the errgroup: the cancel-watch can run in between and sees a   *)
(* context that is not cancelled yet.                                        *)
R_Done ==
  /\ rpc = "ret" /\ rpc' = "done" /\ done' = TRUE
  /\ info' = IF cfg.scn # "select" /\ cfg.needInfo THEN [info EXCEPT !.cl = TRUE] ELSE info
  /\ UNCHANGED <<cfg, spc, wpc, rerr, once, firstErr, gctx, lateFault, pend, c2s, s2c, sidx, caller, closed, connClosed, gotExc,
                 ver, rows, tail, round, cbS, cbR, seenRows, cblog, call, phase, wbroken, cancelAt, cancelClean>>
R_Exit ==
  /\ rpc = "done" /\ rpc' = "exit" /\ ExitOf("R")
  /\ UNCHANGED <<cfg, spc, wpc, rerr, lateFault, pend, c2s, s2c, sidx, caller, closed, connClosed, gotExc, ver, rows, done, info,
                 tail, round, cbS, cbR, seenRows, cblog, call, phase, wbroken, cancelAt, cancelClean>>

ReceiverNext == R_Begin \/ R_Resume \/ R_MidWake \/ R_Timeout \/ R_Info \/ R_Done \/ R_Exit

-----------------------------------------------------------------------------
(* Cancel-watch: after done, cancel the query unless it ended by itself or  *)
(* with a server exception.  cancelQuery writes Cancel from a private       *)
(* buffer (best effort) and always closes the client.                       *)
W_Act ==
  /\ wpc = "wait" /\ done /\ wpc' = "ret"
  /\ IF (CtxDead \/ (Fixed /\ rerr["R"] # "nil")) /\ ~gotExc    \* F-19: the pinned code looked at the context only
       THEN /\ IF connClosed \/ wbroken \/ stalled THEN UNCHANGED <<c2s, wbroken>>    \* (stalled: the 1 s write deadline passes)
               ELSE IF Breaks(1) THEN wbroken' = TRUE /\ UNCHANGED c2s
               ELSE c2s' = Append(c2s, Tok("cancel", 0)) /\ UNCHANGED wbroken
            \* what the watcher returns: the context's error joined with cancelQuery's (write and Close errors)
            /\ closed' = TRUE /\ connClosed' = TRUE
            /\ Ret("W", IF CtxDead THEN "ctx" ELSE IF closed THEN "closed"
                         ELSE IF connClosed \/ wbroken \/ stalled \/ Breaks(1) \/ CloseFails THEN "err" ELSE "nil")
       ELSE /\ Ret("W", "nil") /\ UNCHANGED <<c2s, closed, connClosed, wbroken>>
  /\ UNCHANGED <<cfg, spc, rpc, once, pend, s2c, sidx, caller, gctx, firstErr, gotExc, done, info, ver, rows, tail,
                 round, cbS, cbR, seenRows, cblog, call, phase, cancelAt, cancelClean>>
W_Exit ==
  /\ wpc = "ret" /\ wpc' = "exit" /\ ExitOf("W")
  /\ UNCHANGED <<cfg, spc, rpc, rerr, lateFault, pend, c2s, s2c, sidx, caller, closed, connClosed, gotExc, done, info,
                 ver, rows, tail, round, cbS, cbR, seenRows, cblog, call, phase, wbroken, cancelAt, cancelClean>>
WatchNext == W_Act \/ W_Exit

-----------------------------------------------------------------------------
(* Environment                                                             *)
EnvU == UNCHANGED <<cfg, spc, rpc, wpc, rerr, once, pend, c2s, firstErr, gotExc, done, info, ver, rows, tail, round,
                    cbS, cbR, seenRows, cblog, call, phase, wbroken, lateFault>>

CallerCancel(how) ==
  /\ AllowCancel /\ phase = "inDo" /\ caller = "live"
  /\ caller' = how /\ gctx' = "dead"
  /\ cancelAt' = IF rerr["R"] = "nil" THEN "late" ELSE "running"
  /\ cancelClean' = (firstErr = "none" /\ \A x \in Roles : rerr[x] \in {"run", "nil"})
  /\ UNCHANGED <<s2c, sidx, closed, connClosed>> /\ EnvU

(* A server answers what it has received: result blocks need the Query on   *)
(* the wire, end-of-stream needs the complete request; exceptions,          *)
(* telemetry and the fault kinds may come at any moment.                    *)
OnWire(k) == Len(SelectSeq(c2s, LAMBDA t : t.call = call /\ t.k = k))
RequestComplete == OnWire("blank") = (IF cfg.scn = "select" THEN 1 ELSE 2)
Causal(p) == CASE p.k = "eos" -> RequestComplete
               [] p.k \in BlockKinds \cup {"end"} -> OnWire("query") = 1
               [] OTHER -> TRUE
ServerSend ==
  /\ phase = "inDo" /\ sidx <= Len(cfg.script) /\ Causal(cfg.script[sidx])
  /\ s2c' = Append(s2c, sidx) /\ sidx' = sidx + 1
  /\ UNCHANGED <<caller, gctx, closed, connClosed, cancelAt, cancelClean>> /\ EnvU

Stall ==
  /\ AllowStall /\ phase = "inDo" /\ ~stalled /\ stalled' = TRUE
  /\ UNCHANGED <<s2c, sidx, caller, gctx, closed, connClosed, cancelAt, cancelClean>> /\ EnvU

(* the connection breaks while a write is blocked on it *)
WBreak ==
  /\ AllowStall /\ phase = "inDo" /\ spc = "wblocked" /\ ~connClosed /\ ~wbroken
  /\ wbroken' = TRUE
  /\ \E part \in BOOLEAN : c2s' = c2s \o (IF part THEN <<Tok("partial", 0)>> ELSE <<>>)    \* what the connection took of the packet
  /\ UNCHANGED <<cfg, spc, rpc, wpc, rerr, once, pend, firstErr, gotExc, done, info, ver, rows, tail, round,
                 cbS, cbR, seenRows, cblog, call, phase, lateFault, s2c, sidx, caller, gctx, closed, connClosed, cancelAt, cancelClean>>

ForeignClose ==
  /\ AllowForeignClose /\ phase = "inDo" /\ ~closed
  /\ closed' = TRUE /\ connClosed' = TRUE
  /\ UNCHANGED <<s2c, sidx, caller, gctx, cancelAt, cancelClean>> /\ EnvU

-----------------------------------------------------------------------------
(* Do returns when all three goroutines have; then the next request.        *)
DoReturn ==
  /\ phase = "inDo" /\ spc = "exit" /\ rpc = "exit" /\ wpc = "exit" /\ \A x \in Roles : once[x]
  /\ phase' = "returned" /\ call' = call + 1
  /\ pend' = IF Fixed /\ firstErr # "none" THEN <<>> ELSE pend     \* F-1: drop what the failed query left in the writer
  /\ UNCHANGED <<cfg, spc, rpc, wpc, rerr, once, c2s, s2c, sidx, caller, gctx, firstErr, closed, connClosed, gotExc,
                 done, info, ver, rows, tail, round, cbS, cbR, seenRows, cblog, wbroken, cancelAt, cancelClean, lateFault>>
(* Ping on the same client: refused without touching the connection when    *)
(* closed; otherwise its own packet is the first thing written.             *)
NextReq ==
  /\ phase = "returned" /\ phase' = "next"
  /\ IF closed THEN UNCHANGED <<pend, c2s>>
     ELSE IF wbroken THEN pend' = <<>> /\ UNCHANGED c2s
     ELSE c2s' = c2s \o pend \o <<Tok("ping", 0)>> /\ pend' = <<>>
  /\ UNCHANGED <<cfg, spc, rpc, wpc, rerr, once, s2c, sidx, caller, gctx, firstErr, closed, connClosed, gotExc, done,
                 info, ver, rows, tail, round, cbS, cbR, seenRows, cblog, call, wbroken, cancelAt, cancelClean, lateFault>>

-----------------------------------------------------------------------------
Log(x) == hist' = Append(hist, x)
Next ==
  \/ SenderNext /\ Log("S") /\ UNCHANGED stalled
  \/ (R_Begin \/ R_Resume \/ R_MidWake \/ R_Info \/ R_Done \/ R_Exit) /\ Log("R") /\ UNCHANGED stalled
  \/ R_Timeout /\ Log("T") /\ UNCHANGED stalled
  \/ WatchNext /\ Log("W") /\ UNCHANGED stalled
  \/ ServerSend /\ Log("V") /\ UNCHANGED stalled
  \/ CallerCancel("cancelled") /\ Log("C") /\ UNCHANGED stalled
  \/ CallerCancel("deadline") /\ Log("D") /\ UNCHANGED stalled
  \/ ForeignClose /\ Log("X") /\ UNCHANGED stalled
  \/ Stall /\ Log("Z")
  \/ WBreak /\ Log("B") /\ UNCHANGED stalled
  \/ \E x \in Roles : G_Once(x)
  \/ DoReturn /\ Log("Ret") /\ UNCHANGED stalled
  \/ NextReq /\ Log("Next") /\ UNCHANGED stalled

Spec == Init /\ [][Next]_vars
K(A) == A /\ UNCHANGED stalled
Fair == /\ WF_View(K(SenderNext)) /\ WF_View(K(R_Begin \/ R_Resume \/ R_MidWake \/ R_Info \/ R_Done \/ R_Exit)) /\ WF_View(K(R_Timeout))
        /\ WF_View(K(WatchNext)) /\ WF_View(K(DoReturn)) /\ WF_View(K(NextReq)) /\ \A x \in Roles : WF_View(G_Once(x))
(* A silent server and a live caller never end Do; what "finite read        *)
(* timeout" and "cancellation" buy is expressed by fairness of R_Timeout    *)
(* and of the caller's cancel.                                              *)
FairSpec == Spec /\ Fair /\ WF_View(K(CallerCancel("cancelled")))
(* Without anybody cancelling: a stream the server completes ends Do by itself *)
(* (the server keeps sending what it has to send).                           *)
QuietFairSpec == Spec /\ Fair /\ WF_View(K(ServerSend))

-----------------------------------------------------------------------------
(* Properties                                                              *)
Returned == phase \in {"returned", "next"}
Mine(seq, n) == SelectSeq(seq, LAMBDA t : t.call = n)

\* C04 -----------------------------------------------------------------
\* after a failed call the client is closed, or nothing is pending and nothing partial is on the wire
PacketBoundary == phase = "returned" /\ firstErr # "none" =>
                    closed \/ (pend = <<>> /\ \A i \in 1..Len(c2s) : c2s[i].k # "partial")
\* the next request starts with its own first byte; nothing of the failed call is sent later
NoStaleOutput == phase = "next" /\ ~closed /\ ~wbroken =>
                   /\ c2s[Len(c2s)] = [call |-> call, k |-> "ping", v |-> 0]
                   /\ \A i \in 1..(Len(c2s) - 1) : c2s[i].call < call
                   /\ pend = <<>>
\* a successful call leaves nothing behind either
CleanSuccess == phase = "returned" /\ firstErr = "none" => pend = <<>>
ClosedImpliesConn == closed => connClosed

\* C03 (shape; the exact callback sequence is ExpectedCbs below) ------------
EosConsumed == \E i \in 1..(sidx - 1) : cfg.script[i].k \in {"eos", "eosEarly"} /\ \A j \in 1..Len(s2c) : s2c[j] # i
NilOnlyAfterEos == phase = "returned" /\ firstErr = "none" => rerr["R"] = "nil" /\ EosConsumed
\* expected callback log of the consumed prefix: every callback of every packet, in order
RECURSIVE CbsUpTo(_)
CbsUpTo(n) == IF n = 0 THEN <<>>
              ELSE CbsUpTo(n - 1) \o
                   (IF cfg.script[n].k \in BlockKinds /\ cfg.scn # "select" /\ cfg.needInfo THEN <<>>
                    ELSE [j \in 1..Len(CbsOf(cfg.script[n])) |-> [cb |-> CbsOf(cfg.script[n])[j], id |-> n]])
Consumed == sidx - 1 - Len(s2c)
IsPrefixSeq(a, b) == Len(a) <= Len(b) /\ SubSeq(b, 1, Len(a)) = a
\* exactly once, in order: the log is always a prefix of the expected sequence, and complete on success
Delivered == /\ IsPrefixSeq(cblog, CbsUpTo(Consumed))
             /\ (Returned /\ firstErr = "none" => cblog = CbsUpTo(Consumed))
ExcReturned == Returned /\ gotExc /\ cancelAt = "none" /\ rerr["S"] \in {"nil", "ctx", "run"} => firstErr = "exc"

\* C09 ------------------------------------------------------------------
BlocksOnWire == SelectSeq(Mine(c2s, 1), LAMBDA t : t.k = "block")
OneTerminator == phase = "returned" /\ firstErr = "none" /\ cfg.scn # "select" =>
                   /\ Len(SelectSeq(Mine(c2s, 1), LAMBDA t : t.k = "blank")) = 2
                   /\ c2s[Len(c2s)].k = "blank"
                   /\ Len(BlocksOnWire) = round
\* rows present at end-of-input were sent as the last block
TailSent == phase = "returned" /\ firstErr = "none" /\ cfg.scn = "stream" =>
              rows = 0 \/ (Len(BlocksOnWire) > 0 /\ BlocksOnWire[Len(BlocksOnWire)].v = ver)
\* block versions on the wire are non-decreasing and each was current when encoded (round r holds the contents at round r)
NonEmptyBlocks == SelectSeq(BlocksOnWire, LAMBDA t : t.v # 0)
Faithful == /\ \A i \in 1..(Len(NonEmptyBlocks) - 1) : NonEmptyBlocks[i].v <= NonEmptyBlocks[i + 1].v
            /\ \A i \in 1..Len(NonEmptyBlocks) : NonEmptyBlocks[i].v <= ver

\* C10 ------------------------------------------------------------------
CancelObliges == cancelAt = "running" /\ cancelClean /\ ~lateFault
CancelReturnsCtx == phase = "returned" /\ CancelObliges => firstErr = "ctx"
CancelCloses == phase = "returned" /\ CancelObliges => closed /\ connClosed
CancelPacketOnce == Len(SelectSeq(c2s, LAMBDA t : t.k = "cancel")) <= 1
\* the receiver never rewrites column info the sender may still be reading
NoInfoRace == ~info.raced
NoOrphans == Returned => spc = "exit" /\ rpc = "exit" /\ wpc = "exit"
\* liveness: every Do returns (under FairSpec)
Returns == <>(phase = "next")

=============================================================================
