--------------------------- MODULE Trace_PoolFree ---------------------------
(* Free-running pool runs (C12): what remains observable of Pool.tla's      *)
(* invariants when nothing is gated - NoPanic, AllClosedAfterClose, and no  *)
(* operation fails while the pool is open and its servers answer.           *)
EXTENDS Integers, Sequences, Json, IOUtils, TLC
VARIABLE l
Trace == ndJsonDeserialize(IOEnv.TRACE)
Ev == Trace[l]
LineOK == /\ Ev.ev = "PoolFree"
          /\ Ev.panics = 0               \* NoPanic
          /\ Ev.openAfterClose = 0       \* AllClosedAfterClose
          /\ Ev.unexpectedErrors = 0
          /\ Ev.ops > 0
Init == l = 1
Next == l <= Len(Trace) /\ l' = l + 1 /\ (LineOK \/ PrintT(<<"REJECT", l>>))
TSpec == Init /\ [][Next]_l
HW == TLCSet(1, IF TLCGet(1) < l THEN l ELSE TLCGet(1))
Accepted == PrintT(<<"HWM", TLCGet(1)>>) /\ TLCGet(1) = Len(Trace) + 1
ASSUME TLCSet(1, 0)
=============================================================================
