package lifecycle

import (
	"context"
	"errors"
	"fmt"
	"math/rand"
	"runtime"
	"sync"
	"sync/atomic"
	"time"

	ch "github.com/ClickHouse/ch-go"
	"github.com/ClickHouse/ch-go/proto"

	"verifharness/simconn"
)

// FreeOpts are the environment actions of a free-running run: they happen at moments the Go scheduler chooses.
type FreeOpts struct {
	ForeignClose bool  // another goroutine calls Client.Close while Do runs
	Cancel       bool  // the caller's context is cancelled while Do runs
	Seed         int64 // jitter
	PingAfter    bool  // a Ping on the same client after Do returned
	FarDeadline  bool  // the caller's context carries a deadline an hour away (and may still be cancelled)
	CancelAtUs   int   // > 0: cancel after exactly this many microseconds instead of a random delay
}

// RunFree executes the scenario with nothing gated and no hooks installed: sender, receiver, cancel watcher, the
// scripted server and the environment run as the Go scheduler lets them. It reports only the outcome.
func RunFree(sc Scenario, fo FreeOpts) (Event, error) {
	evs, err := RunFreeSession([]Scenario{sc}, []FreeOpts{fo})
	if err != nil {
		return nil, err
	}
	return evs[0], nil
}

// RunFreeSession runs several requests one after the other on ONE client (one connection): the result columns the
// caller binds are the same objects in every request, a request may start on a client an earlier one left closed.
// Compression, revision and instrumentation are those of the first scenario.
func RunFreeSession(scs []Scenario, fos []FreeOpts) ([]Event, error) {
	sc0 := scs[0]
	conn := simconn.New()
	comp := map[string]ch.Compression{"disabled": ch.CompressionDisabled, "none": ch.CompressionNone, "lz4": ch.CompressionLZ4,
		"lz4hc": ch.CompressionLZ4HC, "zstd": ch.CompressionZSTD}[sc0.Compression]
	var hello proto.Buffer
	(&proto.ServerHello{Name: "VerifServer", Major: 23, Minor: 8, Revision: sc0.Rev, Timezone: "UTC", DisplayName: "verif", Patch: 1}).EncodeAware(&hello, proto.Version)
	conn.Deliver(hello.Buf)
	hctx, hcancel := context.WithTimeout(context.Background(), 10*time.Second)
	cl, err := ch.Connect(hctx, conn, ch.Options{Compression: comp, ReadTimeout: 2 * time.Millisecond, OpenTelemetryInstrumentation: sc0.Otel})
	hcancel()
	if err != nil {
		return nil, fmt.Errorf("connect: %w", err)
	}
	var out []Event
	var prev *runner
	for k, sc := range scs {
		sc.Compression, sc.Rev, sc.Otel = sc0.Compression, sc0.Rev, sc0.Otel
		ev, r := runFreeOn(conn, cl, prev, sc, fos[k], k == len(scs)-1)
		ev["seq"] = k + 1
		ev["of"] = len(scs)
		out = append(out, ev)
		prev = r
	}
	_ = cl.Close()
	return out, nil
}

func runFreeOn(conn *simconn.Conn, cl *ch.Client, prev *runner, sc Scenario, fo FreeOpts, last bool) (Event, *runner) {
	r := &runner{sc: sc, ver: 1, park: map[string]*parked{}, exited: map[string]bool{}, gone: map[string]bool{}, versions: map[int]contents{},
		lastID: map[string]int{}, doneCh: make(chan error, 1), free: true}
	r.cond = sync.NewCond(&r.mu)
	r.conn = conn
	r.cl = cl
	if prev != nil {
		// the caller binds the same result columns again: they still hold what the previous request left in them
		r.resX, r.resY = prev.resX, prev.resY
	}
	r.caller = &manualCtx{done: make(chan struct{}), deadline: fo.FarDeadline}
	rng := rand.New(rand.NewSource(fo.Seed))
	startClosed := cl.IsClosed()
	rev := cl.ServerInfo().Revision
	if rev > proto.Version {
		rev = proto.Version
	}
	r.enc = &serverEnc{rev: rev, compressed: sc.Compression != "disabled", insert: sc.Cfg.Scn != "select"}
	r.base = len(r.conn.Snap().Written)
	q := r.query()
	jitter := func() {
		switch rng.Intn(4) {
		case 0:
			runtime.Gosched()
		case 1:
			time.Sleep(time.Duration(rng.Intn(200)) * time.Microsecond)
		}
	}
	stop := make(chan struct{})
	var wg sync.WaitGroup
	// the scripted server: an item is sent once the request it answers has been written
	wg.Add(1)
	go func() {
		defer wg.Done()
		srng := rand.New(rand.NewSource(fo.Seed + 1))
		for i, it := range sc.Cfg.Script {
			for {
				select {
				case <-stop:
					return
				default:
				}
				r.newTokens()
				if r.causal(it) {
					break
				}
				time.Sleep(30 * time.Microsecond)
			}
			if srng.Intn(3) == 0 {
				time.Sleep(time.Duration(srng.Intn(150)) * time.Microsecond)
			}
			if b := r.enc.Encode(it, i+1); len(b) > 0 {
				r.conn.Deliver(b)
			}
			if closesAfter(it.K) {
				r.conn.ServerClose()
			}
		}
	}()
	closedByEnv, cancelledByEnv := false, false
	var emu sync.Mutex
	if fo.ForeignClose {
		wg.Add(1)
		d := time.Duration(rng.Intn(400)) * time.Microsecond
		go func() {
			defer wg.Done()
			select {
			case <-stop:
				return
			case <-time.After(d):
			}
			emu.Lock()
			closedByEnv = true
			emu.Unlock()
			_ = cl.Close()
		}()
	}
	var cancelAt atomic.Int64
	if fo.Cancel {
		wg.Add(1)
		d := time.Duration(rng.Intn(400)) * time.Microsecond
		if fo.CancelAtUs > 0 {
			d = time.Duration(fo.CancelAtUs) * time.Microsecond
		}
		go func() {
			defer wg.Done()
			select {
			case <-stop:
				return
			case <-time.After(d):
			}
			emu.Lock()
			cancelledByEnv = true
			emu.Unlock()
			cancelAt.Store(time.Now().UnixNano())
			r.caller.fire(context.Canceled)
		}()
	}
	jitter()
	var doErr error
	done := make(chan struct{})
	go func() { doErr = cl.Do(r.caller, q); close(done) }()
	stuck := ""
	var returnedAt int64
	select {
	case <-done:
		returnedAt = time.Now().UnixNano()
	case <-time.After(15 * time.Second):
		stuck = "Do did not return within 15 s"
		r.caller.fire(context.Canceled)
		_ = r.conn.Close()
		<-done
	}
	close(stop)
	wg.Wait()
	emu.Lock()
	ce, ca := closedByEnv, cancelledByEnv
	emu.Unlock()
	cfg := sc.Cfg
	if cfg.Script == nil {
		cfg.Script = []Item{}
	}
	if cfg.Plan == nil {
		cfg.Plan = []PlanStep{}
	}
	if cfg.Present == nil {
		cfg.Present = []string{}
	}
	out := Event{"ev": "Outcome", "id": sc.ID, "cfg": cfg, "err": classOf(doErr), "closed": cl.IsClosed(), "cbs": r.takeCbs(), "stuck": stuck,
		"foreignClose": ce, "cancelled": ca || r.caller.Err() != nil, "otel": sc.Otel, "compression": sc.Compression}
	var exc *ch.Exception
	chain := []int{}
	if errors.As(doErr, &exc) {
		chain = append(chain, int(exc.Code))
		for _, n := range exc.Next {
			chain = append(chain, int(n.Code))
		}
	}
	out["chain"] = chain
	out["farDeadline"] = fo.FarDeadline
	out["readTimeoutMs"] = 2
	out["afterCancelMs"] = -1
	if ca := cancelAt.Load(); ca > 0 && returnedAt > 0 {
		out["afterCancelMs"] = int((returnedAt - ca) / 1e6)
	}
	r.newTokens()
	wire := []Token{}
	for _, t := range r.tokens {
		wire = append(wire, Token{K: t.K, V: t.V})
	}
	out["wire"] = wire
	out["wroteBytes"] = len(r.conn.Snap().Written) - r.base
	out["startClosed"] = startClosed
	if fo.PingAfter && last && !cl.IsClosed() {
		var pong proto.Buffer
		proto.ServerCodePong.Encode(&pong)
		r.conn.Deliver(pong.Buf)
		pctx, pcancel := context.WithTimeout(context.Background(), 2*time.Second)
		out["ping"] = classOf(cl.Ping(pctx))
		pcancel()
	}
	return out, r
}
