package lifecycle

import (
	"context"
	"errors"
	"fmt"
	"io"
	"os"
	"runtime"
	"strconv"
	"strings"
	"sync"
	"time"

	ch "github.com/ClickHouse/ch-go"
	"github.com/ClickHouse/ch-go/proto"

	"verifharness/simconn"
)

// PlanStep is what one OnInput call does to the columns and what it returns.
type PlanStep struct {
	Op  string `json:"op"`  // keep | append | reset | reappend | overwrite | cancel
	Ret string `json:"ret"` // nil | eof | weof | err
}

// Cfg mirrors the cfg record of QueryLifecycle.tla.
type Cfg struct {
	Scn        string     `json:"scn"` // select | insert | stream
	NeedInfo   bool       `json:"needInfo"`
	Ext        bool       `json:"ext"`
	ExtBlank   bool       `json:"extBlank"` // external data without a table name of the caller's (the library's default name applies)
	Script     []Item     `json:"script"`
	Plan       []PlanStep `json:"plan"`
	Present    []string   `json:"present"`
	Rfail      int        `json:"rfail"`
	Rcancel    int        `json:"rcancel"`
	InitRows   int        `json:"initRows"`
	Wbreak     int        `json:"wbreak"`     // filled in after the run from what was observed
	CloseFails bool       `json:"closeFails"` // set by the harness in the Begin line: the connection's Close reports an error (Scenario.CloseErr)
}

// Scenario is one run: the abstract configuration plus its concrete refinement and the schedule.
type Scenario struct {
	ID          string `json:"id"`
	Cfg         Cfg    `json:"cfg"`
	BreakAt     int    `json:"breakAt"` // byte offset in the client stream of this call at which writes break; -1 = never
	Sched       string `json:"sched"`   // S R W (roles) V (server sends next packet) C D (cancel / deadline) T (read time-out) X (foreign Close)
	Rev         int    `json:"rev"`     // server revision
	Compression string `json:"compression"`
	Otel        bool   `json:"otel"`
	// Sweep expands the scenario into its concrete refinements: "break" = the write direction
	// breaks at every Stride-th byte offset of what the call writes; "cut" = the server stream is
	// cut at every Stride-th byte offset.
	// RowsPer is the number of rows every append adds to the input columns (default 2); large values make the
	// zero-copy column chunks big enough to be chained by reference
	RowsPer int `json:"rowsPer,omitempty"`
	// BreakBytes is how many bytes of the packet the connection takes when it breaks under a blocked write (letter B)
	BreakBytes int `json:"breakBytes,omitempty"`
	// CloseErr: the connection's Close closes it and reports an error all the same
	CloseErr bool `json:"closeErr,omitempty"`
	// DrainBreak: when nothing else can move and the sender sits in a blocked write, the connection breaks (letter B)
	DrainBreak bool `json:"drainBreak,omitempty"`

	Sweep  string `json:"sweep,omitempty"`
	Stride int    `json:"stride,omitempty"`
	Phase  int    `json:"phase,omitempty"`
}

var errCallback = errors.New("callback failed (injected)")

func classOf(err error) string {
	if err == nil {
		return "nil"
	}
	var exc *ch.Exception
	switch {
	case errors.As(err, &exc):
		return "exc"
	case errors.Is(err, errCallback):
		return "cb"
	case errors.Is(err, context.Canceled), errors.Is(err, context.DeadlineExceeded):
		return "ctx"
	case errors.Is(err, ch.ErrClosed):
		return "closed"
	}
	return "err"
}

// manualCtx is the caller's context: it is cancelled (or "expires") exactly when the scheduler says so.
type manualCtx struct {
	mu       sync.Mutex
	done     chan struct{}
	err      error
	deadline bool
}

func (m *manualCtx) Deadline() (time.Time, bool) {
	if m.deadline {
		return time.Now().Add(time.Hour), true
	}
	return time.Time{}, false
}
func (m *manualCtx) Done() <-chan struct{} { return m.done }
func (m *manualCtx) Err() error {
	m.mu.Lock()
	defer m.mu.Unlock()
	return m.err
}
func (m *manualCtx) Value(any) any { return nil }
func (m *manualCtx) fire(err error) bool {
	m.mu.Lock()
	defer m.mu.Unlock()
	if m.err != nil {
		return false
	}
	m.err = err
	close(m.done)
	return true
}

type parked struct {
	point   string
	err     error
	release chan struct{}
}

// Cb is one callback invocation as recorded by the harness.
type Cb struct {
	Cb string `json:"cb"`
	ID int    `json:"id"`
}

// Event is one trace line.
type Event map[string]any

type runner struct {
	sc   Scenario
	conn *simconn.Conn
	cl   *ch.Client
	enc  *serverEnc

	mu       sync.Mutex
	cond     *sync.Cond
	park     map[string]*parked
	exited   map[string]bool
	gone     map[string]bool // the goroutine function has returned
	stalledW bool
	recvErr  error
	gctx     context.Context
	cbs      []Cb
	stuck    string

	caller *manualCtx
	free   bool // free-running: no gates, no hooks
	// the sender's last recorded move ended in a write the peer does not take
	sInWrite bool
	expireW  bool // the write deadline of the blocked write is to pass at the sender's next step
	brokeW   bool // the environment broke the connection under the sender's blocked write (schedule letter B)

	// executor-side bookkeeping
	base      int // bytes written before Do started
	tokens    []Token
	sidx      int // next script item (0-based)
	infoSent  int
	infoTaken int
	doneCh    chan error
	events    []Event

	// input columns and their history
	colV     proto.ColUInt64
	colS     proto.ColStr
	colE     proto.ColEnum // an inferring column with prepared state (raw values rebuilt from Values before every block)
	ver      int
	cbS      int
	cbR      int
	versions map[int]contents
	lastID   map[string]int
	resX     proto.ColUInt64
	resY     proto.ColStr
}

const watchdog = 10 * time.Second

func (r *runner) hook(ctx context.Context, c *ch.Client, point string, err error) {
	if c != r.cl {
		return
	}
	p := &parked{point: point, err: err, release: make(chan struct{})}
	if os.Getenv("VERIF_DEBUG") != "" && point == "S.ret" {
		fmt.Fprintf(os.Stderr, "DEBUG %s S.ret err=%v cause=%v\n", r.sc.ID, err, context.Cause(ctx))
	}
	r.mu.Lock()
	if r.gctx == nil && point != "D.ret" {
		r.gctx = ctx
	}
	r.park[point[:1]] = p
	r.cond.Broadcast()
	r.mu.Unlock()
	<-p.release
}

func (r *runner) onBlock() {
	r.mu.Lock()
	r.cond.Broadcast()
	r.mu.Unlock()
}

// waitFor waits until cond() holds (evaluated under r.mu); false = watchdog expired.
func (r *runner) waitFor(cond func() bool) bool {
	deadline := time.Now().Add(watchdog)
	t := time.AfterFunc(watchdog, func() { r.mu.Lock(); r.cond.Broadcast(); r.mu.Unlock() })
	defer t.Stop()
	r.mu.Lock()
	defer r.mu.Unlock()
	for !cond() {
		if time.Now().After(deadline) {
			return false
		}
		r.cond.Wait()
	}
	return true
}

// spinFor polls a condition that no hook signals (context propagation); it is only used for
// conditions that are guaranteed to become true.
func (r *runner) spinFor(cond func() bool) bool {
	deadline := time.Now().Add(watchdog)
	for i := 0; !cond(); i++ {
		if time.Now().After(deadline) {
			return false
		}
		if i < 100 {
			runtime.Gosched()
		} else {
			time.Sleep(20 * time.Microsecond)
		}
	}
	return true
}

func (r *runner) gctxDead() bool {
	r.mu.Lock()
	g := r.gctx
	r.mu.Unlock()
	return g != nil && g.Err() != nil
}

func (r *runner) parkedAt(role string) *parked {
	r.mu.Lock()
	defer r.mu.Unlock()
	return r.park[role]
}

func gateName(point string) string { return point[2:] }

// ---- the query ------------------------------------------------------------

func (r *runner) present(name string) bool {
	for _, p := range r.sc.Cfg.Present {
		if p == name {
			return true
		}
	}
	return false
}

// one receiver-side callback invocation
func (r *runner) recvCb(name string, id int) error {
	r.mu.Lock()
	r.cbR++
	n := r.cbR
	r.cbs = append(r.cbs, Cb{Cb: name, ID: id})
	r.mu.Unlock()
	if n == r.sc.Cfg.Rcancel {
		r.caller.fire(context.Canceled)
		if !r.free {
			r.spinFor(r.gctxDead)
		}
	}
	if n == r.sc.Cfg.Rfail {
		return errCallback
	}
	return nil
}

// matchBlock finds the script item (in order, after the last one matched for this kind of callback)
// whose result block holds exactly the rows now bound in the result columns.
func (r *runner) matchBlock() int {
	for i := r.lastID["result"] + 1; i <= len(r.sc.Cfg.Script); i++ {
		it := r.sc.Cfg.Script[i-1]
		rows := map[string]int{"hdr": 0, "data": 2, "totals": 1}
		n, ok := rows[it.K]
		if !ok {
			continue
		}
		x, y := ResultValues(i, n)
		if len(x) != r.resX.Rows() || len(y) != r.resY.Rows() {
			continue
		}
		same := true
		for j := range x {
			if x[j] != r.resX[j] || y[j] != r.resY.Row(j) {
				same = false
			}
		}
		if same {
			r.lastID["result"] = i
			return i
		}
	}
	return -1
}

// progressID tells which script item a Progress packet is: by the counter that carries the item's number, or - when
// the packet carries none at this revision - the next Progress item of the script after the last one reported.
func (r *runner) progressID(p proto.Progress) int {
	id := -1
	switch {
	case p.Rows > 0:
		id = int(p.Rows)
	case p.WroteRows > 0:
		id = int(p.WroteRows)
	case p.ElapsedNs > 0:
		id = int(p.ElapsedNs)
	default:
		for i := r.lastID["progress"] + 1; i <= len(r.sc.Cfg.Script); i++ {
			if r.sc.Cfg.Script[i-1].K == "prog" {
				id = i
				break
			}
		}
	}
	if id > 0 {
		r.lastID["progress"] = id
	}
	return id
}

func idFromSuffix(s, prefix string) int {
	var i, j int
	if _, err := fmt.Sscanf(s, prefix+"-%d-%d", &i, &j); err != nil {
		return -1
	}
	return i
}

func (r *runner) appendRows() {
	r.ver++
	r.fillRows()
}

func (r *runner) fillRows() {
	n := r.sc.RowsPer
	if n <= 0 {
		n = 2
	}
	for i := 0; i < n; i++ {
		v := uint64(r.ver*100 + i)
		if n >= 1000 {
			// big blocks are made incompressible (splitmix64), so that their compressed frames are big too
			z := uint64(r.ver)*1000003 + uint64(i) + 0x9e3779b97f4a7c15
			z = (z ^ (z >> 30)) * 0xbf58476d1ce4e5b9
			z = (z ^ (z >> 27)) * 0x94d049bb133111eb
			v = z ^ (z >> 31)
		}
		r.colV.Append(v)
		str := fmt.Sprintf("v%d-%d", r.ver, i)
		if n == 17 && i%5 == 0 {
			// long values among short ones (4 KiB .. 70 KiB: a column may treat them differently)
			str = strings.Repeat("L", []int{4096, 5000, 70000, 4095}[(r.ver+i/5)%4]) + str
		}
		r.colS.Append(str)
		r.colE.Append(EnumNames[(r.ver+i)%len(EnumNames)])
	}
}

func (r *runner) snapshot() {
	c := contents{V: append([]uint64(nil), r.colV...), E: append([]string(nil), r.colE.Values...)}
	for i := 0; i < r.colS.Rows(); i++ {
		c.S = append(c.S, r.colS.Row(i))
	}
	r.mu.Lock()
	r.versions[r.ver] = c
	r.mu.Unlock()
}

func (r *runner) onInput(ctx context.Context) error {
	r.cbS++
	st := PlanStep{Op: "keep", Ret: "eof"}
	if r.cbS <= len(r.sc.Cfg.Plan) {
		st = r.sc.Cfg.Plan[r.cbS-1]
	}
	switch st.Op {
	case "append":
		r.appendRows()
	case "reset":
		if r.colV.Rows() > 0 {
			r.ver++
		}
		r.colV.Reset()
		r.colS.Reset()
		r.colE.Reset()
	case "reappend":
		r.colV.Reset()
		r.colS.Reset()
		r.colE.Reset()
		r.appendRows()
	case "overwrite":
		if n := r.colV.Rows(); n > 0 {
			r.ver++
			for i := 0; i < n; i++ {
				r.colV[i] = uint64(r.ver*100 + i) // in place: the memory a zero-copy writer may still reference
			}
			r.colS.Reset()
			for i := 0; i < n; i++ {
				r.colS.Append(fmt.Sprintf("v%d-%d", r.ver, i))
				r.colE.Values[i] = EnumNames[(r.ver+i)%len(EnumNames)] // through the exported field, as the README does
			}
		}
	case "cancel":
		if r.caller.fire(context.Canceled) && !r.free {
			r.spinFor(r.gctxDead)
		}
	}
	r.snapshot()
	switch st.Ret {
	case "nil":
		return nil
	case "eof":
		return io.EOF
	case "weof":
		return fmt.Errorf("no more input: %w", io.EOF)
	}
	return errCallback
}

func (r *runner) query() ch.Query {
	cfg := r.sc.Cfg
	q := ch.Query{Body: "SELECT 1", QueryID: "verif-query"} // independent of the scenario id: a re-run must write the same bytes
	if cfg.Scn != "select" {
		q.Body = "INSERT INTO t VALUES"
		if cfg.InitRows > 0 {
			r.fillRows() // version 1 = the initial contents
		}
		r.snapshot()
		if err := r.colE.Infer(EnumType); err != nil {
			panic(err)
		}
		q.Input = proto.Input{{Name: "v", Data: &r.colV}, {Name: "s", Data: &r.colS}, {Name: "e", Data: &r.colE}}
		if cfg.Scn == "stream" {
			q.OnInput = r.onInput
		}
		if !cfg.NeedInfo {
			q.Result = &proto.Results{}
		}
	} else {
		q.Result = proto.Results{{Name: "x", Data: &r.resX}, {Name: "y", Data: &r.resY}}
	}
	if cfg.Ext {
		var e proto.ColUInt8
		e.Append(7)
		q.ExternalData = []proto.InputColumn{{Name: "e", Data: &e}}
		if !cfg.ExtBlank {
			q.ExternalTable = "ext1"
		}
	}
	if r.present("result") && (cfg.Scn == "select" || !cfg.NeedInfo) {
		q.OnResult = func(ctx context.Context, b proto.Block) error {
			id := -1
			if cfg.Scn == "select" {
				id = r.matchBlock()
			} else {
				// INSERT with caller-provided (empty) result: header blocks only, matched in order
				for i := r.lastID["result"] + 1; i <= len(cfg.Script); i++ {
					if cfg.Script[i-1].K == "hdr" && b.Rows == 0 {
						id = i
						r.lastID["result"] = i
						break
					}
				}
			}
			return r.recvCb("result", id)
		}
	}
	if r.present("progress") {
		q.OnProgress = func(ctx context.Context, p proto.Progress) error { return r.recvCb("progress", r.progressID(p)) }
	}
	if r.present("profile") {
		q.OnProfile = func(ctx context.Context, p proto.Profile) error { return r.recvCb("profile", int(p.Rows)) }
	}
	if r.present("logs") {
		q.OnLogs = func(ctx context.Context, l []ch.Log) error {
			id := -1
			if len(l) > 0 {
				id = idFromSuffix(l[0].Text, "log")
			}
			return r.recvCb("logs", id)
		}
	}
	if r.present("log") {
		q.OnLog = func(ctx context.Context, l ch.Log) error { return r.recvCb("log", idFromSuffix(l.Text, "log")) }
	}
	if r.present("pevents") {
		q.OnProfileEvents = func(ctx context.Context, e []ch.ProfileEvent) error {
			id := -1
			if len(e) > 0 {
				id = idFromSuffix(e[0].Name, "pe")
			}
			return r.recvCb("pevents", id)
		}
	}
	if r.present("pevent") {
		q.OnProfileEvent = func(ctx context.Context, e ch.ProfileEvent) error {
			return r.recvCb("pevent", idFromSuffix(e.Name, "pe"))
		}
	}
	return q
}

// ---- observation ------------------------------------------------------------

func (r *runner) newTokens() []Token {
	snap := r.conn.Snap()
	r.mu.Lock()
	vers := make(map[int]contents, len(r.versions))
	for k, v := range r.versions {
		vers[k] = v
	}
	r.mu.Unlock()
	all := Tokenize(snap.Written[r.base:], r.cl.ServerInfo().Revision, r.sc.Compression != "disabled", vers)
	if len(all) < len(r.tokens) {
		all = append(all, Token{K: "shrunk"})
	}
	nw := append([]Token{}, all[len(r.tokens):]...)
	r.tokens = all
	return nw
}

func (r *runner) takeCbs() []Cb {
	r.mu.Lock()
	defer r.mu.Unlock()
	out := append([]Cb{}, r.cbs...)
	r.cbs = r.cbs[:0]
	return out
}

func (r *runner) count(kind string) int {
	n := 0
	for _, t := range r.tokens {
		if t.K == kind {
			n++
		}
	}
	return n
}

func (r *runner) emit(e Event) { r.events = append(r.events, e) }

// ---- moves --------------------------------------------------------------------

func (r *runner) roleState(role string) (gate string, err error, ok bool) {
	r.mu.Lock()
	defer r.mu.Unlock()
	if p := r.park[role]; p != nil {
		return gateName(p.point), p.err, true
	}
	return "", nil, false
}

// moveRole releases role from its gate and waits until it is parked again (at a gate, or in a
// blocking Read for the receiver), or has left its function.
func (r *runner) moveRole(role string) bool {
	from, _, ok := r.roleState(role)
	blocked := false
	if role == "S" && r.sInWrite {
		// the sender sat in a write the peer does not take when it was last seen.  Only a closed connection (or the
		// write deadline cancelQuery sets on the shared connection) ends that; the write may notice either by itself as
		// soon as the watcher has acted, so the sender can already be parked at its next gate: whichever way it
		// woke, this is its step out of the blocked write
		if !ok {
			if !r.conn.Snap().Closed && !r.brokeW {
				return false // still in the write, and nothing has happened that ends it
			}
			if r.expireW {
				r.expireW = false
				r.conn.ExpireWriteDeadline()
			}
			r.conn.ResumeWrite()
		}
		r.sInWrite = false
		ev := Event{"ev": "Move", "role": "S", "from": "wblocked"}
		if !r.waitFor(func() bool { return r.park["S"] != nil }) {
			r.stuck = "S did not come back from a blocked write"
			ev["to"] = "stuck"
		} else if to, err, ok := r.roleState("S"); ok {
			ev["to"] = to
			if to == "ret" {
				ev["errc"] = classOf(err)
			}
		}
		ev["wire"] = r.newTokens()
		ev["cbs"] = r.takeCbs()
		r.emit(ev)
		return true
	}
	if !ok {
		if role != "R" || !r.conn.Snap().BlockedRead {
			return false
		}
		// resume a parked Read only if it can complete
		s := r.conn.Snap()
		if !(s.Unread > 0 || s.EOF || s.Closed) {
			return false
		}
		from, blocked = "read", true
	}
	// gates that would block inside a select are released only when the select can complete
	dead := r.gctxDead()
	switch {
	case role == "S" && from == "colinfo":
		r.mu.Lock()
		can := r.infoSent > r.infoTaken || r.exited["R"] || dead
		r.mu.Unlock()
		if !can {
			return false
		}
	case role == "R" && from == "info":
		if !(r.infoSent-r.infoTaken < 1 || dead) {
			return false
		}
	}
	var p *parked
	if blocked {
		r.conn.Resume()
	} else {
		r.mu.Lock()
		p = r.park[role]
		delete(r.park, role)
		r.mu.Unlock()
		close(p.release)
	}
	ev := Event{"ev": "Move", "role": role, "from": from}
	last := "ret" // the gate after which the goroutine function returns to the errgroup
	if role == "R" {
		last = "done"
	}
	if role == "R" && from == "ret" {
		r.recvErr = p.err
		// the receiver's deferred calls run: colInfo and done are closed, then it parks once more
		if !r.waitFor(func() bool { return r.park["R"] != nil && r.park["W"] != nil }) {
			r.stuck = "the receiver did not close done"
		}
		r.mu.Lock()
		r.exited["R"] = true // colInfo is closed from here on
		r.mu.Unlock()
		ev["to"] = "done"
	} else if from == last {
		// the goroutine function returns now
		r.mu.Lock()
		r.exited[role] = true
		r.gone[role] = true
		r.mu.Unlock()
		retErr := p.err
		if role == "R" {
			retErr = r.recvErr // the done gate carries no error; the ret gate before it did
		}
		if retErr != nil && !dead {
			if !r.spinFor(r.gctxDead) {
				r.stuck = role + ": group context not cancelled after an error return"
			}
		}
		ev["to"] = "exit"
	} else {
		okw := r.waitFor(func() bool {
			if r.park[role] != nil {
				return true
			}
			return (role == "R" && r.conn.Snap().BlockedRead) || (role == "S" && r.conn.Snap().BlockedWrite)
		})
		if !okw {
			r.stuck = role + " did not reach a gate after " + from
			ev["to"] = "stuck"
		} else if to, err, ok := r.roleState(role); ok {
			ev["to"] = to
			if to == "ret" {
				ev["errc"] = classOf(err)
			}
		} else if role == "S" {
			ev["to"] = "wblocked"
			r.sInWrite = true
		} else {
			ev["to"] = "read"
		}
		// bookkeeping of the colInfo channel
		switch {
		case role == "S" && from == "colinfo" && ev["to"] == "input":
			r.mu.Lock()
			if r.infoSent > r.infoTaken {
				r.infoTaken++
			}
			r.mu.Unlock()
		case role == "R" && from == "info" && ev["to"] != "ret":
			r.mu.Lock()
			r.infoSent++
			r.mu.Unlock()
		}
	}
	ev["wire"] = r.newTokens()
	ev["cbs"] = r.takeCbs()
	r.emit(ev)
	return true
}

func (r *runner) moveTimeout() bool {
	if _, _, ok := r.roleState("R"); ok || !r.conn.Snap().BlockedRead {
		return false
	}
	if !r.conn.FireReadTimeout() {
		return false // no read deadline armed: a time-out cannot happen
	}
	ev := Event{"ev": "Move", "role": "R", "from": "read", "timeout": true}
	if !r.waitFor(func() bool { return r.park["R"] != nil }) {
		r.stuck = "R did not come back after a read time-out"
		ev["to"] = "stuck"
	} else {
		to, err, _ := r.roleState("R")
		ev["to"] = to
		if to == "ret" {
			ev["errc"] = classOf(err)
		}
	}
	ev["wire"] = r.newTokens()
	ev["cbs"] = r.takeCbs()
	r.emit(ev)
	return true
}

func (r *runner) causal(it Item) bool {
	switch it.K {
	case "eos":
		want := 2
		if r.sc.Cfg.Scn == "select" {
			want = 1
		}
		return r.count("blank") == want
	case "hdr", "data", "totals", "end":
		return r.count("query") == 1
	}
	return true
}

func (r *runner) moveServer() bool {
	if r.sidx >= len(r.sc.Cfg.Script) {
		return false
	}
	it := r.sc.Cfg.Script[r.sidx]
	if !r.causal(it) {
		return false
	}
	r.sidx++
	r.emit(Event{"ev": "Env", "a": "V", "i": r.sidx})
	if b := r.enc.Encode(it, r.sidx); len(b) > 0 {
		r.conn.Deliver(b)
	}
	if closesAfter(it.K) {
		r.conn.ServerClose()
	}
	return true
}

func (r *runner) moveCancel(how string) bool {
	err := context.Canceled
	if how == "D" {
		err = context.DeadlineExceeded
	}
	if r.caller.Err() != nil {
		return false
	}
	r.emit(Event{"ev": "Env", "a": how})
	r.caller.fire(err)
	if how == "D" && r.sInWrite && r.park["S"] == nil && r.conn.HasWriteDeadline() {
		// the sender's blocked write carries the deadline of the context and ends with it - at the sender's next step (the
		// deadline is let pass only then: a write that returned by itself would act before the schedule says so)
		r.brokeW, r.expireW = true, true
	}
	if !r.spinFor(r.gctxDead) {
		r.stuck = "group context not cancelled after the caller's context"
	}
	return true
}

func (r *runner) moveClose() bool {
	if r.cl.IsClosed() {
		return false
	}
	r.emit(Event{"ev": "Env", "a": "X"})
	_ = r.cl.Close()
	return true
}

func (r *runner) returned() bool { return r.parkedAt("D") != nil }

// slowSched (VERIF_SLOW_SCHED=<microseconds>) delays every scheduler step: the goroutines of the client get ahead of
// the scheduler, which exposes any dependence of the recorded trace on who looks first.
var slowSched = func() time.Duration {
	n, _ := strconv.Atoi(os.Getenv("VERIF_SLOW_SCHED"))
	return time.Duration(n) * time.Microsecond
}()

func (r *runner) step(m byte) bool {
	if slowSched > 0 {
		time.Sleep(slowSched)
	}
	if r.stuck != "" || r.returned() {
		return false
	}
	switch m {
	case 'S', 'R', 'W':
		return r.moveRole(string(m))
	case 'T':
		return r.moveTimeout()
	case 'V':
		return r.moveServer()
	case 'C', 'D':
		return r.moveCancel(string(m))
	case 'X':
		return r.moveClose()
	case 'B':
		// the connection breaks under the sender's blocked write, having taken a few bytes of the packet (or none)
		if !r.sInWrite || r.brokeW || r.conn.Snap().Closed || r.park["S"] != nil {
			return false
		}
		r.brokeW = true
		r.emit(Event{"ev": "Env", "a": "B"})
		r.conn.BreakBlockedWrite(r.sc.BreakBytes)
		return true
	case 'Z':
		if r.stalledW {
			return false
		}
		r.stalledW = true
		r.emit(Event{"ev": "Env", "a": "Z"})
		r.conn.StallWrites(true)
		return true
	}
	return false
}

// stuckEvent says where every goroutine of Do was when nothing could move any more.
func (r *runner) stuckEvent() Event {
	ev := Event{"ev": "Stuck", "why": r.stuck}
	for _, role := range []string{"S", "R", "W"} {
		at := "?"
		r.mu.Lock()
		gone := r.gone[role]
		r.mu.Unlock()
		switch {
		case gone:
			at = "exit"
		case role == "S" && r.sInWrite:
			at = "wblocked"
		case role == "R" && r.conn.Snap().BlockedRead:
			at = "read"
		default:
			if st, _, ok := r.roleState(role); ok {
				at = st
			} else if role == "W" {
				at = "wait" // before its first gate: waiting for the receiver to finish
			}
		}
		ev[strings.ToLower(role)] = at
	}
	ev["callerCancelled"] = r.caller.Err() != nil
	return ev
}

// Run executes the scenario and returns its trace (Begin line first).
func Run(sc Scenario) (events []Event, err error) {
	r := &runner{sc: sc, ver: 1, park: map[string]*parked{}, exited: map[string]bool{}, gone: map[string]bool{}, versions: map[int]contents{},
		lastID: map[string]int{}, doneCh: make(chan error, 1)}
	r.cond = sync.NewCond(&r.mu)
	r.conn = simconn.New()
	r.conn.SetCloseError(sc.CloseErr)
	r.caller = &manualCtx{done: make(chan struct{}), deadline: strings.Contains(sc.Sched, "D")}

	comp := map[string]ch.Compression{"disabled": ch.CompressionDisabled, "none": ch.CompressionNone, "lz4": ch.CompressionLZ4,
		"lz4hc": ch.CompressionLZ4HC, "zstd": ch.CompressionZSTD}[sc.Compression]
	// handshake (free-running): the server hello is waiting in the buffer
	var hello proto.Buffer
	(&proto.ServerHello{Name: "VerifServer", Major: 23, Minor: 8, Revision: sc.Rev, Timezone: "UTC", DisplayName: "verif", Patch: 1}).EncodeAware(&hello, proto.Version)
	r.conn.Deliver(hello.Buf)
	hctx, hcancel := context.WithTimeout(context.Background(), 10*time.Second)
	cl, err := ch.Connect(hctx, r.conn, ch.Options{Compression: comp, ReadTimeout: 50 * time.Millisecond,
		OpenTelemetryInstrumentation: sc.Otel})
	hcancel()
	if err != nil {
		return nil, fmt.Errorf("connect: %w", err)
	}
	r.cl = cl
	rev := cl.ServerInfo().Revision
	if rev > proto.Version {
		rev = proto.Version
	}
	r.enc = &serverEnc{rev: rev, compressed: sc.Compression != "disabled", insert: sc.Cfg.Scn != "select"}
	r.base = len(r.conn.Snap().Written)
	if sc.BreakAt >= 0 {
		r.conn.BreakWritesAt(r.base + sc.BreakAt)
	}
	r.conn.SetGated(true, r.onBlock)
	ch.VerifHook = r.hook
	defer func() { ch.VerifHook = nil }()

	q := r.query()
	before := runtime.NumGoroutine()
	go func() { r.doneCh <- cl.Do(r.caller, q) }()
	if !r.waitFor(func() bool { return r.park["S"] != nil && r.park["R"] != nil }) {
		return nil, errors.New("sender and receiver did not reach their first gates")
	}
	for i := 0; i < len(sc.Sched); i++ {
		r.step(sc.Sched[i])
	}
	// drain: run everything that can run; when nothing can, the server speaks; then (a few) time-outs;
	// then the caller gives up
	idleTimeouts := 0
	for guard := 0; r.stuck == "" && !r.returned() && guard < 500; guard++ {
		if r.step('W') || r.step('S') || r.step('R') || r.step('V') {
			continue
		}
		if (r.caller.Err() != nil || idleTimeouts < 2) && r.step('T') {
			idleTimeouts++
			continue
		}
		r.mu.Lock()
		allOut := r.gone["S"] && r.gone["R"] && r.gone["W"]
		r.mu.Unlock()
		if !allOut && r.step('C') {
			continue
		}
		if sc.DrainBreak && r.step('B') {
			continue // (scenarios about a connection that breaks under a blocked write: it breaks at the latest now)
		}
		// everything has left its function: Do is about to reach its last gate
		if !r.waitFor(func() bool { return r.park["D"] != nil }) {
			r.stuck = "Do did not return although nothing can move"
		}
	}
	if r.stuck != "" || !r.returned() {
		if r.stuck == "" {
			r.stuck = "drain did not terminate"
		}
		r.emit(r.stuckEvent())
		r.abort()
		return r.finish(-1), nil
	}
	// Do returns
	p := r.parkedAt("D")
	r.mu.Lock()
	delete(r.park, "D")
	r.mu.Unlock()
	close(p.release)
	var doErr error
	select {
	case doErr = <-r.doneCh:
	case <-time.After(watchdog):
		r.emit(Event{"ev": "Stuck", "why": "Do did not return after its last gate"})
		r.abort()
		return r.finish(-1), nil
	}
	ret := Event{"ev": "DoReturn", "err": classOf(doErr), "closed": cl.IsClosed(), "connClosed": r.conn.Snap().Closed,
		"wire": r.newTokens(), "cbs": r.takeCbs(), "wbytes": len(r.conn.Snap().Written) - r.base}
	var exc *ch.Exception
	if errors.As(doErr, &exc) {
		chain := []ExcLink{{Code: int(exc.Code), Name: exc.Name, Msg: exc.Message, Stack: exc.Stack}}
		for _, n := range exc.Next {
			chain = append(chain, ExcLink{Code: int(n.Code), Name: n.Name, Msg: n.Message, Stack: n.Stack})
		}
		ret["chain"] = chain
		is := []int{}
		for _, l := range chain {
			if errors.Is(doErr, proto.Error(l.Code)) {
				is = append(is, l.Code)
			}
		}
		ret["is"] = is
		ret["isAbsent"] = errors.Is(doErr, proto.Error(9999))
		ret["isErrHead"] = ch.IsErr(doErr, proto.Error(9998), exc.Code) && exc.IsCode(exc.Code)
		ret["isErrAbsent"] = ch.IsErr(doErr, proto.Error(9999)) || ch.IsErr(doErr)
		ret["isException"] = ch.IsException(doErr)
	}
	if doErr != nil {
		ret["ctxMatch"] = r.caller.Err() != nil && errors.Is(doErr, r.caller.Err())
	}
	// no goroutine started by the call outlives it
	_ = before
	orphans := 0
	r.spinFor(func() bool { orphans = libraryGoroutines(); return orphans == 0 })
	ret["orphans"] = orphans
	r.emit(ret)
	ch.VerifHook = nil

	// the next request on the same client
	r.conn.StallWrites(false)
	brokeInDo := r.conn.Snap().Broken
	if !brokeInDo {
		r.conn.BreakWritesAt(-1)
	}
	r.conn.SetGated(false, nil)
	touches := r.conn.Snap().Touches
	var pong proto.Buffer
	proto.ServerCodePong.Encode(&pong)
	r.conn.Deliver(pong.Buf)
	pctx, pcancel := context.WithTimeout(context.Background(), 5*time.Second)
	perr := cl.Ping(pctx)
	pcancel()
	r.emit(Event{"ev": "Next", "err": classOf(perr), "wire": r.newTokens(), "touched": r.conn.Snap().Touches != touches,
		"closed": cl.IsClosed()})
	wb := -1
	if brokeInDo {
		wb = 0
		for _, t := range r.tokens {
			if t.K != "partial" {
				wb++
			}
		}
	}
	_ = cl.Close()
	return r.finish(wb), nil
}

// abort unblocks everything after a stuck run so that goroutines do not pile up.
func (r *runner) abort() {
	r.caller.fire(context.Canceled)
	r.conn.StallWrites(false)
	r.conn.SetGated(false, nil)
	_ = r.conn.Close()
	r.mu.Lock()
	ch.VerifHook = nil
	for k, p := range r.park {
		close(p.release)
		delete(r.park, k)
	}
	r.mu.Unlock()
	select {
	case <-r.doneCh:
	case <-time.After(2 * time.Second):
	}
}

func (r *runner) finish(wbreak int) []Event {
	cfg := r.sc.Cfg
	cfg.Wbreak = wbreak
	cfg.CloseFails = r.sc.CloseErr
	if cfg.Script == nil {
		cfg.Script = []Item{}
	}
	if cfg.Plan == nil {
		cfg.Plan = []PlanStep{}
	}
	if cfg.Present == nil {
		cfg.Present = []string{}
	}
	chains := [][]ExcLink{}
	for i := range cfg.Script {
		if cfg.Script[i].K == "exc" {
			chains = append(chains, ExcChain(i+1))
		} else {
			chains = append(chains, []ExcLink{})
		}
	}
	begin := Event{"ev": "Begin", "id": r.sc.ID, "cfg": cfg, "chains": chains, "sched": r.sc.Sched, "rev": r.sc.Rev,
		"compression": r.sc.Compression, "breakAt": r.sc.BreakAt, "rowsPer": r.sc.RowsPer, "breakBytes": r.sc.BreakBytes, "drainBreak": r.sc.DrainBreak, "closeErr": r.sc.CloseErr}
	return append([]Event{begin}, r.events...)
}

// libraryGoroutines counts goroutines that are executing ch-go code (other than the harness itself).
func libraryGoroutines() int {
	buf := make([]byte, 1<<20)
	buf = buf[:runtime.Stack(buf, true)]
	n := 0
	for _, g := range strings.Split(string(buf), "\n\n") {
		if strings.Contains(g, "github.com/ClickHouse/ch-go.") || strings.Contains(g, "github.com/ClickHouse/ch-go/") {
			if strings.Contains(g, "verifharness/lifecycle.Run(") || strings.Contains(g, "verifharness/lifecycle.libraryGoroutines") {
				continue
			}
			n++
		}
	}
	return n
}

// RunAll runs the scenario, or every member of its sweep.
func RunAll(sc Scenario) (out [][]Event, err error) {
	stride := sc.Stride
	if stride <= 0 {
		stride = 1
	}
	switch sc.Sweep {
	case "":
		evs, err := Run(sc)
		return [][]Event{evs}, err
	case "break":
		base := sc
		base.Sweep, base.BreakAt = "", -1
		evs, err := Run(base)
		if err != nil {
			return nil, err
		}
		out = append(out, evs)
		n := 0
		for _, e := range evs {
			if e["ev"] == "DoReturn" {
				n = e["wbytes"].(int)
			}
		}
		for k := sc.Phase % stride; k < n; k += stride {
			s := base
			s.ID = fmt.Sprintf("%s/b%d", sc.ID, k)
			s.BreakAt = k
			evs, err := Run(s)
			if err != nil {
				return nil, err
			}
			out = append(out, evs)
		}
		return out, nil
	case "cut":
		rev := sc.Rev
		if rev > proto.Version {
			rev = proto.Version
		}
		enc := &serverEnc{rev: rev, compressed: sc.Compression != "disabled", insert: sc.Cfg.Scn != "select"}
		var lens []int
		total := 0
		for i, it := range sc.Cfg.Script {
			l := len(enc.Encode(it, i+1))
			lens = append(lens, l)
			total += l
		}
		for k := sc.Phase % stride; k < total; k += stride {
			s := sc
			s.Sweep = ""
			s.ID = fmt.Sprintf("%s/c%d", sc.ID, k)
			var script []Item
			rest := k
			for i, it := range sc.Cfg.Script {
				if rest >= lens[i] {
					script = append(script, it)
					rest -= lens[i]
					continue
				}
				if rest == 0 {
					script = append(script, Item{K: "cut"})
				} else {
					script = append(script, Item{K: "trunc", N: it.N, Of: it.K, Keep: rest})
				}
				break
			}
			s.Cfg.Script = script
			evs, err := Run(s)
			if err != nil {
				return nil, err
			}
			out = append(out, evs)
		}
		return out, nil
	}
	return nil, fmt.Errorf("unknown sweep %q", sc.Sweep)
}
