// Package lifecycle drives a real ch.Client through Do under a deterministic scheduler and
// records the steps as an ndjson trace for the QueryLifecycle specification.
package lifecycle

import (
	"fmt"
	"strings"
	"time"

	"github.com/ClickHouse/ch-go/compress"
	"github.com/ClickHouse/ch-go/proto"
)

// Item is one packet of a server script (kind + number of rows for log / profile-event packets).
type Item struct {
	K string `json:"k"`
	N int    `json:"n"`
	// for K == "trunc": the packet kind that is cut short and how many of its bytes arrive
	// (Of == "" means a data packet cut in half)
	Of   string `json:"of,omitempty"`
	Keep int    `json:"keep,omitempty"`
}

// ExcLink is one element of an exception chain as the script sends it.
type ExcLink struct {
	Code  int    `json:"code"`
	Name  string `json:"name"`
	Msg   string `json:"msg"`
	Stack string `json:"stack"`
}

// ExcChain returns the exception chain script item number i (1-based) carries; its depth varies
// with the index so that chains of depth 1..3 are all exercised.
func ExcChain(i int) []ExcLink {
	depth := 1 + i%3
	var out []ExcLink
	for d := 0; d < depth; d++ {
		out = append(out, ExcLink{
			Code:  60 + 10*d + i, // arbitrary distinct codes
			Name:  fmt.Sprintf("DB::Exception%d_%d", i, d),
			Msg:   fmt.Sprintf("DB::Exception%d_%d: message %d/%d", i, d, i, d),
			Stack: fmt.Sprintf("stack-%d-%d", i, d),
		})
	}
	return out
}

type serverEnc struct {
	rev        int
	compressed bool
	insert     bool // result blocks carry the INSERT schema (v UInt64, s String)
	cws        map[compress.Method]*compress.Writer
	nframe     int
}

// every frame says how it is compressed: the server changes the method from frame to frame
var frameMethods = []compress.Method{compress.None, compress.LZ4, compress.ZSTD, compress.None, compress.LZ4HC, compress.LZ4}

func (s *serverEnc) block(b *proto.Buffer, compressible bool, cols []proto.InputColumn, rows int) {
	if proto.FeatureTempTables.In(s.rev) {
		b.PutString("")
	}
	blk := proto.Block{Columns: len(cols), Rows: rows}
	if !(s.compressed && compressible) {
		if err := blk.EncodeBlock(b, s.rev, cols); err != nil {
			panic(err)
		}
		return
	}
	var tmp proto.Buffer
	if err := blk.EncodeBlock(&tmp, s.rev, cols); err != nil {
		panic(err)
	}
	m := frameMethods[s.nframe%len(frameMethods)]
	s.nframe++
	if s.cws == nil {
		s.cws = map[compress.Method]*compress.Writer{}
	}
	cw := s.cws[m]
	if cw == nil {
		cw = compress.NewWriter(compress.LevelZero, m)
		s.cws[m] = cw
	}
	if err := cw.Compress(tmp.Buf); err != nil {
		panic(err)
	}
	b.Buf = append(b.Buf, cw.Data...)
}

// ResultValues are the values script item i carries in its result block.
func ResultValues(i, rows int) ([]uint64, []string) {
	var x []uint64
	var y []string
	for r := 0; r < rows; r++ {
		x = append(x, uint64(i*10+r))
		y = append(y, fmt.Sprintf("row-%d-%d", i, r))
	}
	return x, y
}

// BigRows is the row count of a "bigdata" item: enough for multi-byte varints (row count, string lengths).
const BigRows = 300

// ResultValuesBig are the values of a "bigdata" item: 300 rows, a 200-byte and a 20000-byte string among them.
func ResultValuesBig(i int) ([]uint64, []string) {
	x, y := ResultValues(i, BigRows)
	y[0] = strings.Repeat("L", 200)
	y[1] = strings.Repeat("M", 20000)
	y[BigRows-1] = strings.Repeat("N", 128)
	return x, y
}

func (s *serverEnc) resultCols(i, rows int) []proto.InputColumn {
	x, y := ResultValues(i, rows)
	if rows == BigRows {
		x, y = ResultValuesBig(i)
	}
	cx := proto.ColUInt64(x)
	var cy proto.ColStr
	for _, v := range y {
		cy.Append(v)
	}
	nx, ny := "x", "y"
	if s.insert {
		nx, ny = "v", "s"
	}
	if s.insert {
		// the table of an INSERT has a third, enum column (its definition reaches the client's inferring input column)
		ce := new(proto.ColEnum)
		if err := ce.Infer(EnumType); err != nil {
			panic(err)
		}
		for j := range x {
			ce.Append(EnumNames[j%len(EnumNames)])
		}
		return []proto.InputColumn{{Name: nx, Data: &cx}, {Name: ny, Data: &cy}, {Name: "e", Data: ce}}
	}
	return []proto.InputColumn{{Name: nx, Data: &cx}, {Name: ny, Data: &cy}}
}

// Encode returns the bytes of script item number i (1-based index in the script).
func (s *serverEnc) Encode(it Item, i int) []byte {
	var b proto.Buffer
	switch it.K {
	case "hdr":
		proto.ServerCodeData.Encode(&b)
		s.block(&b, true, s.resultCols(i, 0), 0)
	case "end":
		proto.ServerCodeData.Encode(&b)
		s.block(&b, true, nil, 0)
	case "data":
		proto.ServerCodeData.Encode(&b)
		s.block(&b, true, s.resultCols(i, 2), 2)
	case "bigdata":
		proto.ServerCodeData.Encode(&b)
		s.block(&b, true, s.resultCols(i, BigRows), BigRows)
	case "bigprog":
		proto.ServerCodeProgress.Encode(&b)
		proto.Progress{Rows: uint64(i), Bytes: 1<<40 + uint64(i), TotalRows: 300, WroteRows: 1 << 21, WroteBytes: 1<<63 + 5, ElapsedNs: 129}.EncodeAware(&b, s.rev)
	case "longexc":
		proto.ServerCodeException.Encode(&b)
		e := proto.Exception{Code: proto.Error(60 + i), Name: strings.Repeat("N", 130), Message: strings.Repeat("m", 300), Stack: strings.Repeat("s", 20000)}
		e.EncodeAware(&b, s.rev)
	case "totals":
		proto.ServerCodeTotals.Encode(&b)
		s.block(&b, true, s.resultCols(i, 1), 1)
	case "prog":
		proto.ServerCodeProgress.Encode(&b)
		// N selects the shape of the packet: every Progress packet is a packet, whatever its counters say
		pr := proto.Progress{Rows: uint64(i), Bytes: uint64(100 + i), TotalRows: 7}
		switch it.N {
		case 1: // an insert's progress: only the write-side counters
			pr = proto.Progress{WroteRows: uint64(i), WroteBytes: 5}
		case 2: // only the elapsed time
			pr = proto.Progress{ElapsedNs: uint64(i)}
		case 3: // a heartbeat: everything zero
			pr = proto.Progress{}
		}
		pr.EncodeAware(&b, s.rev)
	case "profile":
		proto.Profile{Rows: uint64(i), Blocks: 1, Bytes: 10}.EncodeAware(&b, s.rev) // writes its own code
	case "tcols":
		proto.TableColumns{First: "", Second: fmt.Sprintf("columns format version: 1\n%d columns:\n", i)}.EncodeAware(&b, s.rev)
	case "log":
		proto.ServerCodeLog.Encode(&b)
		var l proto.Logs
		for r := 0; r < it.N; r++ {
			l.Time.Append(time.Unix(1700000000+int64(r), 0))
			l.TimeMicro.Append(uint32(r))
			l.HostName.Append("host")
			l.QueryID.Append("qid")
			l.ThreadID.Append(uint64(r))
			l.Priority.Append(int8(3))
			l.Source.Append("src")
			txt := fmt.Sprintf("log-%d-%d", i, r)
			if it.N >= 100 { // a long text in every row of a big log packet
				txt += " " + strings.Repeat("t", 150+r)
			}
			l.Text.Append(txt)
		}
		var cols []proto.InputColumn
		for _, rc := range l.Result() {
			cols = append(cols, proto.InputColumn{Name: rc.Name, Data: rc.Data.(proto.ColInput)})
		}
		s.block(&b, false, cols, it.N)
	case "pevents":
		proto.ServerProfileEvents.Encode(&b)
		var (
			host, name proto.ColStr
			tm         proto.ColDateTime
			tid        proto.ColUInt64
			typ        proto.ColInt8
			val        proto.ColInt64
		)
		for r := 0; r < it.N; r++ {
			host.Append("host")
			tm.Append(time.Unix(1700000000, 0))
			tid.Append(uint64(r))
			typ.Append(1)
			name.Append(fmt.Sprintf("pe-%d-%d", i, r))
			val.Append(int64(r))
		}
		cols := []proto.InputColumn{
			{Name: "host_name", Data: &host}, {Name: "current_time", Data: &tm}, {Name: "thread_id", Data: &tid},
			{Name: "type", Data: &typ}, {Name: "name", Data: &name}, {Name: "value", Data: &val},
		}
		s.block(&b, false, cols, it.N)
	case "exc":
		proto.ServerCodeException.Encode(&b)
		chain := ExcChain(i)
		for d, l := range chain {
			e := proto.Exception{Code: proto.Error(l.Code), Name: l.Name, Message: l.Msg, Stack: l.Stack, Nested: d < len(chain)-1}
			e.EncodeAware(&b, s.rev)
		}
	case "eos", "eosEarly":
		proto.ServerCodeEndOfStream.Encode(&b)
	case "bad":
		b.PutByte(0x63) // not a server packet code
	case "pong":
		proto.ServerCodePong.Encode(&b) // well-formed, but not expected inside a query
	case "garbage":
		// a Data packet whose block names a type the targets cannot take
		proto.ServerCodeData.Encode(&b)
		var c proto.ColInt8
		c.Append(1)
		s.block(&b, true, []proto.InputColumn{{Name: "x", Data: &c}, {Name: "zz", Data: &c}, {Name: "zzz", Data: &c}}, 1)
	case "trunc":
		// the first part of a packet; the connection is closed after it
		if it.Of != "" {
			full := s.Encode(Item{K: it.Of, N: it.N}, i)
			return full[:it.Keep]
		}
		proto.ServerCodeData.Encode(&b)
		s.block(&b, true, s.resultCols(i, 2), 2)
		b.Buf = b.Buf[:len(b.Buf)/2+1]
	case "half":
		// the first part of a Data packet, and then silence (the connection stays open)
		proto.ServerCodeData.Encode(&b)
		s.block(&b, true, s.resultCols(i, 2), 2)
		b.Buf = b.Buf[:len(b.Buf)/2+1]
	case "cut":
		// nothing: the server closes the connection
	default:
		panic("unknown script item " + it.K)
	}
	return b.Buf
}

func closesAfter(k string) bool { return k == "cut" || k == "trunc" }

// EncodeScript returns the bytes of every item of a server script (for drivers that deliver them on their own).
func EncodeScript(rev int, compressed, insert bool, items []Item) [][]byte {
	enc := &serverEnc{rev: rev, compressed: compressed, insert: insert}
	out := make([][]byte, len(items))
	for i, it := range items {
		out[i] = enc.Encode(it, i+1)
	}
	return out
}
