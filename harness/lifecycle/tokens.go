package lifecycle

import (
	"bytes"
	"errors"
	"io"

	"github.com/ClickHouse/ch-go/proto"

	"verifharness/oldquery"
)

// Token is one client packet as the specification sees it.
type Token struct {
	K string `json:"k"`
	V int    `json:"v"`
}

// EnumType is the type of the third input column; EnumNames are its names.
const EnumType = "Enum8('a' = 1, 'bb' = 2, 'c c' = 3)"

var EnumNames = []string{"a", "bb", "c c"}

// snapshot of the input columns (v UInt64, s String, e Enum8) at some version
type contents struct {
	V []uint64
	S []string
	E []string
}

func (c contents) equal(o contents) bool {
	if len(c.V) != len(o.V) || len(c.S) != len(o.S) || len(c.E) != len(o.E) {
		return false
	}
	for i := range c.E {
		if c.E[i] != o.E[i] {
			return false
		}
	}
	for i := range c.V {
		if c.V[i] != o.V[i] {
			return false
		}
	}
	for i := range c.S {
		if c.S[i] != o.S[i] {
			return false
		}
	}
	return true
}

// Tokenize parses everything the client wrote during the call into tokens. A trailing piece that
// is not a complete packet (or not a packet at all) becomes one "partial" token.
// versions maps a contents version to its snapshot; a data block is reported with the version
// whose snapshot equals the decoded rows (0 for an empty block, -1 if none matches).
func Tokenize(data []byte, rev int, compressed bool, versions map[int]contents) []Token {
	var out []Token
	r := proto.NewReader(bytes.NewReader(data))
	for {
		code, err := r.UVarInt()
		if err != nil {
			if errors.Is(err, io.EOF) {
				return out // clean end at a packet boundary
			}
			return append(out, Token{K: "partial"})
		}
		switch proto.ClientCode(code) {
		case proto.ClientCodeQuery:
			var q proto.Query
			if err := oldquery.Decode(r, rev, &q); err != nil {
				return append(out, Token{K: "partial"})
			}
			out = append(out, Token{K: "query"})
		case proto.ClientCodeData:
			var cd proto.ClientData
			if err := cd.DecodeAware(r, rev); err != nil {
				return append(out, Token{K: "partial"})
			}
			var (
				blk proto.Block
				res proto.Results
			)
			if compressed {
				r.EnableCompression()
			}
			err := blk.DecodeBlock(r, rev, res.Auto())
			if compressed {
				r.DisableCompression()
			}
			if err != nil {
				return append(out, Token{K: "partial"})
			}
			switch {
			case cd.TableName != "":
				out = append(out, Token{K: "ext"})
			case blk.Columns == 0 && blk.Rows == 0:
				out = append(out, Token{K: "blank"})
			default:
				var got contents
				for _, c := range res {
					switch d := c.Data.(type) {
					case *proto.ColUInt64:
						if c.Name == "v" {
							got.V = append(got.V, (*d)...)
						}
					case *proto.ColStr:
						if c.Name == "s" {
							for i := 0; i < d.Rows(); i++ {
								got.S = append(got.S, d.Row(i))
							}
						}
					case *proto.ColEnum:
						if c.Name == "e" {
							got.E = append(got.E, d.Values...)
						}
					}
				}
				v := -1
				if blk.Rows == 0 {
					v = 0
				} else {
					for ver, snap := range versions {
						if snap.equal(got) {
							v = ver
						}
					}
				}
				out = append(out, Token{K: "block", V: v})
			}
		case proto.ClientCodeCancel:
			out = append(out, Token{K: "cancel"})
		case proto.ClientCodePing:
			out = append(out, Token{K: "ping"})
		default:
			return append(out, Token{K: "partial"})
		}
	}
}
