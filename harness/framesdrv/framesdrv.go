// Package framesdrv builds streams of compressed frames, alters or cuts them, reads them back
// through compress.Reader (directly or under proto.Reader) and records every Read for Frames.tla.
package framesdrv

import (
	"bytes"
	"encoding/binary"
	"errors"
	"fmt"
	"io"

	"github.com/go-faster/city"
	"github.com/klauspost/compress/zstd"
	"github.com/pierrec/lz4/v4"

	"github.com/ClickHouse/ch-go/compress"
	"github.com/ClickHouse/ch-go/proto"
)

// FrameSpec describes one frame of a case.
type FrameSpec struct {
	Method  string `json:"method"`  // none | lz4 | lz4hc | zstd
	Len     int    `json:"len"`     // payload length
	Kind    string `json:"kind"`    // rand | text | zero
	Level   int    `json:"level"`   // lz4hc level (0 = default)
	Builder string `json:"builder"` // writer (compress.Writer) | indep (the harness' own frame builder)
}

// Case is one stream plus what is done to it.
type Case struct {
	ID     string      `json:"id"`
	Frames []FrameSpec `json:"frames"`
	Alter  *struct {
		Frame int `json:"frame"` // 1-based
		Off   int `json:"off"`
		Mask  int `json:"mask"`
		// Refix: recompute the checksum after the alteration (a forged frame whose checksum verifies)
		Refix bool `json:"refix,omitempty"`
	} `json:"alter,omitempty"`
	CutAt  int    `json:"cutAt"`           // absolute offset at which the stream ends; -1 = not cut
	Reads  []int  `json:"reads"`           // sizes of the Read calls (cycled)
	NRead  int    `json:"nread"`           // number of Read calls
	Via    string `json:"via"`             // reader | proto
	Sweep  string `json:"sweep,omitempty"` // "alter": every offset of frame Alter.Frame; "cut": every cut position
	Stride int    `json:"stride,omitempty"`
	Phase  int    `json:"phase,omitempty"`
}

type Event map[string]any

// payload of frame f (1-based): every (frame, position) has its own byte so that the harness can tell
// where handed-out bytes come from.
func payload(f int, fs FrameSpec) []byte {
	b := make([]byte, fs.Len)
	switch fs.Kind {
	case "zero":
		// all zero: maximally compressible; positions are not distinguishable (see match)
	case "text":
		// compressible: runs of 16 equal letters, the letter chosen pseudo-randomly per run
		for j := range b {
			x := uint32(j/16)*2246822519 + uint32(f)*3266489917
			x ^= x >> 15
			x *= 2654435761
			x ^= x >> 13
			b[j] = 'a' + byte(x%23)
		}
	default:
		x := uint32(f)*2654435761 + 12345
		for j := range b {
			x ^= x << 13
			x ^= x >> 17
			x ^= x << 5
			b[j] = byte(x >> 11)
		}
	}
	return b
}

var methodByte = map[string]byte{"none": 0x02, "lz4": 0x82, "lz4hc": 0x82, "zstd": 0x90}

// buildIndep assembles a frame without ch-go: third-party codecs + the documented header layout.
func buildIndep(fs FrameSpec, data []byte) ([]byte, error) {
	var comp []byte
	switch fs.Method {
	case "none":
		comp = append(comp, data...)
	case "lz4", "lz4hc":
		comp = make([]byte, lz4.CompressBlockBound(len(data)))
		var n int
		var err error
		if fs.Method == "lz4" {
			var c lz4.Compressor
			n, err = c.CompressBlock(data, comp)
		} else {
			c := lz4.CompressorHC{Level: lz4.Level9}
			n, err = c.CompressBlock(data, comp)
		}
		if err != nil {
			return nil, err
		}
		if n == 0 && len(data) > 0 {
			// incompressible input: lz4 reports 0; store as literals through the plain compressor bound
			var c lz4.Compressor
			n, err = c.CompressBlock(data, comp)
			if err != nil || n == 0 {
				return nil, fmt.Errorf("lz4 cannot encode %d bytes", len(data))
			}
		}
		comp = comp[:n]
	case "zstd":
		enc, err := zstd.NewWriter(nil, zstd.WithEncoderConcurrency(1))
		if err != nil {
			return nil, err
		}
		comp = enc.EncodeAll(data, nil)
		enc.Close()
	default:
		return nil, fmt.Errorf("unknown method %q", fs.Method)
	}
	fr := make([]byte, 25+len(comp))
	fr[16] = methodByte[fs.Method]
	binary.LittleEndian.PutUint32(fr[17:], uint32(9+len(comp)))
	binary.LittleEndian.PutUint32(fr[21:], uint32(len(data)))
	copy(fr[25:], comp)
	h := city.CH128(fr[16:])
	binary.LittleEndian.PutUint64(fr[0:], h.Low)
	binary.LittleEndian.PutUint64(fr[8:], h.High)
	return fr, nil
}

func buildWriter(fs FrameSpec, data []byte) ([]byte, error) {
	m := map[string]compress.Method{"none": compress.None, "lz4": compress.LZ4, "lz4hc": compress.LZ4HC, "zstd": compress.ZSTD}[fs.Method]
	w := compress.NewWriter(compress.Level(fs.Level), m)
	if err := w.Compress(data); err != nil {
		return nil, err
	}
	return append([]byte(nil), w.Data...), nil
}

// decompress with the third-party codecs only (to describe frames built by compress.Writer)
func decompIndep(frame []byte) ([]byte, error) {
	if len(frame) < 25 {
		return nil, io.ErrUnexpectedEOF
	}
	ds := int(binary.LittleEndian.Uint32(frame[21:]))
	body := frame[25:]
	switch frame[16] {
	case 0x02:
		return append([]byte(nil), body...), nil
	case 0x82:
		out := make([]byte, ds)
		n, err := lz4.UncompressBlock(body, out)
		if err != nil {
			return nil, err
		}
		return out[:n], nil
	case 0x90:
		dec, err := zstd.NewReader(nil, zstd.WithDecoderConcurrency(1))
		if err != nil {
			return nil, err
		}
		defer dec.Close()
		return dec.DecodeAll(body, nil)
	}
	return nil, fmt.Errorf("method %#x", frame[16])
}

func classOf(err error) string {
	var bad *compress.CorruptedDataErr
	switch {
	case err == nil:
		return "nil"
	case errors.As(err, &bad):
		return "corrupted"
	case errors.Is(err, io.EOF), errors.Is(err, io.ErrUnexpectedEOF):
		return "io"
	}
	return "other"
}

// matches lists where in the payloads the bytes got occur, as ranges [frame, firstOffset, lastOffset]
// of consecutive matching start offsets (at most 64 ranges).
func matches(payloads [][]byte, got []byte) [][3]int {
	out := [][3]int{}
	if len(got) == 0 {
		return out
	}
	for f, p := range payloads {
		start := -1
		for j := 0; j+len(got) <= len(p)+0; j++ {
			ok := p[j] == got[0] && bytes.Equal(p[j:j+len(got)], got)
			if ok && start < 0 {
				start = j
			}
			if !ok && start >= 0 {
				out = append(out, [3]int{f + 1, start, j - 1})
				start = -1
			}
		}
		if start >= 0 {
			out = append(out, [3]int{f + 1, start, len(p) - len(got)})
		}
		if len(out) >= 256 {
			return out[:256]
		}
	}
	return out
}

// RunAll runs a case or every member of its sweep.
func RunAll(c Case) ([][]Event, error) {
	var payloads, frames [][]byte
	for i, fs := range c.Frames {
		p := payload(i+1, fs)
		var fr []byte
		var err error
		if fs.Builder == "indep" {
			fr, err = buildIndep(fs, p)
		} else {
			fr, err = buildWriter(fs, p)
		}
		if err != nil {
			return nil, fmt.Errorf("case %s frame %d: %w", c.ID, i+1, err)
		}
		payloads = append(payloads, p)
		frames = append(frames, fr)
	}
	stride := c.Stride
	if stride <= 0 {
		stride = 1
	}
	var out [][]Event
	switch c.Sweep {
	case "":
		out = append(out, run(c, payloads, frames))
	case "alter":
		fi := c.Alter.Frame
		for off := c.Phase % stride; off < len(frames[fi-1]); off += stride {
			cc := c
			a := *c.Alter
			a.Off = off
			cc.Alter = &a
			cc.ID = fmt.Sprintf("%s/a%d", c.ID, off)
			out = append(out, run(cc, payloads, frames))
		}
	case "cut":
		total := 0
		for _, f := range frames {
			total += len(f)
		}
		for k := c.Phase % stride; k < total; k += stride {
			cc := c
			cc.CutAt = k
			cc.ID = fmt.Sprintf("%s/c%d", c.ID, k)
			out = append(out, run(cc, payloads, frames))
		}
	default:
		return nil, fmt.Errorf("unknown sweep %q", c.Sweep)
	}
	return out, nil
}

func run(c Case, payloads, frames0 [][]byte) []Event {
	frames := make([][]byte, len(frames0))
	for i := range frames0 {
		frames[i] = append([]byte(nil), frames0[i]...)
	}
	// describe the frames as built (before any alteration)
	var desc []Event
	for i, fr := range frames {
		h := city.CH128(fr[16:])
		dec, derr := decompIndep(fr)
		desc = append(desc, Event{
			"len": len(payloads[i]), "flen": len(fr), "method": c.Frames[i].Method, "builder": c.Frames[i].Builder,
			"methodByte": int(fr[16]), "raw": int(binary.LittleEndian.Uint32(fr[17:])), "data": int(binary.LittleEndian.Uint32(fr[21:])),
			"checksumOK": binary.LittleEndian.Uint64(fr[0:]) == h.Low && binary.LittleEndian.Uint64(fr[8:]) == h.High,
			"decompOK":   derr == nil && bytes.Equal(dec, payloads[i]),
		})
	}
	begin := Event{"ev": "Begin", "id": c.ID, "frames": desc, "via": c.Via}
	if c.Alter != nil {
		fr := frames[c.Alter.Frame-1]
		fr[c.Alter.Off] ^= byte(c.Alter.Mask)
		if c.Alter.Refix {
			h := city.CH128(fr[16:])
			binary.LittleEndian.PutUint64(fr[0:], h.Low)
			binary.LittleEndian.PutUint64(fr[8:], h.High)
		}
		ds := binary.LittleEndian.Uint32(fr[21:])
		rs := binary.LittleEndian.Uint32(fr[17:])
		begin["alter"] = Event{"frame": c.Alter.Frame, "off": c.Alter.Off, "mask": c.Alter.Mask, "refix": c.Alter.Refix,
			"dataHi": int(ds >> 16), "dataLo": int(ds & 0xffff), "rawHi": int(rs >> 16), "rawLo": int(rs & 0xffff)}
	} else {
		begin["alter"] = Event{"frame": 0, "off": 0, "mask": 0, "refix": false, "dataHi": 0, "dataLo": 0, "rawHi": 0, "rawLo": 0}
	}
	var stream []byte
	for _, fr := range frames {
		stream = append(stream, fr...)
	}
	cutFrame, cutOff := 0, 0
	if c.CutAt >= 0 && c.CutAt < len(stream) {
		stream = stream[:c.CutAt]
		rest := c.CutAt
		for i, fr := range frames {
			if rest < len(fr) {
				cutFrame, cutOff = i+1, rest
				break
			}
			rest -= len(fr)
		}
	}
	begin["cut"] = Event{"frame": cutFrame, "off": cutOff}
	evs := []Event{begin}

	var rd io.Reader
	src := bytes.NewReader(stream)
	if c.Via == "proto" {
		pr := proto.NewReader(src)
		pr.EnableCompression()
		rd = pr
	} else {
		rd = compress.NewReader(src)
	}
	for i := 0; i < c.NRead; i++ {
		n := 1
		if len(c.Reads) > 0 {
			n = c.Reads[i%len(c.Reads)]
		}
		buf := make([]byte, n)
		for j := range buf {
			buf[j] = 0xA5
		}
		var k int
		var err error
		pan := ""
		func() {
			defer func() {
				if p := recover(); p != nil {
					pan = fmt.Sprint(p)
				}
			}()
			k, err = rd.Read(buf)
		}()
		if pan != "" {
			// a Read that panics is not a step of the specification: recorded and the case ends
			evs = append(evs, Event{"ev": "Read", "n": n, "k": 0, "err": "panic", "panic": pan, "matches": []any{}})
			return evs
		}
		ev := Event{"ev": "Read", "n": n, "k": k, "err": classOf(err), "matches": matches(payloads, buf[:k])}
		var bad *compress.CorruptedDataErr
		if errors.As(err, &bad) {
			// both checksums are carried: the one in the frame and the one computed over the received bytes
			ev["both"] = bad.Actual != bad.Reference
		}
		evs = append(evs, ev)
	}
	return evs
}
