// Package tracew writes ndjson traces (one JSON object per line) for TLC.
package tracew

import (
	"bufio"
	"encoding/json"
	"os"
	"sync"
)

// W is a concurrency-safe ndjson writer. The sequence of lines is the order of Emit calls.
type W struct {
	mu sync.Mutex
	f  *os.File
	b  *bufio.Writer
	N  int
}

func Create(path string) (*W, error) {
	f, err := os.Create(path)
	if err != nil {
		return nil, err
	}
	return &W{f: f, b: bufio.NewWriterSize(f, 1<<20)}, nil
}

func (w *W) Emit(v any) {
	data, err := json.Marshal(v)
	if err != nil {
		panic(err)
	}
	w.mu.Lock()
	w.b.Write(data)
	w.b.WriteByte('\n')
	w.N++
	w.mu.Unlock()
}

// Flush writes the buffered lines to the file (a driver that may be killed calls it at safe points).
func (w *W) Flush() error {
	w.mu.Lock()
	defer w.mu.Unlock()
	return w.b.Flush()
}

func (w *W) Close() error {
	w.mu.Lock()
	defer w.mu.Unlock()
	if err := w.b.Flush(); err != nil {
		return err
	}
	return w.f.Close()
}

// Ints converts bytes to a JSON-friendly []int (json would base64 a []byte).
func Ints(b []byte) []int {
	r := make([]int, len(b))
	for i, v := range b {
		r[i] = int(v)
	}
	return r
}
