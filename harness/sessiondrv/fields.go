package sessiondrv

import (
	"encoding/binary"

	"github.com/ClickHouse/ch-go/proto"
)

func le64(v uint64) []byte { b := make([]byte, 8); binary.LittleEndian.PutUint64(b, v); return b }

// ClientInfoFields lists the fields of a ClientInfo in wire form (same representation as the messages driver).
func ClientInfoFields(ci proto.ClientInfo) []map[string]any {
	f := func(n string, b []byte) map[string]any { return map[string]any{"n": n, "b": ints(b)} }
	uv := func(n string, v uint64) map[string]any { return f(n, binary.AppendUvarint(nil, v)) }
	fs := []map[string]any{
		f("info.query", []byte{byte(ci.Query)}), f("info.initialUser", []byte(ci.InitialUser)), f("info.initialQueryID", []byte(ci.InitialQueryID)),
		f("info.initialAddress", []byte(ci.InitialAddress)), f("info.initialTime", le64(uint64(ci.InitialTime))),
		f("info.interface", []byte{byte(ci.Interface)}), f("info.osUser", []byte(ci.OSUser)), f("info.hostname", []byte(ci.ClientHostname)),
		f("info.clientName", []byte(ci.ClientName)), uv("info.major", uint64(ci.Major)), uv("info.minor", uint64(ci.Minor)),
		uv("info.protocolVersion", uint64(ci.ProtocolVersion)), f("info.quotaKey", []byte(ci.QuotaKey)),
		uv("info.distributedDepth", uint64(ci.DistributedDepth)), uv("info.patch", uint64(ci.Patch)),
		f("info.otel", []byte{0}), f("info.traceID", nil), f("info.spanID", nil), f("info.traceState", nil), f("info.traceFlags", nil),
	}
	c := uint64(0)
	if ci.CollaborateWithInitiator {
		c = 1
	}
	return append(fs, uv("info.collaborate", c), uv("info.replicas", uint64(ci.CountParticipatingReplicas)),
		uv("info.replicaNumber", uint64(ci.NumberOfCurrentReplica)))
}

// SettingItems lists settings (or parameters) as list items in wire form.
func SettingItems(ss []proto.Setting) []any {
	items := []any{}
	for _, s := range ss {
		var fl uint64
		if s.Important {
			fl |= 1
		}
		if s.Custom {
			fl |= 2
		}
		if s.Obsolete {
			fl |= 4
		}
		items = append(items, []any{
			map[string]any{"c": "str", "b": ints([]byte(s.Key))},
			map[string]any{"c": "wire", "b": ints(binary.AppendUvarint(nil, fl))},
			map[string]any{"c": "str", "b": ints([]byte(s.Value))},
		})
	}
	return items
}
