// Package sessiondrv runs whole sessions of the real client - Dial (handshake against a scripted
// server behaviour) and then one query - and records what the client wrote and what it reported, for
// the Messages / Wire / Handshake specifications (C02, C13).
package sessiondrv

import (
	"bytes"
	"context"
	"encoding/binary"
	"errors"
	"fmt"
	"io"
	"net"
	"time"

	"github.com/go-faster/city"
	"github.com/klauspost/compress/zstd"
	"github.com/pierrec/lz4/v4"

	ch "github.com/ClickHouse/ch-go"
	"github.com/ClickHouse/ch-go/proto"

	"verifharness/colgen"
	"verifharness/oldquery"
	"verifharness/simconn"
)

type KV struct {
	K string `json:"k"`
	V string `json:"v"`
	I bool   `json:"i"`
}

// Session is one case.
type Session struct {
	ID        string `json:"id"`
	ClientRev int    `json:"crev"` // Options.ProtocolVersion (0 = library default)
	ServerRev int    `json:"srev"`
	Behaviour string `json:"behaviour"` // hello | late | exception | other | garbage | cut | truncated | stall
	DelayMs   int    `json:"delayMs"`
	CancelMs  int    `json:"cancelMs"` // > 0: the caller cancels the context this long after Dial began
	Database  string `json:"database"`
	User      string `json:"user"`
	Password  string `json:"password"`
	QuotaKey  string `json:"quotaKey"`
	// the query (only run after a successful handshake, when Scn != "")
	Scn          string `json:"scn"` // "" | select | insert | stream
	Compression  string `json:"compression"`
	QueryID      string `json:"queryID"`
	Body         string `json:"body"`
	Secret       string `json:"secret"`
	QQuotaKey    string `json:"qQuotaKey"`
	InitialUser  string `json:"initialUser"`
	ConnSettings []KV   `json:"connSettings"`
	Settings     []KV   `json:"settings"`
	Params       []KV   `json:"params"`
	Ext          bool   `json:"ext"`
	ExtTable     string `json:"extTable"`
	Rounds       int    `json:"rounds"` // input blocks (stream: one per OnInput round)
	Seed         int64  `json:"seed"`
	BigRows      int    `json:"bigRows"` // > 0: the first input block and the external-data block have this many incompressible rows
	// further queries on the same connection (their query fields only; connection-level fields come from this one)
	More []Session `json:"more"`
}

type Event map[string]any

const (
	dialTimeout      = 60 * time.Millisecond
	readTimeout      = 40 * time.Millisecond
	handshakeTimeout = 600 * time.Millisecond
)

type dialer struct {
	c      *simconn.Conn
	serve  func(c *simconn.Conn)
	dialed int
}

func (d *dialer) DialContext(ctx context.Context, network, address string) (net.Conn, error) {
	d.dialed++
	go d.serve(d.c)
	return d.c, nil
}

var errHang = errors.New("hang: Do did not return within 15 s")

func classOf(err error) string {
	if err == errHang {
		return "hang"
	}
	var exc *ch.Exception
	switch {
	case err == nil:
		return "nil"
	case errors.As(err, &exc):
		return "exc"
	case errors.Is(err, context.Canceled), errors.Is(err, context.DeadlineExceeded):
		return "ctx"
	}
	return "err"
}

func ints(b []byte) []int { return colgen.Ints(b) }

// Run executes one session.
func Run(s Session) ([]Event, error) {
	conn := simconn.New()
	var helloSeen proto.ClientHello
	helloOK := make(chan bool, 1)
	excChain := []map[string]any{{"code": 516, "name": "DB::Exception", "msg": "DB::Exception: auth failed for " + s.User, "stack": "st"}}
	sent := proto.ServerHello{Name: "VerifSrv", Major: 24, Minor: 3, Revision: s.ServerRev, Timezone: "Europe/Berlin", DisplayName: "verif-1", Patch: 7}
	var srvQuery *queryServer
	serve := func(c *simconn.Conn) {
		r := proto.NewReader(c.ServerReader())
		code, err := r.UVarInt()
		if err != nil || code != 0 {
			helloOK <- false
			return
		}
		if err := helloSeen.Decode(r); err != nil {
			helloOK <- false
			return
		}
		helloOK <- true
		var b proto.Buffer
		switch s.Behaviour {
		case "hello", "late":
			if s.Behaviour == "late" {
				time.Sleep(time.Duration(s.DelayMs) * time.Millisecond)
			}
			sent.EncodeAware(&b, helloSeen.ProtocolVersion)
			c.Deliver(b.Buf)
		case "exception":
			proto.ServerCodeException.Encode(&b)
			(&proto.Exception{Code: 516, Name: "DB::Exception", Message: "DB::Exception: auth failed for " + s.User, Stack: "st"}).EncodeAware(&b, 0)
			c.Deliver(b.Buf)
			return
		case "other":
			proto.ServerCodePong.Encode(&b)
			c.Deliver(b.Buf)
			return
		case "garbage":
			c.Deliver([]byte{0x7b, 0x22, 0x65, 0x72, 0x72, 0x22, 0x3a})
			return
		case "cut":
			c.ServerClose()
			return
		case "truncated":
			sent.EncodeAware(&b, helloSeen.ProtocolVersion)
			c.Deliver(b.Buf[:len(b.Buf)/2])
			c.ServerClose()
			return
		case "stall":
			return
		case "blockw":
			// the hello is sent, but from now on the server does not read: whatever the client writes next blocks
			c.StallWrites(true)
			sent.EncodeAware(&b, helloSeen.ProtocolVersion)
			c.Deliver(b.Buf)
			return
		}
		if s.Scn != "" {
			srvQuery = &queryServer{s: s, r: r, c: c}
			srvQuery.run(min(helloSeen.ProtocolVersion, s.ServerRev))
		}
	}
	d := &dialer{c: conn, serve: serve}
	comp := map[string]ch.Compression{"": ch.CompressionDisabled, "disabled": ch.CompressionDisabled, "none": ch.CompressionNone, "lz4": ch.CompressionLZ4,
		"lz4hc": ch.CompressionLZ4HC, "zstd": ch.CompressionZSTD}[s.Compression]
	var cs []ch.Setting
	for _, kv := range s.ConnSettings {
		cs = append(cs, ch.Setting{Key: kv.K, Value: kv.V, Important: kv.I})
	}
	opts := ch.Options{Dialer: d, ProtocolVersion: s.ClientRev, Database: s.Database, User: s.User, Password: s.Password, QuotaKey: s.QuotaKey,
		Compression: comp, ReadTimeout: readTimeout, HandshakeTimeout: handshakeTimeout, Settings: cs, ClientName: "verif",
		// shorter than the late hello's delay: the time allowed for dialling must not bound the handshake
		DialTimeout: dialTimeout}
	t0 := time.Now()
	dctx := context.Background()
	if s.CancelMs > 0 {
		var cancel context.CancelFunc
		dctx, cancel = context.WithCancel(dctx)
		tm := time.AfterFunc(time.Duration(s.CancelMs)*time.Millisecond, cancel)
		defer tm.Stop()
		defer cancel()
	}
	cl, err := ch.Dial(dctx, opts)
	elapsed := time.Since(t0)
	conn.StallWrites(false)
	hs := conn.Snap()
	ev := Event{"ev": "Handshake", "id": s.ID, "crev": s.ClientRev, "srev": s.ServerRev, "behaviour": s.Behaviour, "delayMs": s.DelayMs, "cancelMs": s.CancelMs,
		"result": classOf(err), "dialed": d.dialed, "connClosed": hs.Closed, "closeCalls": hs.CloseCalls, "elapsedMs": int(elapsed / time.Millisecond),
		"readTimeoutMs": int(readTimeout / time.Millisecond), "handshakeTimeoutMs": int(handshakeTimeout / time.Millisecond),
		"written": ints(hs.Written), "quotaKey": ints([]byte(s.QuotaKey)), "usable": cl != nil}
	ok := false
	select {
	case ok = <-helloOK:
	case <-time.After(2 * time.Second):
	}
	ev["helloParsed"] = ok
	crev := s.ClientRev
	if crev == 0 {
		crev = proto.Version
	}
	ev["crevEff"] = crev
	// the hello as the caller configured it (name is chosen by the library: taken from what the server parsed)
	ev["hello"] = []map[string]any{
		{"n": "code", "b": []int{0}}, {"n": "name", "b": ints([]byte(helloSeen.Name))}, {"n": "major", "b": ints(binary.AppendUvarint(nil, uint64(helloSeen.Major)))},
		{"n": "minor", "b": ints(binary.AppendUvarint(nil, uint64(helloSeen.Minor)))}, {"n": "protocolVersion", "b": ints(binary.AppendUvarint(nil, uint64(crev)))},
		{"n": "database", "b": ints([]byte(orDefault(s.Database, "default")))}, {"n": "user", "b": ints([]byte(orDefault(s.User, "default")))},
		{"n": "password", "b": ints([]byte(s.Password))}}
	var exc *ch.Exception
	if errors.As(err, &exc) {
		ev["excGot"] = []map[string]any{{"code": int(exc.Code), "name": exc.Name, "msg": exc.Message, "stack": exc.Stack}}
	} else {
		ev["excGot"] = []map[string]any{}
	}
	ev["excSent"] = excChain
	if cl != nil {
		si := cl.ServerInfo()
		ev["serverInfo"] = map[string]any{"name": si.Name, "major": si.Major, "minor": si.Minor, "revision": si.Revision, "timezone": si.Timezone,
			"displayName": si.DisplayName, "patch": si.Patch}
	} else {
		ev["serverInfo"] = map[string]any{}
	}
	ev["serverSent"] = map[string]any{"name": sent.Name, "major": sent.Major, "minor": sent.Minor, "revision": sent.Revision, "timezone": sent.Timezone,
		"displayName": sent.DisplayName, "patch": sent.Patch}
	evs := []Event{ev}
	if cl == nil || s.Scn == "" {
		if cl != nil {
			_ = cl.Close()
		}
		conn.StopServer()
		return evs, nil
	}
	base := len(hs.Written)
	qe, err := runQuery(s, cl, conn, base, min(crev, s.ServerRev))
	if err != nil {
		return nil, err
	}
	evs = append(evs, qe)
	for i, m := range s.More {
		if cl.IsClosed() {
			break
		}
		m.ID = fmt.Sprintf("%s+%d", s.ID, i+1)
		m.Compression, m.ConnSettings = s.Compression, s.ConnSettings
		qe, err := runQuery(m, cl, conn, len(conn.Snap().Written), min(crev, s.ServerRev))
		if err != nil {
			return nil, err
		}
		evs = append(evs, qe)
	}
	_ = cl.Close()
	conn.StopServer()
	return evs, nil
}

func orDefault(s, d string) string {
	if s == "" {
		return d
	}
	return s
}

// queryServer reads the client's request and answers it minimally.
type queryServer struct {
	s Session
	r *proto.Reader
	c *simconn.Conn
}

func (q *queryServer) readDataPacket(rev int) (blank bool, err error) {
	code, err := q.r.UVarInt()
	if err != nil {
		return false, err
	}
	if proto.ClientCode(code) != proto.ClientCodeData {
		return false, fmt.Errorf("unexpected client packet %d", code)
	}
	var cd proto.ClientData
	if err := cd.DecodeAware(q.r, rev); err != nil {
		return false, err
	}
	compressed := q.s.Compression != "" && q.s.Compression != "disabled"
	if compressed {
		q.r.EnableCompression()
		defer q.r.DisableCompression()
	}
	var blk proto.Block
	var res proto.Results
	if err := blk.DecodeBlock(q.r, rev, res.Auto()); err != nil {
		return false, err
	}
	return blk.Columns == 0 && blk.Rows == 0, nil
}

func (q *queryServer) run(rev int) {
	// addendum
	if proto.FeatureAddendum.In(rev) {
		if _, err := q.r.Str(); err != nil {
			return
		}
	}
	q.one(rev, q.s.Scn)
	for _, m := range q.s.More {
		q.one(rev, m.Scn)
	}
}

// one serves one query.
func (q *queryServer) one(rev int, scn string) {
	code, err := q.r.UVarInt()
	if err != nil || proto.ClientCode(code) != proto.ClientCodeQuery {
		return
	}
	var qq proto.Query
	if err := oldquery.Decode(q.r, rev, &qq); err != nil {
		return
	}
	for { // external tables until the blank block
		blank, err := q.readDataPacket(rev)
		if err != nil {
			return
		}
		if blank {
			break
		}
	}
	var b proto.Buffer
	if scn != "select" {
		// header block for the schema exchange
		proto.ServerCodeData.Encode(&b)
		if proto.FeatureTempTables.In(rev) {
			b.PutString("")
		}
		var v proto.ColUInt64
		var st proto.ColStr
		blk := proto.Block{Columns: 2, Rows: 0}
		var tmp proto.Buffer
		_ = blk.EncodeBlock(&tmp, rev, []proto.InputColumn{{Name: "v", Data: &v}, {Name: "s", Data: &st}})
		if q.s.Compression != "" && q.s.Compression != "disabled" {
			fr := frameIndep(tmp.Buf)
			b.Buf = append(b.Buf, fr...)
		} else {
			b.Buf = append(b.Buf, tmp.Buf...)
		}
		q.c.Deliver(b.Buf)
		b.Reset()
		for {
			blank, err := q.readDataPacket(rev)
			if err != nil {
				return
			}
			if blank {
				break
			}
		}
	}
	proto.ServerCodeEndOfStream.Encode(&b)
	q.c.Deliver(b.Buf)
}

// frameIndep wraps data in an uncompressed (method None) frame built without ch-go.
func frameIndep(data []byte) []byte {
	fr := make([]byte, 25+len(data))
	fr[16] = 0x02
	binary.LittleEndian.PutUint32(fr[17:], uint32(9+len(data)))
	binary.LittleEndian.PutUint32(fr[21:], uint32(len(data)))
	copy(fr[25:], data)
	h := city.CH128(fr[16:])
	binary.LittleEndian.PutUint64(fr[0:], h.Low)
	binary.LittleEndian.PutUint64(fr[8:], h.High)
	return fr
}

func decompIndep(frame []byte) ([]byte, bool) {
	ds := int(binary.LittleEndian.Uint32(frame[21:]))
	body := frame[25:]
	h := city.CH128(frame[16:])
	sumOK := binary.LittleEndian.Uint64(frame[0:]) == h.Low && binary.LittleEndian.Uint64(frame[8:]) == h.High
	switch frame[16] {
	case 0x02:
		return append([]byte(nil), body...), sumOK
	case 0x82:
		out := make([]byte, ds)
		n, err := lz4.UncompressBlock(body, out)
		if err != nil {
			return nil, false
		}
		return out[:n], sumOK
	case 0x90:
		dec, err := zstd.NewReader(nil, zstd.WithDecoderConcurrency(1))
		if err != nil {
			return nil, false
		}
		defer dec.Close()
		out, err := dec.DecodeAll(body, nil)
		return out, sumOK && err == nil
	}
	return nil, false
}

var _ = io.EOF
var _ = bytes.Equal

type packet struct {
	Table  string           `json:"table"`
	TableB []int            `json:"tableB"`
	Names  []any            `json:"names"`
	Types  []any            `json:"types"`
	ASTs   []map[string]any `json:"asts"`
	Rows   int              `json:"rows"`
	Cols   []any            `json:"cols"`
}

func blankPacket() packet {
	return packet{Table: "", Names: []any{}, Types: []any{}, ASTs: []map[string]any{}, Rows: 0, Cols: []any{}}
}

// runQuery executes the query of the session and describes what the client must have written.
func runQuery(s Session, cl *ch.Client, conn *simconn.Conn, base, rev int) (Event, error) {
	b := colgen.NewBases()
	var (
		colV    = b.U64.New()
		colS    = b.Str.New()
		packets []packet
	)
	q := ch.Query{Body: s.Body, QueryID: s.QueryID, Secret: s.Secret, QuotaKey: s.QQuotaKey, InitialUser: s.InitialUser}
	for _, kv := range s.Settings {
		q.Settings = append(q.Settings, ch.Setting{Key: kv.K, Value: kv.V, Important: kv.I})
	}
	for _, kv := range s.Params {
		q.Parameters = append(q.Parameters, proto.Parameter{Key: kv.K, Value: kv.V})
	}
	if s.Ext {
		e := b.U8.New()
		vals := []any{[]int{7}, []int{9}}
		if s.BigRows > 0 {
			// (beyond 16 KiB even after compression)
			vals = vals[:0]
			z := uint64(s.Seed)*2654435761 + 12345
			for i := 0; i < 9*s.BigRows; i++ {
				z = z*6364136223846793005 + 1442695040888963407
				vals = append(vals, []int{int(z >> 56)})
			}
		}
		for _, v := range vals {
			e.Append(v)
		}
		q.ExternalData = []proto.InputColumn{{Name: "e", Data: e.Column()}}
		q.ExternalTable = s.ExtTable
		tbl := s.ExtTable
		if tbl == "" {
			tbl = "_data"
		}
		packets = append(packets, packet{Table: tbl, Names: []any{ints([]byte("e"))}, Types: []any{ints([]byte("UInt8"))},
			ASTs: []map[string]any{b.U8.AST()}, Rows: len(vals), Cols: []any{vals}})
	}
	packets = append(packets, blankPacket())
	fill := func(round int) (vv, sv []any) {
		n := 1 + (round+int(s.Seed))%3
		big := s.BigRows > 0 && round == 0
		if big {
			n = s.BigRows
		}
		for i := 0; i < n; i++ {
			x := uint64(round*1000 + i)
			if big {
				z := uint64(s.Seed)*1000003 + uint64(i) + 0x9e3779b97f4a7c15
				z = (z ^ (z >> 30)) * 0xbf58476d1ce4e5b9
				z = (z ^ (z >> 27)) * 0x94d049bb133111eb
				x = z ^ (z >> 31)
			}
			vv = append(vv, ints(binary.LittleEndian.AppendUint64(nil, x)))
			sv = append(sv, ints([]byte(fmt.Sprintf("r%d-%d-%s", round, i, s.ID))))
		}
		return
	}
	setRound := func(round int) {
		colV.Column().Reset()
		colS.Column().Reset()
		vv, sv := fill(round)
		for i := range vv {
			colV.Append(vv[i])
			colS.Append(sv[i])
		}
		packets = append(packets, packet{Table: "", Names: []any{ints([]byte("v")), ints([]byte("s"))},
			Types: []any{ints([]byte("UInt64")), ints([]byte("String"))}, ASTs: []map[string]any{b.U64.AST(), b.Str.AST()},
			Rows: len(vv), Cols: []any{vv, sv}})
	}
	if s.Scn != "select" {
		q.Input = proto.Input{{Name: "v", Data: colV.Column()}, {Name: "s", Data: colS.Column()}}
		setRound(0)
		if s.Scn == "stream" {
			round := 0
			q.OnInput = func(ctx context.Context) error {
				round++
				if round >= s.Rounds {
					colV.Column().Reset()
					colS.Column().Reset()
					return io.EOF
				}
				setRound(round)
				return nil
			}
		}
	}
	ctx, cancel := context.WithTimeout(context.Background(), 5*time.Second)
	var err error
	doDone := make(chan struct{})
	go func() { err = cl.Do(ctx, q); close(doDone) }()
	select {
	case <-doDone:
	case <-time.After(15 * time.Second):
		// Do neither finished nor honoured its context's deadline: the connection is closed under it and the run
		// is recorded as hung (which no specification accepts)
		_ = conn.Close()
		select {
		case <-doDone:
		case <-time.After(5 * time.Second):
		}
		err = errHang
	}
	cancel()
	if s.Scn != "select" {
		packets = append(packets, blankPacket())
	}
	for i := range packets {
		packets[i].TableB = ints([]byte(packets[i].Table))
	}
	stream := conn.Snap().Written[base:]
	ev := Event{"ev": "ClientStream", "id": s.ID, "rev": rev, "err": classOf(err), "compressed": s.Compression != "" && s.Compression != "disabled",
		"method": map[string]int{"": 0, "disabled": 0, "none": 2, "lz4": 130, "lz4hc": 130, "zstd": 144}[s.Compression],
		"stream": ints(stream), "packets": packets}
	// fields of the Query packet: what the caller asked for; the few values the library chooses itself (its name and
	// version, the local address, the start time) are read back from the packet with the library's decoder - they only
	// have to make the equation hold
	var dq proto.Query
	free := proto.ClientInfo{}
	if len(stream) > 0 {
		r := proto.NewReader(bytes.NewReader(stream[1:]))
		if err := oldquery.Decode(r, rev, &dq); err == nil {
			free = dq.Info
		}
	}
	info := proto.ClientInfo{
		ProtocolVersion: rev, Major: free.Major, Minor: free.Minor, Patch: free.Patch, Interface: proto.InterfaceTCP, Query: proto.ClientQueryInitial,
		InitialUser: s.InitialUser, InitialQueryID: s.QueryID, InitialAddress: conn.LocalAddr().String(), InitialTime: free.InitialTime,
		ClientName: free.ClientName, QuotaKey: s.QQuotaKey,
	}
	var all []proto.Setting
	for _, kv := range s.ConnSettings {
		all = append(all, proto.Setting{Key: kv.K, Value: kv.V, Important: kv.I})
	}
	for _, kv := range s.Settings {
		all = append(all, proto.Setting{Key: kv.K, Value: kv.V, Important: kv.I})
	}
	var ps []proto.Setting
	for _, kv := range s.Params {
		ps = append(ps, proto.Setting{Key: kv.K, Value: kv.V, Custom: true})
	}
	compFlag := uint64(0)
	if s.Compression != "" && s.Compression != "disabled" {
		compFlag = 1
	}
	fields := []map[string]any{{"n": "code", "b": []int{1}}, {"n": "id", "b": ints([]byte(s.QueryID))}}
	fields = append(fields, ClientInfoFields(info)...)
	fields = append(fields, map[string]any{"n": "settings", "b": SettingItems(all)}, map[string]any{"n": "settingsEnd", "b": []int{}},
		map[string]any{"n": "secret", "b": ints([]byte(s.Secret))}, map[string]any{"n": "stage", "b": []int{2}},
		map[string]any{"n": "compression", "b": ints(binary.AppendUvarint(nil, compFlag))}, map[string]any{"n": "body", "b": ints([]byte(s.Body))},
		map[string]any{"n": "parameters", "b": SettingItems(ps)}, map[string]any{"n": "parametersEnd", "b": []int{}})
	ev["fields"] = fields
	// projection of the compressed frames: found by walking the stream with the documented header layout
	frames := []map[string]any{}
	if compFlag == 1 {
		// skip the query packet using the library's decoder, then follow code, table name, frame
		r := bytes.NewReader(stream)
		pr := proto.NewReader(r)
		if _, err := pr.UVarInt(); err == nil {
			var skip proto.Query
			_ = oldquery.Decode(pr, rev, &skip)
		}
		// the reader buffered ahead: recompute the offset by re-encoding length is not possible, so search for
		// the frames structurally from the known packet sequence instead
		off := queryLen(stream, rev)
		for range packets {
			if off < 0 || off >= len(stream) {
				break
			}
			off++ // packet code
			if rev >= 50264 {
				l, n := binary.Uvarint(stream[off:])
				off += n + int(l)
			}
			if off+25 > len(stream) {
				break
			}
			raw := int(binary.LittleEndian.Uint32(stream[off+17:]))
			end := off + 16 + raw
			if end > len(stream) || raw < 9 {
				break
			}
			payload, sumOK := decompIndep(stream[off:end])
			frames = append(frames, map[string]any{"payload": ints(payload), "checksumOK": sumOK})
			off = end
		}
	}
	ev["frames"] = frames
	return ev, nil
}

// queryLen finds the end of the Query packet by decoding it with the library (offsets only).
func queryLen(stream []byte, rev int) int {
	for n := 1; n <= len(stream); n++ {
		r := proto.NewReader(bytes.NewReader(stream[1:n]))
		var q proto.Query
		if oldquery.Decode(r, rev, &q) == nil {
			return n
		}
	}
	return -1
}
