// Package pooldrv drives a real chpool.Pool through operation histories and records what a user
// of the pool can observe, as an ndjson trace for Pool.tla.
package pooldrv

import (
	"context"
	"errors"
	"fmt"
	"net"
	"strings"
	"sync"
	"time"

	ch "github.com/ClickHouse/ch-go"
	"github.com/ClickHouse/ch-go/chpool"
	"github.com/ClickHouse/ch-go/proto"

	"verifharness/simconn"
)

// Op is one step of a history.
type Op struct {
	Op  string `json:"op"` // Acquire | Use | Release | StaleRelease | HC | Close | Sleep | FailNextDial | PoolDo
	U   string `json:"u,omitempty"`
	How string `json:"how,omitempty"` // Use: ok | exc | transport | cancelled | ping
	K   int    `json:"k,omitempty"`   // StaleRelease: which released handle of u; Sleep: milliseconds
}

// History is one behaviour to replay.
type History struct {
	ID     string   `json:"id"`
	Users  []string `json:"users"`
	Max    int      `json:"max"`
	MinC   int      `json:"minc"`
	LifeMs int      `json:"lifeMs"`
	IdleMs int      `json:"idleMs"`
	Ops    []Op     `json:"ops"`
}

type Event map[string]any

// one dialed connection and its scripted server
type sconn struct {
	id       int
	c        *simconn.Conn
	created  time.Time
	mu       sync.Mutex
	requests int
	lastRel  time.Time
}

type dialer struct {
	mu       sync.Mutex
	conns    []*sconn
	failNext bool
}

func (d *dialer) DialContext(ctx context.Context, network, address string) (net.Conn, error) {
	d.mu.Lock()
	sc := &sconn{id: len(d.conns) + 1, c: simconn.New(), created: time.Now()}
	sc.lastRel = sc.created
	d.conns = append(d.conns, sc)
	fail := d.failNext
	d.failNext = false
	d.mu.Unlock()
	go serve(sc, fail)
	return sc.c, nil
}

func (d *dialer) byConn(c net.Conn) *sconn {
	d.mu.Lock()
	defer d.mu.Unlock()
	for _, sc := range d.conns {
		if net.Conn(sc.c) == c {
			return sc
		}
	}
	return nil
}

// serve is the scripted server of one connection: handshake, then Ping -> Pong and queries whose
// body says what to answer.
func serve(sc *sconn, failHandshake bool) {
	r := proto.NewReader(sc.c.ServerReader())
	code, err := r.UVarInt()
	if err != nil || proto.ClientCode(code) != proto.ClientCodeHello {
		return
	}
	var h proto.ClientHello
	if err := h.Decode(r); err != nil {
		return
	}
	var b proto.Buffer
	if failHandshake {
		proto.ServerCodeException.Encode(&b)
		(&proto.Exception{Code: 516, Name: "DB::Exception", Message: "auth failed", Stack: ""}).EncodeAware(&b, h.ProtocolVersion)
		sc.c.Deliver(b.Buf)
		return
	}
	rev := h.ProtocolVersion
	(&proto.ServerHello{Name: "VerifPoolServer", Major: 23, Minor: 8, Revision: rev, Timezone: "UTC", DisplayName: "v", Patch: 1}).EncodeAware(&b, rev)
	sc.c.Deliver(b.Buf)
	if proto.FeatureAddendum.In(rev) {
		if _, err := r.Str(); err != nil {
			return
		}
	}
	for {
		code, err := r.UVarInt()
		if err != nil {
			return
		}
		switch proto.ClientCode(code) {
		case proto.ClientCodePing:
			sc.mu.Lock()
			sc.requests++
			sc.mu.Unlock()
			sc.c.Deliver([]byte{byte(proto.ServerCodePong)})
		case proto.ClientCodeQuery:
			var q proto.Query
			if err := q.DecodeAware(r, rev); err != nil {
				return
			}
			// the (empty) external-data terminator
			if c2, err := r.UVarInt(); err != nil || proto.ClientCode(c2) != proto.ClientCodeData {
				return
			}
			var cd proto.ClientData
			if err := cd.DecodeAware(r, rev); err != nil {
				return
			}
			var blk proto.Block
			var res proto.Results
			if err := blk.DecodeBlock(r, rev, res.Auto()); err != nil {
				return
			}
			sc.mu.Lock()
			sc.requests++
			sc.mu.Unlock()
			var out proto.Buffer
			if zone, ok := strings.CutPrefix(q.Body, "zone:"); ok {
				// a result block with a column in a named time zone (the client's column adopts it), then the end
				loc, err := time.LoadLocation(zone)
				if err != nil {
					loc = time.UTC
				}
				ts := &proto.ColDateTime{Location: loc}
				ts.Append(time.Unix(1700000000, 0))
				proto.ServerCodeData.Encode(&out)
				out.PutString("")
				if err := (proto.Block{Columns: 1, Rows: 1}).EncodeBlock(&out, rev, []proto.InputColumn{{Name: "ts", Data: ts}}); err != nil {
					return
				}
				proto.ServerCodeEndOfStream.Encode(&out)
				sc.c.Deliver(out.Buf)
				continue
			}
			switch q.Body {
			case "ok":
				proto.ServerCodeEndOfStream.Encode(&out)
				sc.c.Deliver(out.Buf)
			case "exc":
				proto.ServerCodeException.Encode(&out)
				(&proto.Exception{Code: 60, Name: "DB::Exception", Message: "no table", Stack: "st"}).EncodeAware(&out, rev)
				sc.c.Deliver(out.Buf)
			case "transport":
				sc.c.ServerClose()
			case "cancelled":
				// say nothing: the caller gives up
			}
		case proto.ClientCodeCancel:
		default:
			return
		}
	}
}

func classOf(err error) string {
	var exc *ch.Exception
	switch {
	case err == nil:
		return "nil"
	case errors.As(err, &exc):
		return "exc"
	case errors.Is(err, context.Canceled), errors.Is(err, context.DeadlineExceeded):
		return "ctx"
	case errors.Is(err, ch.ErrClosed):
		return "closed"
	}
	return "err"
}

type handle struct {
	cl   *chpool.Client
	conn int
}

type runner struct {
	h      History
	d      *dialer
	p      *chpool.Pool
	live   map[string]*handle
	stale  map[string][]*handle
	events []Event
	closed chan struct{}

	agesBefore, idlesBefore []int
}

func (r *runner) common(e Event) Event {
	st := r.p.Stat()
	e["stat"] = map[string]int{"acquired": int(st.AcquiredResources()), "idle": int(st.IdleResources()),
		"total": int(st.TotalResources()), "constructing": int(st.ConstructingResources())}
	r.d.mu.Lock()
	now := time.Now()
	closed := []int{}
	agesAfter := []int{}
	idlesAfter := []int{}
	for _, sc := range r.d.conns {
		if sc.c.Snap().Closed {
			closed = append(closed, sc.id)
		}
		agesAfter = append(agesAfter, int(now.Sub(sc.created)/time.Millisecond))
		sc.mu.Lock()
		idlesAfter = append(idlesAfter, int(now.Sub(sc.lastRel)/time.Millisecond))
		sc.mu.Unlock()
	}
	e["dials"] = len(r.d.conns)
	r.d.mu.Unlock()
	e["closed"] = closed
	// the pool took its decisions somewhere between the two measurements
	for len(r.agesBefore) < len(agesAfter) {
		r.agesBefore = append(r.agesBefore, 0)
		r.idlesBefore = append(r.idlesBefore, 0)
	}
	e["ages"] = r.agesBefore
	e["idles"] = r.idlesBefore
	e["agesAfter"] = agesAfter
	e["idlesAfter"] = idlesAfter
	return e
}

func (r *runner) emit(e Event) { r.events = append(r.events, r.common(e)) }

func settle() { time.Sleep(400 * time.Microsecond) }

// Run replays one history.
func Run(h History) (events []Event, err error) {
	r := &runner{h: h, d: &dialer{}, live: map[string]*handle{}, stale: map[string][]*handle{}}
	ctx := context.Background()
	p, err := chpool.New(ctx, chpool.Options{
		ClientOptions:     ch.Options{Dialer: r.d, ReadTimeout: 2 * time.Second, HandshakeTimeout: 5 * time.Second},
		MaxConns:          int32(h.Max),
		MinConns:          int32(h.MinC),
		MaxConnLifetime:   time.Duration(h.LifeMs) * time.Millisecond,
		MaxConnIdleTime:   time.Duration(h.IdleMs) * time.Millisecond,
		HealthCheckPeriod: time.Hour,
	})
	if err != nil {
		return nil, err
	}
	r.p = p
	r.events = append(r.events, Event{"ev": "Begin", "id": h.ID, "users": h.Users, "max": h.Max, "minc": h.MinC,
		"lifeMs": h.LifeMs, "idleMs": h.IdleMs})
	for _, op := range h.Ops {
		r.do(op)
	}
	// clean up without recording: release everything, close the pool
	for _, hd := range r.live {
		func() { defer func() { recover() }(); hd.cl.Release() }()
	}
	done := make(chan struct{})
	go func() { p.Close(); close(done) }()
	select {
	case <-done:
	case <-time.After(3 * time.Second):
	}
	r.d.mu.Lock()
	for _, sc := range r.d.conns {
		sc.c.StopServer()
	}
	r.d.mu.Unlock()
	return r.events, nil
}

// stamp measures ages and idle times before an operation starts.
func (r *runner) stamp() {
	r.d.mu.Lock()
	now := time.Now()
	r.agesBefore, r.idlesBefore = []int{}, []int{}
	for _, sc := range r.d.conns {
		r.agesBefore = append(r.agesBefore, int(now.Sub(sc.created)/time.Millisecond))
		sc.mu.Lock()
		r.idlesBefore = append(r.idlesBefore, int(now.Sub(sc.lastRel)/time.Millisecond))
		sc.mu.Unlock()
	}
	r.d.mu.Unlock()
}

func (r *runner) do(op Op) {
	ctx := context.Background()
	r.stamp()
	switch op.Op {
	case "Acquire":
		if r.live[op.U] != nil {
			return
		}
		// An exhausted pool makes Acquire wait: give up quickly then; otherwise leave ample time to dial.
		wait := 2 * time.Second
		if st := r.p.Stat(); int(st.AcquiredResources()+st.ConstructingResources()) >= r.h.Max {
			wait = 25 * time.Millisecond
		}
		actx, cancel := context.WithTimeout(ctx, wait)
		cl, err := r.p.Acquire(actx)
		cancel()
		if err != nil {
			settle()
			r.emit(Event{"ev": "Acquire", "u": op.U, "res": "err", "conn": 0, "errc": classOf(err)})
			return
		}
		sc := r.d.byConn(cl.VerifClient().VerifNetConn())
		id := 0
		if sc != nil {
			id = sc.id
		}
		r.live[op.U] = &handle{cl: cl, conn: id}
		r.emit(Event{"ev": "Acquire", "u": op.U, "res": "ok", "conn": id})
	case "PoolDo":
		// Pool.Do / Pool.Ping: acquire, one request, release - in one call of the library. The trace shows it as the three
		// steps it consists of; only the last line carries an observation of the pool (the first two are "composite").
		if r.live[op.U] != nil {
			return
		}
		wait := 2 * time.Second
		if st := r.p.Stat(); int(st.AcquiredResources()+st.ConstructingResources()) >= r.h.Max {
			wait = 25 * time.Millisecond
		}
		before := r.requestCounts()
		octx, cancel := context.WithTimeout(ctx, wait)
		var err error
		if op.How == "ping" {
			err = r.p.Ping(octx)
		} else {
			err = r.p.Do(octx, ch.Query{Body: op.How})
		}
		cancel()
		conn := 0
		for id, n := range r.requestCounts() {
			if (id < len(before) && n != before[id]) || (id >= len(before) && n > 0) { // (the call may have dialed a new connection)
				conn = id + 1
			}
		}
		settle()
		if conn == 0 {
			r.emit(Event{"ev": "Acquire", "u": op.U, "res": "err", "conn": 0, "errc": classOf(err)})
			return
		}
		sc := r.scOf(conn)
		if sc != nil {
			sc.mu.Lock()
			sc.lastRel = time.Now()
			sc.mu.Unlock()
		}
		r.emit(Event{"ev": "Acquire", "u": op.U, "res": "ok", "conn": conn, "composite": true})
		r.emit(Event{"ev": "Use", "u": op.U, "how": op.How, "conn": conn, "served": []int{conn}, "errc": classOf(err),
			"clientClosed": classOf(err) == "closed", "composite": true}) // (what the release that follows does to the connection is the next line's business)
		r.emit(Event{"ev": "Release", "u": op.U, "conn": conn, "panic": ""})
	case "Use":
		hd := r.live[op.U]
		if hd == nil {
			return
		}
		before := r.requestCounts()
		var err error
		switch op.How {
		case "ping":
			err = hd.cl.Ping(ctx)
		case "cancelled":
			cctx, cancel := context.WithTimeout(ctx, 15*time.Millisecond)
			err = hd.cl.Do(cctx, ch.Query{Body: op.How})
			cancel()
		default:
			err = hd.cl.Do(ctx, ch.Query{Body: op.How})
		}
		served := []int{}
		for id, n := range r.requestCounts() {
			if n != before[id] {
				served = append(served, id+1)
			}
		}
		r.emit(Event{"ev": "Use", "u": op.U, "how": op.How, "conn": hd.conn, "served": served, "errc": classOf(err),
			"clientClosed": hd.cl.VerifClient().IsClosed()})
	case "Release":
		hd := r.live[op.U]
		if hd == nil {
			return
		}
		pan := r.release(hd, true)
		delete(r.live, op.U)
		r.stale[op.U] = append(r.stale[op.U], hd)
		settle()
		r.emit(Event{"ev": "Release", "u": op.U, "conn": hd.conn, "panic": pan})
	case "StaleRelease":
		hs := r.stale[op.U]
		if len(hs) == 0 {
			return
		}
		hd := hs[op.K%len(hs)]
		pan := r.release(hd, false)
		settle()
		r.emit(Event{"ev": "StaleRelease", "u": op.U, "conn": hd.conn, "panic": pan})
	case "HC":
		r.p.VerifHealthCheck()
		time.Sleep(3 * time.Millisecond) // destroys and MinConns dials run in their own goroutines
		r.emit(Event{"ev": "HC"})
	case "Close":
		if r.closed != nil {
			return
		}
		r.closed = make(chan struct{})
		go func() { r.p.Close(); close(r.closed) }()
		// Close blocks until every handle is released: with handles out it is given time to mark the pool closed and
		// the history goes on; with none out it is awaited (however long a loaded machine takes to schedule it)
		wait := 50 * time.Millisecond
		if len(r.live) == 0 {
			wait = 20 * time.Second
		}
		select {
		case <-r.closed:
		case <-time.After(wait):
		}
		r.emit(Event{"ev": "Close"})
	case "Sleep":
		time.Sleep(time.Duration(op.K) * time.Millisecond)
	case "FailNextDial":
		r.d.mu.Lock()
		r.d.failNext = true
		r.d.mu.Unlock()
	}
}

// release calls Release on a handle; live = it is the first Release of this handle (the only one
// that may return the connection to the idle set and so restart its idle time).
func (r *runner) release(hd *handle, live bool) (panicked string) {
	defer func() {
		if p := recover(); p != nil {
			panicked = fmt.Sprint(p)
		}
	}()
	if sc := r.scOf(hd.conn); sc != nil && live {
		sc.mu.Lock()
		sc.lastRel = time.Now()
		sc.mu.Unlock()
	}
	hd.cl.Release()
	return ""
}

func (r *runner) scOf(id int) *sconn {
	r.d.mu.Lock()
	defer r.d.mu.Unlock()
	if id >= 1 && id <= len(r.d.conns) {
		return r.d.conns[id-1]
	}
	return nil
}

func (r *runner) requestCounts() []int {
	r.d.mu.Lock()
	defer r.d.mu.Unlock()
	out := make([]int, len(r.d.conns))
	for i, sc := range r.d.conns {
		sc.mu.Lock()
		out[i] = sc.requests
		sc.mu.Unlock()
	}
	return out
}
