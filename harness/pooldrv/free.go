package pooldrv

import (
	"context"
	"fmt"
	"math/rand"
	"sync"
	"sync/atomic"
	"time"

	ch "github.com/ClickHouse/ch-go"
	"github.com/ClickHouse/ch-go/chpool"
	"github.com/ClickHouse/ch-go/proto"
)

// FreeCase is one free-running pool run: Users goroutines share one pool while its health checker runs with a short
// period and connections age out; optionally the pool is closed while they work.
type FreeCase struct {
	ID         string `json:"id"`
	Users      int    `json:"users"`
	Iters      int    `json:"iters"`
	Max        int    `json:"max"`
	MinC       int    `json:"minc"`
	LifeMs     int    `json:"lifeMs"`
	IdleMs     int    `json:"idleMs"`
	HealthUs   int    `json:"healthUs"`
	CloseEarly bool   `json:"closeEarly"`
	Otel       bool   `json:"otel"`
	Seed       int64  `json:"seed"`
}

// RunFree runs the case and reports what a user of the pool can observe.
func RunFree(fc FreeCase) (Event, error) {
	d := &dialer{}
	ctx := context.Background()
	// connection-level settings as a caller builds them - appended one by one, so the slice has spare capacity - and shared
	// by every connection of the pool
	var connSettings []ch.Setting
	for _, kv := range [][2]string{{"max_threads", "4"}, {"send_logs_level", "trace"}, {"max_block_size", "65536"}} {
		connSettings = append(connSettings, ch.Setting{Key: kv[0], Value: kv[1], Important: true})
	}
	p, err := chpool.New(ctx, chpool.Options{
		ClientOptions: ch.Options{Dialer: d, ReadTimeout: time.Second, HandshakeTimeout: 5 * time.Second, OpenTelemetryInstrumentation: fc.Otel,
			Settings: connSettings},
		MaxConns:          int32(fc.Max),
		MinConns:          int32(fc.MinC),
		MaxConnLifetime:   time.Duration(fc.LifeMs) * time.Millisecond,
		MaxConnIdleTime:   time.Duration(fc.IdleMs) * time.Millisecond,
		HealthCheckPeriod: time.Duration(fc.HealthUs) * time.Microsecond,
	})
	if err != nil {
		return nil, err
	}
	var wg sync.WaitGroup
	var panics, ops, errsAfterClose, unexpected atomic.Int64
	var firstPanic atomic.Value
	closed := make(chan struct{})
	for u := 0; u < fc.Users; u++ {
		wg.Add(1)
		go func(u int) {
			defer wg.Done()
			rng := rand.New(rand.NewSource(fc.Seed*100 + int64(u)))
			for i := 0; i < fc.Iters; i++ {
				func() {
					defer func() {
						if r := recover(); r != nil {
							panics.Add(1)
							firstPanic.CompareAndSwap(nil, fmt.Sprint(r))
						}
					}()
					octx, cancel := context.WithTimeout(ctx, 2*time.Second)
					defer cancel()
					ops.Add(1)
					var err error
					switch rng.Intn(7) {
					case 6:
						// a result column in a named time zone, decoded through inference (every user other zones first)
						var res proto.Results
						err = p.Do(octx, ch.Query{Body: "zone:" + Zones[(u*7+i)%len(Zones)], Result: res.Auto()})
					case 0:
						err = p.Ping(octx)
					case 1:
						err = p.Do(octx, ch.Query{Body: []string{"ok", "exc"}[rng.Intn(2)],
							Settings: []ch.Setting{{Key: "user_tag", Value: fmt.Sprint(u), Important: true}, {Key: "iter", Value: fmt.Sprint(i)}}})
						if ch.IsException(err) {
							err = nil
						}
					case 2:
						_ = p.Stat()
					default:
						var c *chpool.Client
						c, err = p.Acquire(octx)
						if err == nil {
							switch rng.Intn(4) {
							case 0:
								err = c.Ping(octx)
							case 1:
								err = c.Do(octx, ch.Query{Body: "exc"})
								if ch.IsException(err) {
									err = nil
								}
							case 2:
								err = c.Do(octx, ch.Query{Body: "transport"})
								err = nil // the transport error is expected
							default:
								err = c.Do(octx, ch.Query{Body: "ok", Settings: []ch.Setting{{Key: "user_tag", Value: fmt.Sprint(u)}}})
							}
							if rng.Intn(3) == 0 {
								time.Sleep(time.Duration(rng.Intn(300)) * time.Microsecond)
							}
							c.Release()
							if rng.Intn(5) == 0 {
								c.Release() // a second Release is a no-op
							}
						}
					}
					if err != nil {
						select {
						case <-closed:
							errsAfterClose.Add(1)
						default:
							unexpected.Add(1)
						}
					}
				}()
			}
		}(u)
	}
	if fc.CloseEarly {
		time.Sleep(time.Duration(200+fc.Seed%7*100) * time.Microsecond)
		close(closed)
		p.Close()
	}
	wg.Wait()
	if !fc.CloseEarly {
		close(closed)
		p.Close()
	}
	// after Close: every dialed connection is closed
	open := 0
	d.mu.Lock()
	n := len(d.conns)
	for _, sc := range d.conns {
		if !sc.c.Snap().Closed {
			open++
		}
		sc.c.StopServer()
	}
	d.mu.Unlock()
	fp, _ := firstPanic.Load().(string)
	return Event{"ev": "PoolFree", "id": fc.ID, "ops": ops.Load(), "panics": panics.Load(), "panic": fp, "dialed": n, "openAfterClose": open,
		"errorsAfterClose": errsAfterClose.Load(), "unexpectedErrors": unexpected.Load(), "max": fc.Max, "closeEarly": fc.CloseEarly}, nil
}

// Zones are time zones a server may name in a column type.
var Zones = []string{"Europe/Berlin", "Asia/Tokyo", "America/New_York", "UTC", "Europe/London", "Asia/Kolkata", "Australia/Sydney", "America/Sao_Paulo",
	"Africa/Cairo", "Asia/Shanghai", "Europe/Moscow", "America/Los_Angeles", "Pacific/Auckland", "Asia/Dubai", "Europe/Paris", "America/Chicago",
	"Asia/Singapore", "Europe/Madrid", "America/Toronto", "Asia/Seoul", "Europe/Rome", "America/Mexico_City", "Asia/Jakarta", "Europe/Amsterdam",
	"Africa/Johannesburg", "Asia/Bangkok", "Europe/Vienna", "America/Denver", "Asia/Karachi", "Europe/Warsaw", "America/Bogota", "Asia/Tehran"}
