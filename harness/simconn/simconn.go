// Package simconn is an in-memory net.Conn for the client side of a ClickHouse connection.
//
// It has TCP-like error types (timeouts are *net.OpError with Timeout() = true, use after Close is
// net.ErrClosed), records everything the client writes, can break the write direction at an
// absolute byte offset, and in gated mode turns a blocking Read into a scheduler gate: the Read
// parks until the scheduler resumes it (with data, a time-out, or a close).
package simconn

import (
	"errors"
	"io"
	"net"
	"os"
	"sync"
	"time"
)

type addr string

func (a addr) Network() string { return "sim" }
func (a addr) String() string  { return string(a) }

// Conn is the client end. The harness plays the server through Deliver/ServerClose.
type Conn struct {
	mu   sync.Mutex
	cond *sync.Cond

	rbuf   []byte
	eof    bool
	closed bool

	w      []byte
	failAt int // absolute offset in w at which the write direction breaks; -1 = never
	broken bool

	rdl, wdl    time.Time
	rdlTimer    *time.Timer
	closeCalls  int
	touches     int // Read / Write / Set*Deadline / Close calls
	readCalls   int
	overlapRead bool
	inRead      int
	inWrite     int
	overlap     bool // two goroutines inside Write (or inside Read) at the same time

	// gated (replay) mode
	gated       bool
	blockedRead bool
	resume      bool
	timeoutReq  bool
	onBlock     func()

	// chunks limits how many bytes the following Reads return (segmentation experiments).
	chunks []int
	// free-running segmentation experiments: a Read that waits with nothing to read is "starved"
	starved bool
	// OnRead, when set, is told about every Read: start=true when the call begins, then the result
	OnRead func(start bool, n int, err error)

	srvOff  int
	srvStop bool

	// stalled writes: the peer does not read, a Write blocks until the connection is closed or its deadline passes
	stallW       bool
	blockedWrite bool
	resumeW      bool
	closeErr     bool
	breakW       int // >= 0: the blocked write fails, the connection having taken this many of its bytes (-1: no)
}

func New() *Conn {
	c := &Conn{failAt: -1, breakW: -1}
	c.cond = sync.NewCond(&c.mu)
	return c
}

// SetGated switches replay mode on or off. onBlock is called (without the lock held) every time
// a Read parks.
func (c *Conn) SetGated(g bool, onBlock func()) {
	c.mu.Lock()
	c.gated = g
	c.onBlock = onBlock
	c.mu.Unlock()
	c.cond.Broadcast()
}

func timeoutErr(op string) error {
	return &net.OpError{Op: op, Net: "sim", Err: os.ErrDeadlineExceeded}
}
func closedErr(op string) error { return &net.OpError{Op: op, Net: "sim", Err: net.ErrClosed} }

// ErrBroken is what a Write returns once the write direction broke.
var ErrBroken = &net.OpError{Op: "write", Net: "sim", Err: os.ErrClosed}

func (c *Conn) take(p []byte) int {
	n := len(p)
	if len(c.chunks) > 0 && c.chunks[0] < n {
		n = c.chunks[0]
	}
	if n > len(c.rbuf) {
		n = len(c.rbuf)
	}
	copy(p, c.rbuf[:n])
	c.rbuf = c.rbuf[n:]
	if len(c.chunks) > 0 {
		c.chunks[0] -= n
		if c.chunks[0] <= 0 {
			c.chunks = c.chunks[1:]
		}
	}
	return n
}

func (c *Conn) Read(p []byte) (n int, err error) {
	if f := c.OnRead; f != nil {
		f(true, 0, nil)
		defer func() { f(false, n, err) }()
	}
	c.mu.Lock()
	defer c.mu.Unlock()
	c.touches++
	c.readCalls++
	c.inRead++
	if c.inRead > 1 {
		c.overlap = true
	}
	defer func() { c.inRead-- }()
	if len(p) == 0 {
		return 0, nil
	}
	for {
		if !c.gated {
			switch {
			case c.closed:
				return 0, closedErr("read")
			case len(c.rbuf) > 0:
				return c.take(p), nil
			case c.eof:
				return 0, io.EOF
			case !c.rdl.IsZero() && (c.timeoutReq || !time.Now().Before(c.rdl)):
				c.timeoutReq = false
				return 0, timeoutErr("read")
			}
			c.starved = true
			c.cond.Broadcast()
			c.cond.Wait()
			c.starved = false
			continue
		}
		// gated: a Read that finds nothing parks, and stays parked until the scheduler resumes it
		if !c.blockedRead || c.resume {
			c.blockedRead, c.resume = false, false
			switch {
			case c.timeoutReq:
				c.timeoutReq = false
				return 0, timeoutErr("read")
			case c.closed:
				return 0, closedErr("read")
			case len(c.rbuf) > 0:
				return c.take(p), nil
			case c.eof:
				return 0, io.EOF
			}
			c.blockedRead = true
			if f := c.onBlock; f != nil {
				c.mu.Unlock()
				f()
				c.mu.Lock()
				continue
			}
		}
		c.cond.Wait()
	}
}

func (c *Conn) Write(p []byte) (int, error) {
	c.mu.Lock()
	defer c.mu.Unlock()
	c.touches++
	c.inWrite++
	if c.inWrite > 1 {
		c.overlap = true
	}
	defer func() { c.inWrite-- }()
	if c.closed {
		return 0, closedErr("write")
	}
	if c.broken {
		return 0, ErrBroken
	}
	for c.stallW {
		if c.gated {
			// replay mode has no clock: a write deadline that is near (cancelQuery's one second) expires, a far one does not
			if !c.wdl.IsZero() && time.Until(c.wdl) < 5*time.Second {
				return 0, timeoutErr("write")
			}
		} else if !c.wdl.IsZero() {
			// free-running: the write stays blocked until its deadline really passes (or the connection is closed)
			if !time.Now().Before(c.wdl) {
				return 0, timeoutErr("write")
			}
			time.AfterFunc(time.Until(c.wdl)+time.Millisecond, c.cond.Broadcast)
		}
		if !c.blockedWrite {
			c.blockedWrite, c.resumeW = true, false
			if f := c.onBlock; f != nil {
				c.mu.Unlock()
				f()
				c.mu.Lock()
				continue
			}
		}
		if c.resumeW || !c.gated {
			if c.closed {
				c.blockedWrite, c.resumeW = false, false
				return 0, closedErr("write")
			}
			if c.breakW >= 0 {
				// the connection breaks under the blocked write
				n := c.breakW
				if n > len(p) {
					n = len(p)
				}
				c.w = append(c.w, p[:n]...)
				c.broken, c.breakW = true, -1
				c.blockedWrite, c.resumeW = false, false
				c.cond.Broadcast()
				return n, ErrBroken
			}
			c.resumeW = false
		}
		c.cond.Wait()
	}
	c.blockedWrite = false
	if !c.wdl.IsZero() && !time.Now().Before(c.wdl) {
		return 0, timeoutErr("write")
	}
	if c.failAt >= 0 && len(c.w)+len(p) > c.failAt {
		n := c.failAt - len(c.w)
		if n < 0 {
			n = 0
		}
		c.w = append(c.w, p[:n]...)
		c.broken = true
		c.cond.Broadcast()
		return n, ErrBroken
	}
	c.w = append(c.w, p...)
	c.cond.Broadcast()
	return len(p), nil
}

func (c *Conn) Close() error {
	c.mu.Lock()
	c.touches++
	c.closeCalls++
	already := c.closed
	c.closed = true
	c.mu.Unlock()
	c.cond.Broadcast()
	if already {
		return closedErr("close")
	}
	if c.closeErr {
		// (as crypto/tls does when the peer is gone: the connection is closed, and Close still reports an error)
		return errors.New("simconn: failed to send the closing alert (but the connection was closed anyway)")
	}
	return nil
}

// SetCloseError makes Close report an error although it closes the connection.
func (c *Conn) SetCloseError(on bool) {
	c.mu.Lock()
	c.closeErr = on
	c.mu.Unlock()
}

func (c *Conn) LocalAddr() net.Addr  { return addr("127.0.0.1:40000") }
func (c *Conn) RemoteAddr() net.Addr { return addr("127.0.0.1:9000") }

func (c *Conn) SetDeadline(t time.Time) error {
	c.SetReadDeadline(t)
	return c.SetWriteDeadline(t)
}

func (c *Conn) SetReadDeadline(t time.Time) error {
	c.mu.Lock()
	defer c.mu.Unlock()
	c.touches++
	if c.closed {
		return closedErr("set")
	}
	c.rdl = t
	if c.rdlTimer != nil {
		c.rdlTimer.Stop()
		c.rdlTimer = nil
	}
	if !t.IsZero() && !c.gated {
		d := time.Until(t)
		if d < 0 {
			d = 0
		}
		c.rdlTimer = time.AfterFunc(d, c.cond.Broadcast)
	}
	return nil
}

func (c *Conn) SetWriteDeadline(t time.Time) error {
	c.mu.Lock()
	defer c.mu.Unlock()
	c.touches++
	if c.closed {
		return closedErr("set")
	}
	c.wdl = t
	return nil
}

// ---- harness side -------------------------------------------------------

// ServerRead is the server's view of the client's writes: it blocks until the client has written
// more, and returns io.EOF once the client closed the connection (or the server side was stopped).
func (c *Conn) ServerRead(p []byte) (int, error) {
	c.mu.Lock()
	defer c.mu.Unlock()
	for {
		if c.srvOff < len(c.w) {
			n := copy(p, c.w[c.srvOff:])
			c.srvOff += n
			return n, nil
		}
		if c.closed || c.srvStop {
			return 0, io.EOF
		}
		c.cond.Wait()
	}
}

// SkipServerRead makes the server side start reading at what the client writes from now on.
func (c *Conn) SkipServerRead() {
	c.mu.Lock()
	c.srvOff = len(c.w)
	c.mu.Unlock()
}

// StopServer makes a blocked ServerRead return io.EOF.
func (c *Conn) StopServer() {
	c.mu.Lock()
	c.srvStop = true
	c.mu.Unlock()
	c.cond.Broadcast()
}

type serverSide struct{ c *Conn }

func (s serverSide) Read(p []byte) (int, error) { return s.c.ServerRead(p) }

// ServerReader returns an io.Reader over what the client writes.
func (c *Conn) ServerReader() io.Reader { return serverSide{c} }

// Deliver makes server bytes available to the client.
func (c *Conn) Deliver(b []byte) {
	c.mu.Lock()
	c.rbuf = append(c.rbuf, b...)
	c.mu.Unlock()
	c.cond.Broadcast()
}

// SetChunks makes the following Reads return at most chunks[i] bytes each (then unlimited).
func (c *Conn) SetChunks(chunks []int) {
	c.mu.Lock()
	c.chunks = append([]int(nil), chunks...)
	c.mu.Unlock()
}

// WaitStarved blocks until a Read that began after `calls` Read calls waits with nothing to read, or stop()
// holds (Kick makes it look again). It reports whether a reader is starved.
func (c *Conn) WaitStarved(calls int, stop func() bool) bool {
	c.mu.Lock()
	defer c.mu.Unlock()
	for !(c.starved && c.readCalls > calls && len(c.rbuf) == 0) {
		if stop() {
			return false
		}
		c.cond.Wait()
	}
	return true
}

// Kick wakes everything that waits on the connection's state.
func (c *Conn) Kick() {
	// taking the lock orders this after a waiter's test of its stop condition: no lost wake-up
	c.mu.Lock()
	c.mu.Unlock() //nolint:staticcheck // empty critical section on purpose
	c.cond.Broadcast()
}

// ReadCalls returns the number of Read calls so far.
func (c *Conn) ReadCalls() int {
	c.mu.Lock()
	defer c.mu.Unlock()
	return c.readCalls
}

// InjectReadTimeout makes the waiting Read fail with a time-out, provided the client armed a read deadline
// (free-running mode); it reports whether it did.
func (c *Conn) InjectReadTimeout() bool {
	c.mu.Lock()
	defer c.mu.Unlock()
	if c.rdl.IsZero() || !c.starved {
		return false
	}
	c.timeoutReq = true
	c.cond.Broadcast()
	return true
}

// ServerClose: after the delivered bytes are consumed, Read returns io.EOF.
func (c *Conn) ServerClose() {
	c.mu.Lock()
	c.eof = true
	c.mu.Unlock()
	c.cond.Broadcast()
}

// BreakWritesAt arms the write fault: the connection accepts bytes up to absolute offset k.
func (c *Conn) BreakWritesAt(k int) {
	c.mu.Lock()
	c.failAt = k
	c.mu.Unlock()
}

// StallWrites makes the following Writes block (the peer stopped reading) or lets them through again.
func (c *Conn) StallWrites(on bool) {
	c.mu.Lock()
	c.stallW = on
	c.mu.Unlock()
	c.cond.Broadcast()
}

// ResumeWrite lets a parked Write re-examine the connection (gated mode).
// HasWriteDeadline says whether a write deadline is set.
func (c *Conn) HasWriteDeadline() bool {
	c.mu.Lock()
	defer c.mu.Unlock()
	return !c.wdl.IsZero()
}

// ExpireWriteDeadline lets a write deadline that is set pass now (the replay has no clock: the caller's deadline passing
// is an event of the schedule, and with it passes the write deadline flush derived from it).
func (c *Conn) ExpireWriteDeadline() bool {
	c.mu.Lock()
	defer c.mu.Unlock()
	if c.wdl.IsZero() {
		return false
	}
	c.wdl = time.Now().Add(-time.Millisecond)
	return true
}

// BreakBlockedWrite makes the write that is blocked on the stalled connection fail once it is resumed, the connection
// having taken k bytes of it; every later write fails too.
func (c *Conn) BreakBlockedWrite(k int) {
	c.mu.Lock()
	c.breakW = k
	c.mu.Unlock()
	c.cond.Broadcast()
}

func (c *Conn) ResumeWrite() {
	c.mu.Lock()
	c.resumeW = true
	c.mu.Unlock()
	c.cond.Broadcast()
}

// Resume lets a parked Read continue (gated mode).
func (c *Conn) Resume() {
	c.mu.Lock()
	c.resume = true
	c.mu.Unlock()
	c.cond.Broadcast()
}

// FireReadTimeout makes the parked (or next) Read fail with a time-out; reports whether a read
// deadline is armed (a time-out can only happen if the client set one).
func (c *Conn) FireReadTimeout() bool {
	c.mu.Lock()
	armed := !c.rdl.IsZero()
	if armed {
		c.timeoutReq = true
		c.resume = true
	}
	c.mu.Unlock()
	c.cond.Broadcast()
	return armed
}

type Snapshot struct {
	Written      []byte
	Unread       int
	EOF          bool
	Closed       bool
	Broken       bool
	CloseCalls   int
	Touches      int
	BlockedRead  bool
	BlockedWrite bool
	ReadDeadline bool
	Overlap      bool
}

func (c *Conn) Snap() Snapshot {
	c.mu.Lock()
	defer c.mu.Unlock()
	return Snapshot{
		Written: c.w, Unread: len(c.rbuf), EOF: c.eof, Closed: c.closed, Broken: c.broken,
		CloseCalls: c.closeCalls, Touches: c.touches, BlockedRead: c.blockedRead && !c.resume,
		BlockedWrite: c.blockedWrite && !c.resumeW,
		ReadDeadline: !c.rdl.IsZero(), Overlap: c.overlap,
	}
}
