package main

import (
	"bytes"
	"encoding/json"
	"flag"
	"fmt"
	"math/rand"
	"strings"

	"github.com/ClickHouse/ch-go/proto"

	"verifharness/colgen"
	"verifharness/tracew"
)

func init() { subcmds["bind"] = bindMain }

// bkind is a column kind usable as a block column and / or as a caller's target.
type bkind struct {
	name   string // for the harness
	t      tast   // type of the block column / of the target as the specification sees it
	kind   colgen.Kind
	target func() proto.Column // special (inferable) targets; nil = kind.New()
	wire   string              // type name written into the block (default kind.Name())
	tt     *tast               // type of the target when it differs from the type of the block column (inferring targets)
}

func bindKinds() []bkind {
	b := colgen.NewBases()
	enumT := func() proto.Column { return new(proto.ColEnum) }
	dt64T := func() proto.Column { return new(proto.ColDateTime64) }
	return []bkind{
		{name: "u8", t: t0("UInt8"), kind: b.U8}, {name: "u16", t: t0("UInt16"), kind: b.U16}, {name: "i8", t: t0("Int8"), kind: b.I8},
		{name: "i16", t: t0("Int16"), kind: b.I16}, {name: "str", t: t0("String"), kind: b.Str}, {name: "fs3", t: tp("FixedString", "3"), kind: b.FS3},
		{name: "fs16", t: tp("FixedString", "16"), kind: b.FS16}, {name: "astr", t: te("Array", t0("String")), kind: colgen.Array(b.Str)},
		{name: "nu8", t: te("Nullable", t0("UInt8")), kind: colgen.Nullable(b.U8)}, {name: "au8", t: te("Array", t0("UInt8")), kind: colgen.Array(b.U8)},
		{name: "f64", t: t0("Float64"), kind: b.F64}, {name: "u64", t: t0("UInt64"), kind: b.U64},
		// maps: the key type has parameters of its own, the value types differ only in their base
		{name: "mLcU64", t: te("Map", te("LowCardinality", t0("String")), t0("UInt64")), kind: colgen.Map(colgen.LowCardinality(b.Str), b.U64)},
		{name: "mLcI64", t: te("Map", te("LowCardinality", t0("String")), t0("Int64")), kind: colgen.Map(colgen.LowCardinality(b.Str), b.I64)},
		{name: "mLcF64", t: te("Map", te("LowCardinality", t0("String")), t0("Float64")), kind: colgen.Map(colgen.LowCardinality(b.Str), b.F64)},
		{name: "mStrU64", t: te("Map", t0("String"), t0("UInt64")), kind: colgen.Map(b.Str, b.U64)},
		{name: "tU8Str", t: te("Tuple", t0("UInt8"), t0("String")), kind: colgen.Tuple(b.U8, b.Str)},
		{name: "tU8", t: te("Tuple", t0("UInt8")), kind: colgen.Tuple(b.U8)},
		// server-side enum: raw Int8 data under an Enum8 type name; the caller's target is the inferable ColEnum
		// (proto.ColEnum adopts whatever enum the server names, of either width: the specification calls that target "Enum")
		{name: "enumA", t: tp("Enum8", "'a' = 1", "'b' = 2"), kind: b.E8, target: enumT, wire: "Enum8('a' = 1, 'b' = 2)", tt: &anyEnum},
		{name: "enumB", t: tp("Enum8", "'x' = 1", "'y' = 2", "'z' = 3"), kind: b.E8, target: enumT, wire: "Enum8('x' = 1, 'y' = 2, 'z' = 3)", tt: &anyEnum},
		// decimals: the server names a precision, the caller's column a width; the precisions at the edges of the widths
		{name: "d32", t: t0("Decimal32"), kind: b.D32}, {name: "d64", t: t0("Decimal64"), kind: b.D64}, {name: "d128", t: t0("Decimal128"), kind: b.D128},
		{name: "dec9", t: dec(9, 2), kind: b.D32, wire: "Decimal(9, 2)"}, {name: "dec10", t: dec(10, 2), kind: b.D64, wire: "Decimal(10, 2)"},
		{name: "dec18", t: dec(18, 4), kind: b.D64, wire: "Decimal(18, 4)"}, {name: "dec19", t: dec(19, 4), kind: b.D128, wire: "Decimal(19, 4)"},
		{name: "dec38", t: dec(38, 1), kind: b.D128, wire: "Decimal(38, 1)"}, {name: "dec39", t: dec(39, 1), kind: b.D256, wire: "Decimal(39, 1)"},
		// the raw enum columns of both widths, with and without a definition in the server's type name
		{name: "e8raw", t: t0("Enum8"), kind: b.E8}, {name: "e16raw", t: t0("Enum16"), kind: b.E16},
		{name: "e8rawDef", t: tp("Enum8", "'a' = 1", "'b' = 2"), kind: b.E8, wire: "Enum8('a' = 1, 'b' = 2)"},
		{name: "e16rawDef", t: tp("Enum16", "'a' = 1", "'b' = 300"), kind: b.E16, wire: "Enum16('a' = 1, 'b' = 300)"},
		{name: "dt64_3", t: tp("DateTime64", "3"), kind: dt64raw(3), target: dt64T, wire: "DateTime64(3)"},
		{name: "dt64_6", t: tp("DateTime64", "6"), kind: dt64raw(6), target: dt64T, wire: "DateTime64(6)"},
	}
}

var anyEnum = t0("Enum")

func dt64raw(p int) colgen.Kind {
	for _, k := range colgen.Universe(1) {
		if k.Name() == fmt.Sprintf("DateTime64(%d)", p) {
			return k
		}
	}
	for _, k := range colgen.Dual() {
		if k.Name() == fmt.Sprintf("DateTime64(%d)", p) {
			return k
		}
	}
	// DateTime64(3) and (9) exist in the universe, (6) in Dual
	panic("no raw DateTime64 kind for precision " + fmt.Sprint(p))
}

type bcolumn struct {
	k    bkind
	name string
	id   string
	vals []any
}

func enumVals(k bkind, r *rand.Rand) any {
	n := 2
	switch k.name {
	case "enumB":
		n = 3
	case "e16rawDef":
		return [][]int{{1, 0}, {44, 1}}[r.Intn(2)]
	}
	return []int{1 + r.Intn(n)}
}

func encodeBindBlock(cols []bcolumn, rows int) []byte {
	var in []proto.InputColumn
	for _, c := range cols {
		col := c.k.kind.New()
		for _, v := range c.vals {
			col.Append(v)
		}
		in = append(in, proto.InputColumn{Name: c.name, Data: col.Column()})
	}
	var b proto.Buffer
	if err := (proto.Block{Columns: len(in), Rows: rows}).EncodeBlock(&b, 54460, in); err != nil {
		panic(err)
	}
	out := b.Buf
	// present special columns under their server-side type name
	for _, c := range cols {
		if c.k.wire != "" && c.k.wire != c.k.kind.Name() {
			old := append([]byte{byte(len(c.k.kind.Name()))}, c.k.kind.Name()...)
			nw := append([]byte{byte(len(c.k.wire))}, c.k.wire...)
			out = bytes.Replace(out, old, nw, 1)
		}
	}
	return out
}

// reencode gives the bytes of a target's current contents (to compare with the block's columns).
func colBytes(c proto.Column) []byte {
	var b proto.Buffer
	if p, ok := c.(proto.Preparable); ok {
		_ = p.Prepare()
	}
	if c.Rows() == 0 {
		return nil
	}
	c.EncodeColumn(&b)
	return b.Buf
}

func bindMain(args []string) error {
	fs := flag.NewFlagSet("bind", flag.ExitOnError)
	out := fs.String("out", "", "trace file")
	seed := fs.Int64("seed", 1, "seed")
	cases := fs.Int("cases", 3000, "number of (targets, block sequence) cases")
	shard := fs.Int("shard", 0, "this shard")
	nshard := fs.Int("nshard", 1, "number of shards")
	fs.Parse(args)
	tw, err := tracew.Create(*out)
	if err != nil {
		return err
	}
	rng := rand.New(rand.NewSource(*seed*31 + int64(*shard)))
	ks := bindKinds()
	names := []string{"a", "b", "c", "a b", ""}
	n := 0
	for ci := 0; ci < *cases; ci++ {
		if ci%*nshard != *shard {
			continue
		}
		// the schema the server sends first, and targets derived from it by one of the mutations
		nc := rng.Intn(4)
		var schema []bkind
		var snames []string
		for i := 0; i < nc; i++ {
			schema = append(schema, ks[rng.Intn(len(ks))])
			snames = append(snames, []string{"a", "b", "c", "d"}[i])
		}
		type tgt struct {
			k    bkind
			name string
			col  proto.Column
		}
		var targets []*tgt
		for i := range schema {
			targets = append(targets, &tgt{k: schema[i], name: snames[i]})
		}
		switch rng.Intn(9) {
		case 0: // equal
		case 1: // blank names
			for _, t := range targets {
				if rng.Intn(2) == 0 {
					t.name = ""
				}
			}
		case 2: // permuted
			rng.Shuffle(len(targets), func(i, j int) { targets[i], targets[j] = targets[j], targets[i] })
		case 3: // renamed
			if len(targets) > 0 {
				targets[rng.Intn(len(targets))].name = names[rng.Intn(len(names))]
			}
		case 4: // extra target
			targets = append(targets, &tgt{k: ks[rng.Intn(len(ks))], name: "z"})
		case 5: // missing target
			if len(targets) > 0 {
				targets = targets[:len(targets)-1]
			}
		case 6, 7: // a type swapped for another
			if len(targets) > 0 {
				targets[rng.Intn(len(targets))].k = ks[rng.Intn(len(ks))]
			}
		case 8: // no targets at all
			targets = nil
		}
		var res proto.Results
		for _, t := range targets {
			if t.k.target != nil {
				t.col = t.k.target()
			} else {
				t.col = t.k.kind.New().Column()
			}
			res = append(res, proto.ResultColumn{Name: t.name, Data: t.col})
		}
		single := len(res) == 1 && rng.Intn(3) == 0
		held := make([]string, len(targets)) // data id each target holds
		for i := range held {
			held[i] = "empty"
		}
		// a sequence of blocks against the same targets: the first schema, then possibly changed ones
		for bi, nb := 0, 1+rng.Intn(3); bi < nb; bi++ {
			sch, sn := schema, snames
			if bi > 0 && rng.Intn(2) == 0 && len(sch) > 0 {
				sch = append([]bkind{}, schema...)
				sn = append([]string{}, snames...)
				if rng.Intn(2) == 0 {
					sn[rng.Intn(len(sn))] = "renamed"
				} else {
					sch[rng.Intn(len(sch))] = ks[rng.Intn(len(ks))]
				}
				// a decimal column comes back with a precision of the neighbouring width
				for i, k := range sch {
					if alt, ok := map[string]string{"dec9": "dec10", "dec10": "dec9", "dec18": "dec19", "dec19": "dec18", "dec38": "dec39", "dec39": "dec38",
						"d32": "dec10", "d64": "dec19", "d128": "dec39"}[k.name]; ok && rng.Intn(2) == 0 {
						for _, k2 := range ks {
							if k2.name == alt {
								sch[i] = k2
							}
						}
					}
				}
				// a column whose parameters the target adopts comes back with other parameters (the target still holds rows)
				for i, k := range sch {
					if alt, ok := map[string]string{"dt64_3": "dt64_6", "dt64_6": "dt64_3", "enumA": "enumB", "enumB": "enumA"}[k.name]; ok && rng.Intn(2) == 0 {
						for _, k2 := range ks {
							if k2.name == alt {
								sch[i] = k2
							}
						}
					}
				}
			}
			rows := rng.Intn(3)
			var cols []bcolumn
			for i, k := range sch {
				c := bcolumn{k: k, name: sn[i], id: fmt.Sprintf("d%d.%d.%d", ci, bi, i)}
				for r := 0; r < rows; r++ {
					if strings.HasPrefix(k.wire, "Enum") {
						c.vals = append(c.vals, enumVals(k, rng))
					} else {
						c.vals = append(c.vals, k.kind.Gen(rng, 6))
					}
				}
				if rows == 0 {
					c.id = "empty"
				}
				cols = append(cols, c)
			}
			data := encodeBindBlock(cols, rows)
			// what the specification needs: targets (names as they are now), the block, the outcome
			var tj, bj []map[string]any
			for i, t := range targets {
				tt := t.k.t
				if t.k.tt != nil {
					tt = *t.k.tt
				}
				tj = append(tj, map[string]any{"name": res[i].Name, "type": tt, "data": held[i]})
			}
			for _, c := range cols {
				bj = append(bj, map[string]any{"name": c.name, "type": c.k.t, "data": c.id})
			}
			before := make([][]byte, len(targets))
			for i, t := range targets {
				before[i] = colBytes(t.col)
			}
			var blk proto.Block
			pan := ""
			derr := func() (err error) {
				defer func() {
					if p := recover(); p != nil {
						pan = fmt.Sprint(p)
					}
				}()
				if single {
					// one target handed over as a Result of its own (ResultColumn implements Result)
					return blk.DecodeBlock(proto.NewReader(bytes.NewReader(data)), 54460, res[0])
				}
				return blk.DecodeBlock(proto.NewReader(bytes.NewReader(data)), 54460, res)
			}()
			after := []map[string]any{}
			for i, t := range targets {
				cur := "other"
				tb := colBytes(t.col)
				if t.col.Rows() == 0 {
					cur = "empty"
				} else {
					match := func(c bcolumn) bool {
						if c.id == "empty" {
							return false
						}
						ref := c.k.kind.New()
						for _, v := range c.vals {
							ref.Append(v)
						}
						// same contents: the target re-encodes to the bytes of that block column
						return bytes.Equal(tb, colBytes(ref.Column()))
					}
					// contents can coincide (two empty arrays...): an untouched target keeps its id when the decode failed,
					// and the column at the target's own position is preferred otherwise
					if derr != nil && bytes.Equal(tb, before[i]) && held[i] != "empty" {
						cur = held[i]
					} else if i < len(cols) && match(cols[i]) {
						cur = cols[i].id
					} else {
						for _, c := range cols {
							if match(c) {
								cur = c.id
							}
						}
					}
					if cur == "other" && held[i] != "empty" {
						cur = held[i] // unchanged from an earlier block (not re-verified byte for byte)
					}
				}
				// an inferring target that was bound shows the type the server named (its parameters adopted)
				adopted := true
				if t.k.target != nil && derr == nil && i < len(cols) && cols[i].k.wire != "" {
					adopted = string(t.col.Type()) == cols[i].k.wire
				}
				after = append(after, map[string]any{"name": res[i].Name, "data": cur, "adopted": adopted, "atype": string(t.col.Type())})
				held[i] = cur
			}
			mentions := false
			if derr != nil {
				msg := derr.Error()
				for i, c := range cols {
					if strings.Contains(msg, fmt.Sprintf("%q", c.name)) || strings.Contains(msg, fmt.Sprintf("[%d]", i)) || strings.Contains(msg, c.name+":") {
						mentions = true
					}
				}
			}
			if tj == nil {
				tj = []map[string]any{}
			}
			if bj == nil {
				bj = []map[string]any{}
			}
			ev := map[string]any{"ev": "Bind", "single": single, "targets": tj, "block": bj, "rows": rows, "err": errStr(derr), "errMentions": mentions, "after": after, "panic": pan,
				// an inferring target may refuse what the server offers: a type it cannot adopt, or (the enum target, which holds
				// names) a value the server's definition has no name for
				"inferRefused": derr != nil && (strings.Contains(derr.Error(), "infer") || strings.Contains(derr.Error(), "unknown enum value"))}
			tw.Emit(ev)
			n++
			_ = json.Marshal
		}
	}
	if err := tw.Close(); err != nil {
		return err
	}
	fmt.Printf("{\"blocks\":%d,\"lines\":%d}\n", n, tw.N)
	return nil
}
