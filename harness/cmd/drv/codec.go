package main

import (
	"bytes"
	"crypto/sha256"
	"encoding/hex"
	"flag"
	"fmt"
	"math/rand"
	"strconv"
	"strings"

	"github.com/ClickHouse/ch-go/compress"
	"github.com/ClickHouse/ch-go/proto"

	"verifharness/colgen"
	"verifharness/tracew"
)

func init() { subcmds["codec"] = codecMain }

type bcol struct {
	kind colgen.Kind
	name string
	vals []any
}

func buildCols(cs []bcol) ([]colgen.Col, []proto.InputColumn) {
	var cols []colgen.Col
	var in []proto.InputColumn
	for _, c := range cs {
		col := c.kind.New()
		for _, v := range c.vals {
			col.Append(v)
		}
		cols = append(cols, col)
		in = append(in, proto.InputColumn{Name: c.name, Data: col.Column()})
	}
	return cols, in
}

var (
	encodeAllCalls int
	bigStaged      = bytes.Repeat([]byte{0x5A}, 1<<20+4096)
)

type sliceWriter struct{ b []byte }

func (s *sliceWriter) Write(p []byte) (int, error) { s.b = append(s.b, p...); return len(p), nil }

// encodeAll produces the encodings of one block by every path: EncodeBlock into an empty buffer,
// into a pre-filled buffer, into a reused buffer with stale spare capacity, and WriteBlock + Flush through
// the vectored writer (fresh columns each time).
func encodeAll(cs []bcol, rows, rev int) (canon []byte, alts []map[string]any, err error) {
	blk := proto.Block{Columns: len(cs), Rows: rows}
	_, in := buildCols(cs)
	var b0 proto.Buffer
	if err := blk.EncodeBlock(&b0, rev, in); err != nil {
		return nil, nil, err
	}
	canon = b0.Buf
	// pre-filled buffer, fresh column objects
	_, in2 := buildCols(cs)
	b1 := proto.Buffer{Buf: bytes.Repeat([]byte{0xAB}, 13)}
	if err := blk.EncodeBlock(&b1, rev, in2); err != nil {
		return nil, nil, err
	}
	alts = append(alts, map[string]any{"mode": "EncodeBlock+prefix", "prefixKept": bytes.Equal(b1.Buf[:13], bytes.Repeat([]byte{0xAB}, 13)),
		"equal": bytes.Equal(b1.Buf[13:], canon)})
	// vectored path
	_, in3 := buildCols(cs)
	sw := &sliceWriter{}
	w := proto.NewWriter(sw, new(proto.Buffer))
	if err := blk.WriteBlock(w, rev, in3); err != nil {
		return nil, nil, err
	}
	if _, err := w.Flush(); err != nil {
		return nil, nil, err
	}
	alts = append(alts, map[string]any{"mode": "WriteBlock+Flush", "prefixKept": true, "equal": bytes.Equal(sw.b, canon)})
	// vectored path with a pre-filled staging buffer
	_, in4 := buildCols(cs)
	sw2 := &sliceWriter{}
	w2 := proto.NewWriter(sw2, new(proto.Buffer))
	w2.ChainBuffer(func(b *proto.Buffer) { b.PutRaw(bytes.Repeat([]byte{0xCD}, 7)) })
	if err := blk.WriteBlock(w2, rev, in4); err != nil {
		return nil, nil, err
	}
	if _, err := w2.Flush(); err != nil {
		return nil, nil, err
	}
	alts = append(alts, map[string]any{"mode": "WriteBlock+Flush+prefix", "prefixKept": len(sw2.b) >= 7 && bytes.Equal(sw2.b[:7], bytes.Repeat([]byte{0xCD}, 7)),
		"equal": len(sw2.b) >= 7 && bytes.Equal(sw2.b[7:], canon)})
	// encoding the same column objects a second time
	_, in5 := buildCols(cs)
	var b5, b6 proto.Buffer
	if err := blk.EncodeBlock(&b5, rev, in5); err != nil {
		return nil, nil, err
	}
	if err := blk.EncodeBlock(&b6, rev, in5); err != nil {
		return nil, nil, err
	}
	alts = append(alts, map[string]any{"mode": "EncodeBlock twice", "prefixKept": true, "equal": bytes.Equal(b6.Buf, canon)})
	// a reused output buffer: its spare capacity holds stale bytes of an earlier use
	_, in7 := buildCols(cs)
	stale := bytes.Repeat([]byte{0x07}, 2*len(canon)+64)
	b7 := proto.Buffer{Buf: stale[:5]}
	if err := blk.EncodeBlock(&b7, rev, in7); err != nil {
		return nil, nil, err
	}
	alts = append(alts, map[string]any{"mode": "EncodeBlock+stale-capacity", "prefixKept": bytes.Equal(b7.Buf[:5], []byte{7, 7, 7, 7, 7}),
		"equal": bytes.Equal(b7.Buf[5:], canon)})
	// the vectored writer over a reused staging buffer
	_, in8 := buildCols(cs)
	sw8 := &sliceWriter{}
	stale8 := bytes.Repeat([]byte{0x07}, 2*len(canon)+64)
	w8 := proto.NewWriter(sw8, &proto.Buffer{Buf: stale8[:0]})
	if err := blk.WriteBlock(w8, rev, in8); err != nil {
		return nil, nil, err
	}
	if _, err := w8.Flush(); err != nil {
		return nil, nil, err
	}
	alts = append(alts, map[string]any{"mode": "WriteBlock+Flush+stale-capacity", "prefixKept": true, "equal": bytes.Equal(sw8.b, canon)})
	// the vectored writer after it has flushed more than a MiB of staged bytes (every eighth block)
	encodeAllCalls++
	if encodeAllCalls%8 == 0 {
		_, in11 := buildCols(cs)
		sw11 := &sliceWriter{}
		w11 := proto.NewWriter(sw11, new(proto.Buffer))
		w11.ChainBuffer(func(b *proto.Buffer) { b.PutRaw(bigStaged) })
		if _, err := w11.Flush(); err != nil {
			return nil, nil, err
		}
		first := len(sw11.b) == len(bigStaged)
		sw11.b = sw11.b[:0]
		if err := blk.WriteBlock(w11, rev, in11); err != nil {
			return nil, nil, err
		}
		if _, err := w11.Flush(); err != nil {
			return nil, nil, err
		}
		alts = append(alts, map[string]any{"mode": "WriteBlock+Flush after a large flush", "prefixKept": first, "equal": bytes.Equal(sw11.b, canon)})
	}
	// the columns alone, written through a writer whose staging buffer held bytes before the writer existed: the bytes
	// come out in the order they were put in, and each column as EncodeColumn gives it
	if rows > 0 {
		_, in9 := buildCols(cs)
		_, in10 := buildCols(cs)
		pre := []byte{0xEE, 0xDD, 0xCC}
		sw9 := &sliceWriter{}
		w9 := proto.NewWriter(sw9, &proto.Buffer{Buf: append([]byte(nil), pre...)})
		want := append([]byte(nil), pre...)
		for i := range in9 {
			if p, ok := in9[i].Data.(proto.Preparable); ok {
				if err := p.Prepare(); err != nil {
					return nil, nil, err
				}
			}
			if p, ok := in10[i].Data.(proto.Preparable); ok {
				if err := p.Prepare(); err != nil {
					return nil, nil, err
				}
			}
			in9[i].Data.WriteColumn(w9)
			var eb proto.Buffer
			in10[i].Data.EncodeColumn(&eb)
			want = append(want, eb.Buf...)
		}
		if _, err := w9.Flush(); err != nil {
			return nil, nil, err
		}
		alts = append(alts, map[string]any{"mode": "WriteColumn+prefilled-writer", "prefixKept": len(sw9.b) >= 3 && bytes.Equal(sw9.b[:3], pre), "equal": bytes.Equal(sw9.b, want)})
	}
	return canon, alts, nil
}

// decodeTyped decodes bytes into fresh typed targets and reads every row back.
func decodeTyped(cs []bcol, data []byte, rev int, reuse *rand.Rand) map[string]any {
	var targets []colgen.Col
	var res proto.Results
	for _, c := range cs {
		col := c.kind.New()
		if reuse != nil {
			// a target that held other rows before: they must not show
			for i, n := 0, 1+reuse.Intn(3); i < n; i++ {
				col.Append(c.kind.Gen(reuse, 6))
			}
			if reuse.Intn(2) == 0 {
				col.Column().Reset()
			}
		}
		targets = append(targets, col)
		res = append(res, proto.ResultColumn{Name: c.name, Data: col.Column()})
	}
	r := proto.NewReader(bytes.NewReader(data))
	var blk proto.Block
	out := map[string]any{}
	if err := safely(func() error { return blk.DecodeBlock(r, rev, res) }); err != nil {
		out["err"] = err.Error()
		return out
	}
	out["err"] = ""
	out["rows"] = blk.Rows
	cols := []any{}
	for _, t := range targets {
		vals := []any{}
		// a decode that returned nil may still have left a column its accessors cannot read
		if perr := safely(func() error {
			n := t.Column().Rows()
			for i := 0; i < n; i++ {
				vals = append(vals, t.Row(i))
			}
			return nil
		}); perr != nil {
			out["rowPanic"] = perr.Error()
			vals = []any{}
		}
		cols = append(cols, vals)
	}
	out["cols"] = cols
	// nothing may be left unread
	rest := make([]byte, 1)
	n, _ := r.Read(rest)
	out["leftover"] = n
	return out
}

// decodeAuto decodes through automatic inference and re-encodes the result.
func decodeAuto(cs []bcol, data []byte, rev int, canon []byte) map[string]any {
	var res proto.Results
	r := proto.NewReader(bytes.NewReader(data))
	var blk proto.Block
	out := map[string]any{}
	if err := safely(func() error { return blk.DecodeBlock(r, rev, res.Auto()) }); err != nil {
		out["err"] = err.Error()
		out["inferError"] = strings.Contains(err.Error(), "infer")
		return out
	}
	out["err"] = ""
	out["inferError"] = false
	names, types := []any{}, []any{}
	var in []proto.InputColumn
	for _, c := range res {
		names = append(names, c.Name)
		types = append(types, string(c.Data.Type()))
		in = append(in, proto.InputColumn{Name: c.Name, Data: c.Data.(proto.ColInput)})
	}
	out["names"], out["types"], out["rows"] = names, types, blk.Rows
	var b proto.Buffer
	if err := safely(func() error { return proto.Block{Columns: len(in), Rows: blk.Rows}.EncodeBlock(&b, rev, in) }); err != nil {
		out["reencode"] = err.Error()
		return out
	}
	out["reencode"] = ""
	out["reencodeEqual"] = bytes.Equal(b.Buf, canon)
	return out
}

// decodeFramed decodes a (cut) compressed frame holding the block through proto.Reader.
func decodeFramed(cs []bcol, data []byte, rev int) string {
	var res proto.Results
	for _, c := range cs {
		res = append(res, proto.ResultColumn{Name: c.name, Data: c.kind.New().Column()})
	}
	r := proto.NewReader(bytes.NewReader(data))
	r.EnableCompression()
	var blk proto.Block
	if err := safely(func() error { return blk.DecodeBlock(r, rev, res) }); err != nil {
		return err.Error()
	}
	return ""
}

func safely(f func() error) (err error) {
	defer func() {
		if p := recover(); p != nil {
			err = fmt.Errorf("panic: %v", p)
		}
	}()
	return f()
}

func codecMain(args []string) error {
	fs := flag.NewFlagSet("codec", flag.ExitOnError)
	out := fs.String("out", "", "trace file")
	depth := fs.Int("depth", 2, "composition depth of the type universe")
	seed := fs.Int64("seed", 1, "seed")
	per := fs.Int("per", 3, "blocks per kind and revision")
	revs := fs.String("revs", "54460,54454,54453,51903,51902", "protocol revisions")
	mode := fs.String("mode", "blocks", "blocks | dual | special")
	prefix := fs.Bool("prefix", false, "also decode every proper prefix of every encoding (C07)")
	shard := fs.Int("shard", 0, "this shard")
	nshard := fs.Int("nshard", 1, "number of shards")
	fs.Parse(args)
	tw, err := tracew.Create(*out)
	if err != nil {
		return err
	}
	var rs []int
	for _, s := range strings.Split(*revs, ",") {
		n, _ := strconv.Atoi(s)
		rs = append(rs, n)
	}
	kinds := colgen.Universe(*depth)
	if *mode == "dual" {
		kinds = colgen.Dual()
	}
	rng := rand.New(rand.NewSource(*seed + int64(*shard)*7919))
	n := 0
	bigCuts := false // also cut the next (big) block, at sampled positions
	emit := func(cs []bcol, rows, rev int) error {
		var (
			canon []byte
			alts  []map[string]any
		)
		encErr := safely(func() (e error) { canon, alts, e = encodeAll(cs, rows, rev); return e })
		var cols []any
		for _, c := range cs {
			cols = append(cols, map[string]any{"name": colgen.Ints([]byte(c.name)), "type": colgen.Ints([]byte(c.kind.Name())),
				"tname": c.kind.Name(), "ast": c.kind.AST(), "vals": c.vals})
		}
		if encErr != nil {
			tw.Emit(map[string]any{"ev": "Block", "rev": rev, "rows": rows, "cols": cols, "bytes": []int{}, "alts": []any{},
				"encodeErr": encErr.Error(), "typed": map[string]any{"err": "not run"}, "reused": map[string]any{"err": "not run"},
				"auto": map[string]any{"inferError": true}})
			n++
			return nil
		}
		if alts == nil {
			alts = []map[string]any{}
		}
		tw.Emit(map[string]any{"ev": "Block", "rev": rev, "rows": rows, "cols": cols, "bytes": colgen.Ints(canon), "alts": alts,
			"encodeErr": "", "typed": decodeTyped(cs, canon, rev, nil), "reused": decodeTyped(cs, canon, rev, rng),
			"auto": decodeAuto(cs, canon, rev, canon)})
		n++
		if *prefix && (len(canon) <= 20000 || bigCuts) {
			// every proper prefix, plain and inside a compressed frame, typed and inferred: the cuts the library accepted
			// (a block beyond 20000 bytes is cut only where asked for: at its ends, around every MiB, and at a stride)
			acceptedTyped, acceptedAuto, acceptedFramed := []int{}, []int{}, []int{}
			cutHere := func(k int) bool {
				if len(canon) <= 20000 || k < 96 || k >= len(canon)-96 {
					return true
				}
				if m := k % (1 << 20); m <= 2 || m >= 1<<20-2 {
					return true
				}
				return k%(len(canon)/97+1) == 0
			}
			ncuts := 0
			for k := 0; k < len(canon); k++ {
				if !cutHere(k) {
					continue
				}
				ncuts++
				if decodeTyped(cs, canon[:k], rev, nil)["err"] == "" {
					acceptedTyped = append(acceptedTyped, k)
				}
				if decodeAuto(cs, canon[:k], rev, canon)["err"] == "" {
					acceptedAuto = append(acceptedAuto, k)
				}
			}
			frame := compress.NewWriter(compress.LevelZero, []compress.Method{compress.LZ4, compress.ZSTD, compress.None, compress.LZ4HC}[n%4])
			framedLen := 0
			if err := frame.Compress(canon); err == nil {
				framedLen = len(frame.Data)
				step := 1
				if framedLen > 600 {
					step = framedLen / 600
				}
				for k := 0; k < framedLen; k += step {
					if decodeFramed(cs, frame.Data[:k], rev) == "" {
						acceptedFramed = append(acceptedFramed, k)
					}
				}
			}
			probes := []int{}
			for i := 0; i < 4 && len(canon) > 0; i++ {
				probes = append(probes, rng.Intn(len(canon)))
			}
			var asts []any
			for _, c := range cs {
				asts = append(asts, c.kind.AST())
			}
			tw.Emit(map[string]any{"ev": "Prefix", "rev": rev, "rows": rows, "asts": asts, "tname": cs[0].kind.Name(), "bytes": colgen.Ints(canon),
				"cuts": ncuts, "acceptedTyped": acceptedTyped, "acceptedAuto": acceptedAuto, "framedCuts": framedLen,
				"acceptedFramed": acceptedFramed, "probes": probes})
			n++
		}
		return nil
	}
	if *mode == "special" {
		// boundary blocks: string lengths around the varint boundaries, dictionaries around the key-width boundaries
		b := colgen.NewBases()
		kinds = []colgen.Kind{b.Str}
		mkStr := func(n int, fill byte) any { return colgen.Ints(bytes.Repeat([]byte{fill}, n)) }
		var svals []any
		for _, n := range []int{0, 1, 127, 128, 129, 16383, 16384, 16385} {
			svals = append(svals, mkStr(n, byte('a'+n%7)))
		}
		if *shard == 0 {
			if err := emit([]bcol{{kind: b.Str, name: "s", vals: svals}}, len(svals), rs[0]); err != nil {
				return err
			}
			if err := emit([]bcol{{kind: colgen.Array(b.Str), name: "as", vals: []any{svals, []any{}, svals[:3]}}}, 3, rs[0]); err != nil {
				return err
			}
		}
		if *shard == 1%*nshard {
			// a string beyond 1 MiB (long values are read in steps) as the last thing of the block
			bigCuts = true
			big := mkStr(1<<20+5000, 'B')
			if err := emit([]bcol{{kind: b.Str, name: "s", vals: []any{mkStr(3, 'x'), big}}}, 2, rs[0]); err != nil {
				return err
			}
			bigCuts = false
		}
		// row counts around the chunk sizes decoders like to read in (4096, 8192): one-byte-per-row kinds, the last column
		// of the block being the one whose end a cut removes
		for ri, rows := range []int{4095, 4096, 4097, 8192} {
			if (ri+2)%*nshard != *shard {
				continue
			}
			nn := colgen.Nullable(colgen.Nothing())
			nulls, bytesv := make([]any, rows), make([]any, rows)
			for i := range nulls {
				nulls[i] = nn.Zero()
				bytesv[i] = colgen.Ints([]byte{byte(i % 251)})
			}
			if err := emit([]bcol{{kind: b.U8, name: "u", vals: bytesv}, {kind: nn, name: "nn", vals: nulls}}, rows, rs[0]); err != nil {
				return err
			}
			if err := emit([]bcol{{kind: nn, name: "nn", vals: nulls}, {kind: b.U8, name: "u", vals: bytesv}}, rows, rs[0]); err != nil {
				return err
			}
		}
		u32 := func(i int) any { return colgen.Ints([]byte{byte(i), byte(i >> 8), byte(i >> 16), byte(i >> 24)}) }
		for di, d := range []int{254, 255, 256, 257, 65534, 65535, 65536, 65537} {
			if di%*nshard != *shard {
				continue
			}
			vals := make([]any, 0, d+3)
			for i := 0; i < d; i++ {
				vals = append(vals, u32(i*7+1))
			}
			vals = append(vals, u32(1), u32(8), u32((d-1)*7+1))
			if err := emit([]bcol{{kind: colgen.LowCardinality(b.U32), name: "lc", vals: vals}}, len(vals), rs[0]); err != nil {
				return err
			}
			if d < 1000 {
				sv := make([]any, 0, d+2)
				for i := 0; i < d; i++ {
					sv = append(sv, colgen.Ints([]byte(fmt.Sprintf("v%d", i))))
				}
				sv = append(sv, colgen.Ints([]byte("v0")), colgen.Ints([]byte(fmt.Sprintf("v%d", d-1))))
				if err := emit([]bcol{{kind: colgen.Array(colgen.LowCardinality(b.Str)), name: "alc", vals: []any{sv, []any{}, sv[:2]}}}, 3, rs[0]); err != nil {
					return err
				}
			}
		}
		kinds = nil
	}
	for ki, k := range kinds {
		if ki%*nshard != *shard {
			continue
		}
		for _, rev := range rs {
			for j := 0; j < *per; j++ {
				rows := []int{0, 1, 2, 3, 5}[rng.Intn(5)]
				if j == 0 {
					rows = 0
				}
				vals := make([]any, rows)
				for i := range vals {
					vals[i] = k.Gen(rng, 8)
					// corner rows: every row the "nothing" of its kind (empty array / map, NULL, zero) - the last block of
					// every kind and revision; and single rows of it mixed in elsewhere
					if j == *per-1 || rng.Intn(6) == 0 {
						vals[i] = k.Zero()
					}
				}
				cs := []bcol{{kind: k, name: fmt.Sprintf("c%d", ki), vals: vals}}
				// sometimes a second column of another kind in the same block
				if rng.Intn(3) == 0 {
					k2 := kinds[rng.Intn(len(kinds))]
					v2 := make([]any, rows)
					for i := range v2 {
						v2[i] = k2.Gen(rng, 6)
					}
					cs = append(cs, bcol{kind: k2, name: "second col", vals: v2})
				}
				if err := emit(cs, rows, rev); err != nil {
					return err
				}
			}
		}
	}
	// column decoders on arbitrary bytes (every byte value for one-byte kinds), into fresh and into reused targets
	decodeCol := func(k colgen.Kind, data []byte, rows int, reuse bool) (string, []any) {
		col := k.New()
		if reuse {
			col.Append(k.Gen(rng, 4))
			col.Column().Reset()
		}
		r := proto.NewReader(bytes.NewReader(data))
		if err := safely(func() error { return col.Column().DecodeColumn(r, rows) }); err != nil {
			return err.Error(), []any{}
		}
		vals := []any{}
		for i := 0; i < col.Column().Rows(); i++ {
			vals = append(vals, col.Row(i))
		}
		return "", vals
	}
	for ki, k := range kinds {
		if ki%*nshard != *shard {
			continue
		}
		w, ok := k.AST()["w"].(int)
		if k.AST()["k"] == "bool" {
			w, ok = 1, true
		}
		if !ok || k.AST()["k"] == "fstring" {
			continue
		}
		var inputs [][]byte
		if w == 1 {
			all := make([]byte, 256)
			for i := range all {
				all[i] = byte(i)
			}
			inputs = append(inputs, all, []byte{0, 1, 1, 0}, []byte{2}, []byte{1, 255})
			// one bad byte at every position of columns of every small length (and a few longer ones)
			for _, nrows := range []int{1, 2, 3, 4, 5, 6, 7, 8, 9, 15, 16, 17, 23, 24, 25, 31, 32, 33, 64, 65, 128} {
				for pos := 0; pos < nrows; pos++ {
					if nrows > 33 && pos%7 != 0 && pos < nrows-9 {
						continue
					}
					b := make([]byte, nrows)
					for i := range b {
						b[i] = byte((i*7 + pos) % 2)
					}
					b[pos] = []byte{2, 255, 128}[(pos+nrows)%3]
					inputs = append(inputs, b)
				}
			}
		} else if *mode == "dual" && w == 2 {
			for hi := 0; hi < 256; hi += 16 {
				b := make([]byte, 0, 16*256*2)
				for h := hi; h < hi+16; h++ {
					for lo := 0; lo < 256; lo++ {
						b = append(b, byte(lo), byte(h))
					}
				}
				inputs = append(inputs, b)
			}
		}
		for j := 0; j < 3; j++ {
			b := make([]byte, w*(1+rng.Intn(6)))
			rng.Read(b)
			inputs = append(inputs, b)
		}
		for _, in := range inputs {
			rows := len(in) / w
			e1, v1 := decodeCol(k, in, rows, false)
			e2, v2 := decodeCol(k, in, rows, true)
			tw.Emit(map[string]any{"ev": "Decode", "tname": k.Name(), "ast": k.AST(), "rows": rows, "bytes": colgen.Ints(in),
				"err": e1, "vals": v1, "reusedErr": e2, "reusedVals": v2})
			n++
		}
	}
	// columns beyond one MiB on the wire (reads of that size may be done in steps): encoded, decoded into a fresh column,
	// encoded again; the line carries the digests of both encodings and of the rows read back one by one
	if *mode == "dual" {
		for ki, k := range kinds {
			w, _ := k.AST()["w"].(int)
			if k.AST()["k"] != "fixed" || w == 0 || ki%*nshard != *shard {
				continue
			}
			rows := (1<<20)/w + 1 + rng.Intn(4000)
			src := k.New()
			seedv := uint64(ki)*0x9e3779b97f4a7c15 + 12345
			val := make([]int, w)
			for i := 0; i < rows; i++ {
				for j := range val {
					seedv = seedv*6364136223846793005 + 1442695040888963407
					val[j] = int(seedv >> 56)
				}
				if k.Name() == "Bool" {
					val[0] &= 1
				}
				src.Append(append([]int(nil), val...))
			}
			var b1, b2 proto.Buffer
			src.Column().(proto.ColInput).EncodeColumn(&b1)
			dst := k.New()
			errS := ""
			rowSum := sha256.New()
			if err := safely(func() error { return dst.Column().DecodeColumn(proto.NewReader(bytes.NewReader(b1.Buf)), rows) }); err != nil {
				errS = err.Error()
			} else if err := safely(func() error {
				dst.Column().(proto.ColInput).EncodeColumn(&b2)
				for i := 0; i < dst.Column().Rows(); i += 1 + dst.Column().Rows()/5000 {
					fmt.Fprint(rowSum, dst.Row(i))
				}
				return nil
			}); err != nil {
				errS = err.Error()
			}
			wantSum := sha256.New()
			for i := 0; i < rows; i += 1 + rows/5000 {
				fmt.Fprint(wantSum, src.Row(i))
			}
			s1, s2 := sha256.Sum256(b1.Buf), sha256.Sum256(b2.Buf)
			tw.Emit(map[string]any{"ev": "BigColumn", "tname": k.Name(), "rows": rows, "rowsOut": dst.Column().Rows(), "bytes": len(b1.Buf), "err": errS,
				"inSum": hex.EncodeToString(s1[:8]), "outSum": hex.EncodeToString(s2[:8]),
				"rowsSumIn": hex.EncodeToString(wantSum.Sum(nil)[:8]), "rowsSumOut": hex.EncodeToString(rowSum.Sum(nil)[:8])})
			n++
		}
	}
	if err := tw.Close(); err != nil {
		return err
	}
	fmt.Printf("{\"blocks\":%d,\"lines\":%d,\"kinds\":%d}\n", n, tw.N, len(kinds))
	return nil
}
