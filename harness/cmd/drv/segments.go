package main

import (
	"context"
	"errors"
	"flag"
	"fmt"
	"io"
	"math/rand"
	"net"
	"os"
	"sync"
	"time"

	ch "github.com/ClickHouse/ch-go"
	"github.com/ClickHouse/ch-go/proto"

	"verifharness/lifecycle"
	"verifharness/simconn"
	"verifharness/tracew"
)

func init() { subcmds["segments"] = segmentsMain }

// One server response (a script of packets) is delivered to a real client running Do in many different
// segmentations; the connection's Reads, the callbacks and the result are recorded in the receiver's program order
// (spec/Segmentation.tla, spec/Trace_Segmentation.tla).

type segScript struct {
	items []lifecycle.Item
	comp  string
	rev   int
}

type segEv map[string]any

type segLog struct {
	mu  sync.Mutex
	evs []segEv
}

func (l *segLog) add(e segEv) {
	l.mu.Lock()
	l.evs = append(l.evs, e)
	l.mu.Unlock()
}

func segErrClass(err error) string {
	var exc *ch.Exception
	var ne net.Error
	switch {
	case err == nil:
		return "nil"
	case errors.As(err, &exc):
		return fmt.Sprintf("exception:%d", int(exc.Code))
	case errors.Is(err, io.ErrUnexpectedEOF):
		return "unexpected-eof"
	case errors.Is(err, io.EOF):
		return "eof"
	case errors.Is(err, os.ErrDeadlineExceeded) || (errors.As(err, &ne) && ne.Timeout()):
		return "timeout"
	case errors.Is(err, net.ErrClosed):
		return "closed"
	case errors.Is(err, context.Canceled), errors.Is(err, context.DeadlineExceeded):
		return "ctx"
	}
	return "other"
}

func idOfSuffix(s, prefix string) int {
	var i, j int
	if _, err := fmt.Sscanf(s, prefix+"-%d-%d", &i, &j); err != nil {
		return -1
	}
	return i
}

// pieces: the sizes of the segments; timeouts[i]: inject a read time-out before piece i (if the reader waits at a
// packet boundary with a deadline armed).
type segPlan struct {
	name     string
	pieces   []int
	timeouts map[int]int
}

type segResult struct {
	evs         []segEv
	undelivered int
	injected    int
	stuck       string
}

func runSegments(sc segScript, chunks [][]byte, plan segPlan) (*segResult, error) {
	conn := simconn.New()
	var hello proto.Buffer
	(&proto.ServerHello{Name: "VerifServer", Major: 23, Minor: 8, Revision: sc.rev, Timezone: "UTC", DisplayName: "verif", Patch: 1}).EncodeAware(&hello, proto.Version)
	conn.Deliver(hello.Buf)
	comp := map[string]ch.Compression{"disabled": ch.CompressionDisabled, "none": ch.CompressionNone, "lz4": ch.CompressionLZ4, "zstd": ch.CompressionZSTD}[sc.comp]
	hctx, hcancel := context.WithTimeout(context.Background(), 10*time.Second)
	cl, err := ch.Connect(hctx, conn, ch.Options{Compression: comp, ReadTimeout: time.Hour})
	hcancel()
	if err != nil {
		return nil, fmt.Errorf("connect: %w", err)
	}
	defer cl.Close()
	var stream []byte
	for _, c := range chunks {
		stream = append(stream, c...)
	}
	lg := &segLog{}
	conn.OnRead = func(start bool, n int, err error) {
		if start {
			lg.add(segEv{"e": "rs"})
			return
		}
		lg.add(segEv{"e": "re", "n": n, "err": segErrClass(err)})
	}
	var resX proto.ColUInt64
	var resY proto.ColStr
	lastRes := 0
	q := ch.Query{Body: "SELECT 1", QueryID: "verif-seg", Result: proto.Results{{Name: "x", Data: &resX}, {Name: "y", Data: &resY}}}
	q.OnResult = func(ctx context.Context, b proto.Block) error {
		id := -1
		for i := lastRes + 1; i <= len(sc.items); i++ {
			n, ok := map[string]int{"hdr": 0, "data": 2, "totals": 1, "bigdata": lifecycle.BigRows}[sc.items[i-1].K]
			if !ok {
				continue
			}
			x, y := lifecycle.ResultValues(i, n)
			if n == lifecycle.BigRows {
				x, y = lifecycle.ResultValuesBig(i)
			}
			if len(x) != resX.Rows() || len(y) != resY.Rows() {
				continue
			}
			same := true
			for j := range x {
				if x[j] != resX[j] || y[j] != resY.Row(j) {
					same = false
				}
			}
			if same {
				id, lastRes = i, i
				break
			}
		}
		lg.add(segEv{"e": "cb", "name": "result", "pkt": id, "rows": b.Rows})
		return nil
	}
	q.OnProgress = func(ctx context.Context, p proto.Progress) error {
		lg.add(segEv{"e": "cb", "name": "progress", "pkt": int(p.Rows), "rows": int(p.Bytes)})
		return nil
	}
	q.OnProfile = func(ctx context.Context, p proto.Profile) error {
		lg.add(segEv{"e": "cb", "name": "profile", "pkt": int(p.Rows), "rows": int(p.Bytes)})
		return nil
	}
	q.OnLogs = func(ctx context.Context, l []ch.Log) error {
		id := -1
		if len(l) > 0 {
			id = idOfSuffix(l[0].Text, "log")
		}
		lg.add(segEv{"e": "cb", "name": "logs", "pkt": id, "rows": len(l)})
		return nil
	}
	q.OnProfileEvents = func(ctx context.Context, e []ch.ProfileEvent) error {
		id := -1
		if len(e) > 0 {
			id = idOfSuffix(e[0].Name, "pe")
		}
		lg.add(segEv{"e": "cb", "name": "pevents", "pkt": id, "rows": len(e)})
		return nil
	}
	conn.SkipServerRead()
	done := make(chan error, 1)
	var finished bool
	var fmu sync.Mutex
	isDone := func() bool { fmu.Lock(); defer fmu.Unlock(); return finished }
	ctx, cancel := context.WithTimeout(context.Background(), 20*time.Second)
	defer cancel()
	go func() {
		err := cl.Do(ctx, q)
		fmu.Lock()
		finished = true
		fmu.Unlock()
		conn.Kick()
		done <- err
	}()
	res := &segResult{}
	// a server answers a request it has read: wait until the whole request (Query packet, empty external-data block)
	// has been written - otherwise the response can fail the query while its sender is still flushing, and which of
	// the two errors Do returns is up to the Go scheduler
	if err := awaitRequest(conn, cl.ServerInfo().Revision, sc.comp != "disabled"); err != nil {
		return nil, fmt.Errorf("the client's request did not arrive: %w", err)
	}
	// the feeder: a piece is handed over only when the reader waits with nothing to read
	off, calls := 0, conn.ReadCalls()-1
	closes := len(sc.items) > 0 && (sc.items[len(sc.items)-1].K == "cut" || sc.items[len(sc.items)-1].K == "trunc")
	for i, n := range plan.pieces {
		if !conn.WaitStarved(calls, isDone) {
			res.undelivered = len(stream) - off
			break
		}
		for k := 0; k < plan.timeouts[i]; k++ {
			calls = conn.ReadCalls()
			if !conn.InjectReadTimeout() {
				break
			}
			res.injected++
			if !conn.WaitStarved(calls, isDone) {
				break
			}
		}
		calls = conn.ReadCalls()
		conn.Deliver(stream[off : off+n])
		off += n
	}
	if off == len(stream) {
		if conn.WaitStarved(calls, isDone) {
			if closes {
				conn.ServerClose()
			} else {
				// everything was delivered and the reader still waits: it will wait for ever
				res.stuck = "the reader waits for more bytes after the whole response was delivered"
				conn.Close()
			}
		}
	}
	var derr error
	select {
	case derr = <-done:
	case <-time.After(25 * time.Second):
		res.stuck = "Do did not return"
		conn.Close()
		derr = <-done
	}
	conn.OnRead = nil
	errText := ""
	if derr != nil {
		errText = derr.Error()
	}
	ret := segEv{"e": "ret", "errText": errText, "err": segErrClass(derr), "closed": cl.IsClosed(), "undelivered": res.undelivered, "stuck": res.stuck}
	var exc *ch.Exception
	chain := []int{}
	if errors.As(derr, &exc) {
		chain = append(chain, int(exc.Code))
		for _, nx := range exc.Next {
			chain = append(chain, int(nx.Code))
		}
	}
	ret["chain"] = chain
	lg.add(ret)
	res.evs = lg.evs
	return res, nil
}

// awaitRequest reads the client's request for a SELECT the way a server does.
func awaitRequest(conn *simconn.Conn, rev int, compressed bool) error {
	if rev > proto.Version {
		rev = proto.Version
	}
	r := proto.NewReader(conn.ServerReader())
	code, err := r.UVarInt()
	if err != nil {
		return err
	}
	if proto.ClientCode(code) != proto.ClientCodeQuery {
		return fmt.Errorf("unexpected client packet %d", code)
	}
	var q proto.Query
	if err := q.DecodeAware(r, rev); err != nil {
		return err
	}
	for {
		code, err := r.UVarInt()
		if err != nil {
			return err
		}
		if proto.ClientCode(code) != proto.ClientCodeData {
			return fmt.Errorf("unexpected client packet %d", code)
		}
		var cd proto.ClientData
		if err := cd.DecodeAware(r, rev); err != nil {
			return err
		}
		if compressed {
			r.EnableCompression()
		}
		var blk proto.Block
		var res proto.Results
		err = blk.DecodeBlock(r, rev, res.Auto())
		if compressed {
			r.DisableCompression()
		}
		if err != nil {
			return err
		}
		if blk.Columns == 0 && blk.Rows == 0 {
			return nil
		}
	}
}

func segScripts(r *rand.Rand, n int) [][]lifecycle.Item {
	fixed := [][]lifecycle.Item{
		{{K: "eos"}},
		{{K: "prog"}, {K: "eos"}},
		{{K: "exc"}},
		{{K: "hdr"}, {K: "data"}, {K: "eos"}},
		{{K: "hdr"}, {K: "data"}, {K: "prog"}, {K: "data"}, {K: "profile"}, {K: "eos"}},
		{{K: "hdr"}, {K: "data"}, {K: "exc"}},
		{{K: "hdr"}, {K: "data"}, {K: "totals"}, {K: "log", N: 2}, {K: "pevents", N: 3}, {K: "tcols"}, {K: "eos"}},
		{{K: "hdr"}, {K: "data"}, {K: "cut"}},
		{{K: "hdr"}, {K: "trunc"}},
		{{K: "prog"}, {K: "bad"}},
		{{K: "hdr"}, {K: "garbage"}},
		{{K: "log", N: 1}, {K: "prog"}, {K: "pevents", N: 1}, {K: "eos"}},
		// multi-byte varints: row counts, string lengths, counters, messages
		{{K: "hdr"}, {K: "bigdata"}, {K: "bigprog"}, {K: "eos"}},
		{{K: "bigprog"}, {K: "log", N: 130}, {K: "longexc"}},
		{{K: "hdr"}, {K: "bigprog"}, {K: "bigdata"}, {K: "pevents", N: 140}, {K: "longexc"}},
	}
	out := append([][]lifecycle.Item{}, fixed...)
	mid := []lifecycle.Item{{K: "data"}, {K: "data"}, {K: "prog"}, {K: "profile"}, {K: "log", N: 1}, {K: "log", N: 3}, {K: "pevents", N: 2}, {K: "totals"}, {K: "tcols"}}
	ends := []lifecycle.Item{{K: "eos"}, {K: "eos"}, {K: "eos"}, {K: "exc"}, {K: "cut"}, {K: "trunc"}, {K: "bad"}}
	for len(out) < n {
		var s []lifecycle.Item
		if r.Intn(4) != 0 {
			s = append(s, lifecycle.Item{K: "hdr"})
		}
		for i, m := 0, r.Intn(7); i < m; i++ {
			s = append(s, mid[r.Intn(len(mid))])
		}
		s = append(s, ends[r.Intn(len(ends))])
		out = append(out, s)
	}
	return out
}

func segmentsMain(args []string) error {
	fs := flag.NewFlagSet("segments", flag.ExitOnError)
	out := fs.String("out", "", "trace file")
	seed := fs.Int64("seed", 1, "seed")
	nscripts := fs.Int("scripts", 30, "number of scripts")
	allTwo := fs.Int("alltwo", 260, "streams up to this length are cut in two at every offset (longer ones: packet edges + stride)")
	nrand := fs.Int("rand", 6, "random segmentations per stream")
	shard := fs.Int("shard", 0, "this shard")
	nshard := fs.Int("nshard", 1, "number of shards")
	onlyCase := fs.String("case", "", "replay: only this case (e.g. s86-zstd)")
	onlyPlan := fs.String("plan", "", "replay: only this plan besides the reference (e.g. two@100)")
	repeat := fs.Int("repeat", 1, "replay: run the selected plan this often")
	fs.Parse(args)
	tw, err := tracew.Create(*out)
	if err != nil {
		return err
	}
	r := rand.New(rand.NewSource(*seed))
	scripts := segScripts(r, *nscripts)
	comps := []string{"disabled", "lz4", "zstd", "none"}
	runs, caseNo := 0, 0
	for si, items := range scripts {
		for ci, comp := range comps {
			if si >= 15 && (si+ci)%2 == 1 { // random scripts: two compression modes each
				continue
			}
			caseNo++
			if *onlyCase != "" {
				if fmt.Sprintf("s%d-%s", si, comp) != *onlyCase {
					continue
				}
			} else if caseNo%*nshard != *shard {
				continue
			}
			cr := rand.New(rand.NewSource(*seed*100003 + int64(si*10+ci)))
			sc := segScript{items: items, comp: comp, rev: []int{54460, 54460, 54451, 54429}[cr.Intn(4)]}
			chunks := lifecycle.EncodeScript(sc.rev, comp != "disabled", false, items)
			total := 0
			bounds := []int{}
			for _, c := range chunks { // bounds[i]: end offset of item i+1 (an item without bytes ends where it starts)
				total += len(c)
				bounds = append(bounds, total)
			}
			if total == 0 {
				continue
			}
			// the plans
			plans := []segPlan{{name: "one", pieces: []int{total}}}
			ones := make([]int, total)
			for i := range ones {
				ones[i] = 1
			}
			plans = append(plans, segPlan{name: "bytes", pieces: ones})
			for k := 1; k < total; k++ {
				near := false
				for _, b := range append([]int{0}, bounds...) {
					if k-b >= -4 && k-b <= 30 {
						near = true
					}
				}
				if total <= *allTwo || near || k%7 == 0 {
					plans = append(plans, segPlan{name: fmt.Sprintf("two@%d", k), pieces: []int{k, total - k}})
				}
			}
			if total <= 11 { // every one of the 2^(n-1) splits
				for mask := 0; mask < 1<<(total-1); mask++ {
					var ps []int
					run := 1
					for b := 0; b < total-1; b++ {
						if mask&(1<<b) != 0 {
							ps = append(ps, run)
							run = 1
						} else {
							run++
						}
					}
					ps = append(ps, run)
					plans = append(plans, segPlan{name: fmt.Sprintf("mask%d", mask), pieces: ps})
				}
			}
			for j := 0; j < *nrand; j++ {
				var ps []int
				left := total
				for left > 0 {
					n := 1 + cr.Intn([]int{2, 5, 17, 64, 300}[cr.Intn(5)])
					if n > left {
						n = left
					}
					ps = append(ps, n)
					left -= n
				}
				plans = append(plans, segPlan{name: fmt.Sprintf("rand%d", j), pieces: ps})
			}
			// segmentations at the packet boundaries with idle gaps (read time-outs) before the pieces
			var pk []int
			prev := 0
			for _, b := range bounds {
				if b > prev {
					pk = append(pk, b-prev)
				}
				prev = b
			}
			for j := 0; j < 3; j++ {
				to := map[int]int{}
				for i := range pk {
					if j == 0 || cr.Intn(2) == 0 {
						to[i] = 1 + cr.Intn(2)
					}
				}
				plans = append(plans, segPlan{name: fmt.Sprintf("gaps%d", j), pieces: pk, timeouts: to})
			}
			// a plan mixing arbitrary cuts and gaps: a time-out can only fire when the cut is a packet boundary
			{
				var ps []int
				to := map[int]int{}
				left, i := total, 0
				for left > 0 {
					n := 1 + cr.Intn(40)
					if n > left {
						n = left
					}
					ps = append(ps, n)
					to[i] = 1
					left -= n
					i++
				}
				plans = append(plans, segPlan{name: "randgaps", pieces: ps, timeouts: to})
			}
			var ref []segEv
			var refRet segEv
			if *onlyPlan != "" {
				var sel []segPlan
				for pi, pl := range plans {
					if pi == 0 {
						sel = append(sel, pl)
					} else if pl.name == *onlyPlan {
						for k := 0; k < *repeat; k++ {
							sel = append(sel, pl)
						}
					}
				}
				plans = sel
			}
			for pi, plan := range plans {
				res, err := runSegments(sc, chunks, plan)
				if err != nil {
					return err
				}
				if pi == 0 {
					for _, e := range res.evs {
						if e["e"] == "cb" {
							ref = append(ref, segEv{"name": e["name"], "pkt": e["pkt"], "rows": e["rows"]})
						}
						if e["e"] == "ret" {
							refRet = segEv{"err": e["err"], "closed": e["closed"], "chain": e["chain"]}
						}
					}
					if ref == nil {
						ref = []segEv{}
					}
				}
				var itemsJ []string
				for _, it := range items {
					itemsJ = append(itemsJ, it.K)
				}
				tw.Emit(map[string]any{"ev": "Begin", "case": fmt.Sprintf("s%d-%s", si, comp), "plan": plan.name, "items": itemsJ, "rev": sc.rev,
					"total": total, "bounds": bounds, "ref": ref, "refRet": refRet, "injected": res.injected, "npieces": len(plan.pieces)})
				for _, e := range res.evs {
					e["ev"] = e["e"]
					delete(e, "e")
					tw.Emit(e)
				}
				runs++
			}
		}
	}
	if err := tw.Close(); err != nil {
		return err
	}
	fmt.Printf("{\"blocks\":%d,\"lines\":%d}\n", runs, tw.N)
	return nil
}
