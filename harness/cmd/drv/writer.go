package main

import (
	"errors"
	"flag"
	"fmt"
	"io"
	"math/rand"
	"net"
	"os"

	"github.com/ClickHouse/ch-go/proto"

	"verifharness/tracew"
)

func init() { subcmds["writer"] = writerMain }

// recWriter is the io.Writer under the proto.Writer: it accepts `limit` bytes in total
// (0 = everything) and then fails, recording a copy of every byte it accepted.
type recWriter struct {
	limit int
	got   []byte
	fails int
}

var errInjected = errors.New("injected write failure")

func (r *recWriter) Write(p []byte) (int, error) {
	if r.limit == 0 {
		r.got = append(r.got, p...)
		return len(p), nil
	}
	room := r.limit - len(r.got)
	if room >= len(p) {
		r.got = append(r.got, p...)
		return len(p), nil
	}
	if room < 0 {
		room = 0
	}
	r.got = append(r.got, p[:room]...)
	// the class of the failure must not matter to what the writer keeps: generic, time-out (an expired write deadline),
	// short write and closed-pipe errors take turns
	r.fails++
	switch r.fails % 4 {
	case 1:
		return room, &net.OpError{Op: "write", Net: "sim", Err: os.ErrDeadlineExceeded}
	case 2:
		return room, io.ErrShortWrite
	case 3:
		return room, io.ErrClosedPipe
	}
	return room, errInjected
}

type wop struct {
	Ev   string `json:"ev"`
	T    int    `json:"t,omitempty"`
	Bs   []int  `json:"bs,omitempty"`
	Mode int    `json:"mode"`
	Out  []int  `json:"out,omitempty"`
	Err  bool   `json:"err"`
}

// wrun executes operations on a real proto.Writer and emits one trace line per operation.
type wrun struct {
	tw    *tracew.W
	w     *proto.Writer
	rec   *recWriter
	next  byte
	uncut int      // bytes appended since the last cut (bound for Rewrite)
	exts  [][]byte // external slices chained since the last flush
}

func (r *wrun) reset() {
	r.rec = &recWriter{}
	r.w = proto.NewWriter(r.rec, new(proto.Buffer))
	r.next = 0
	r.uncut = 0
	r.exts = nil
	r.tw.Emit(map[string]any{"ev": "Reset"})
}

func (r *wrun) fresh(k int) []byte {
	b := make([]byte, k)
	for i := range b {
		r.next++
		if r.next > 250 {
			r.next = 1
		}
		b[i] = r.next
	}
	return b
}

func (r *wrun) app(k int) {
	bs := r.fresh(k)
	r.w.ChainBuffer(func(b *proto.Buffer) { b.Buf = append(b.Buf, bs...) })
	r.uncut += k
	r.tw.Emit(map[string]any{"ev": "App", "bs": tracew.Ints(bs)})
}

func (r *wrun) rewrite(t, k int) bool {
	if t > r.uncut {
		return false
	}
	bs := r.fresh(k)
	r.w.ChainBuffer(func(b *proto.Buffer) { b.Buf = append(b.Buf[:len(b.Buf)-t], bs...) })
	r.uncut += k - t
	r.tw.Emit(map[string]any{"ev": "Rewrite", "t": t, "bs": tracew.Ints(bs)})
	return true
}

func (r *wrun) chainWrite(k int) {
	bs := r.fresh(k)
	r.w.ChainWrite(bs)
	r.exts = append(r.exts, bs)
	r.uncut = 0
	r.tw.Emit(map[string]any{"ev": "ChainWrite", "bs": tracew.Ints(append([]byte(nil), bs...))})
}

func (r *wrun) flush(mode int) {
	r.rec.limit = mode
	r.rec.got = r.rec.got[:0]
	_, err := r.w.Flush()
	out := append([]byte(nil), r.rec.got...)
	// The caller owns chained slices again after Flush: scribble over them.
	for _, e := range r.exts {
		for i := range e {
			e[i] = 0xEE
		}
	}
	r.exts = nil
	r.uncut = 0
	r.tw.Emit(map[string]any{"ev": "Flush", "mode": mode, "out": tracew.Ints(out), "err": err != nil})
}

// op codes for enumeration: 0,1 App(1|2); 2..5 Rewrite(t,k); 6..8 ChainWrite(0|1|2); 9..11 Flush(0|1|2)
const nWOps = 12

func (r *wrun) do(op int) bool {
	switch {
	case op < 2:
		r.app(op + 1)
	case op < 6:
		o := op - 2
		return r.rewrite(o/2+1, o%2+1)
	case op < 9:
		r.chainWrite(op - 6)
	default:
		r.flush(op - 9)
	}
	return true
}

func writerMain(args []string) error {
	fs := flag.NewFlagSet("writer", flag.ExitOnError)
	out := fs.String("out", "", "trace file")
	depth := fs.Int("depth", 4, "exhaustive enumeration depth")
	nrand := fs.Int("rand", 200, "number of random long sequences")
	rlen := fs.Int("randlen", 60, "length of random sequences")
	seed := fs.Int64("seed", 1, "seed")
	fs.Parse(args)
	tw, err := tracew.Create(*out)
	if err != nil {
		return err
	}
	r := &wrun{tw: tw}
	seqs := 0
	// Exhaustive: every sequence of exactly `depth` operations (sequences with an inapplicable
	// Rewrite are skipped as a whole; their applicable prefixes are prefixes of other sequences).
	seq := make([]int, *depth)
	var rec func(i int)
	rec = func(i int) {
		if i == *depth {
			// dry-run applicability check
			uncut := 0
			for _, op := range seq {
				switch {
				case op < 2:
					uncut += op + 1
				case op < 6:
					o := op - 2
					t, k := o/2+1, o%2+1
					if t > uncut {
						return
					}
					uncut += k - t
				default:
					uncut = 0
				}
			}
			r.reset()
			for _, op := range seq {
				r.do(op)
			}
			seqs++
			return
		}
		for op := 0; op < nWOps; op++ {
			seq[i] = op
			rec(i + 1)
		}
	}
	rec(0)
	// Random long sequences with realistic sizes (several reallocations of the staging buffer).
	rng := rand.New(rand.NewSource(*seed))
	for n := 0; n < *nrand; n++ {
		r.reset()
		for i := 0; i < *rlen; i++ {
			switch rng.Intn(10) {
			case 0, 1, 2, 3:
				r.app(1 + rng.Intn(40))
			case 4:
				if r.uncut > 0 {
					r.rewrite(1+rng.Intn(r.uncut), rng.Intn(30))
				}
			case 5, 6, 7:
				r.chainWrite(rng.Intn(25))
			default:
				m := 0
				if rng.Intn(3) == 0 {
					m = 1 + rng.Intn(60)
				}
				r.flush(m)
			}
		}
		r.flush(0)
		seqs++
	}
	if err := tw.Close(); err != nil {
		return err
	}
	fmt.Printf("{\"sequences\":%d,\"lines\":%d}\n", seqs, tw.N)
	return nil
}
