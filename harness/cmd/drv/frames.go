package main

import (
	"bufio"
	"encoding/json"
	"flag"
	"fmt"
	"os"

	"verifharness/framesdrv"
	"verifharness/tracew"
)

func init() { subcmds["frames"] = framesMain }

func framesMain(args []string) error {
	fs := flag.NewFlagSet("frames", flag.ExitOnError)
	in := fs.String("in", "", "case file (ndjson)")
	out := fs.String("out", "", "trace file (ndjson)")
	fs.Parse(args)
	f, err := os.Open(*in)
	if err != nil {
		return err
	}
	defer f.Close()
	tw, err := tracew.Create(*out)
	if err != nil {
		return err
	}
	sc := bufio.NewScanner(f)
	sc.Buffer(make([]byte, 1<<20), 1<<26)
	n := 0
	for sc.Scan() {
		if len(sc.Bytes()) == 0 {
			continue
		}
		var c framesdrv.Case
		if err := json.Unmarshal(sc.Bytes(), &c); err != nil {
			return err
		}
		runs, err := framesdrv.RunAll(c)
		if err != nil {
			return err
		}
		for _, evs := range runs {
			for _, e := range evs {
				tw.Emit(e)
			}
			n++
		}
	}
	if err := tw.Close(); err != nil {
		return err
	}
	fmt.Printf("{\"cases\":%d,\"lines\":%d}\n", n, tw.N)
	return nil
}
