package main

import (
	"bytes"
	"encoding/binary"
	"flag"
	"fmt"
	"math/rand"
	"strconv"
	"strings"

	"github.com/ClickHouse/ch-go/proto"
	"go.opentelemetry.io/otel/trace"

	"verifharness/colgen"
	"verifharness/tracew"
)

func init() { subcmds["messages"] = messagesMain }

type field struct {
	N string `json:"n"`
	B any    `json:"b"`
}

func fstr(n, s string) field        { return field{n, colgen.Ints([]byte(s))} }
func fuv(n string, v uint64) field  { return field{n, colgen.Ints(binary.AppendUvarint(nil, v))} }
func fraw(n string, b []byte) field { return field{n, colgen.Ints(b)} }
func fbool(n string, v bool) field {
	if v {
		return fraw(n, []byte{1})
	}
	return fraw(n, []byte{0})
}
func le64(v uint64) []byte { b := make([]byte, 8); binary.LittleEndian.PutUint64(b, v); return b }
func le32(v uint32) []byte { b := make([]byte, 4); binary.LittleEndian.PutUint32(b, v); return b }

func rstr(r *rand.Rand) string {
	switch r.Intn(8) {
	case 0:
		return ""
	case 1:
		return strings.Repeat("x", []int{127, 128, 300}[r.Intn(3)])
	case 2:
		return "\xff\xfe\x00 non-utf8 \x80"
	}
	b := make([]byte, 1+r.Intn(12))
	for i := range b {
		b[i] = byte('a' + r.Intn(26))
	}
	return string(b)
}
func ruv(r *rand.Rand) uint64 {
	switch r.Intn(6) {
	case 0:
		return 0
	case 1:
		return 1<<64 - 1
	case 2:
		return 127 + uint64(r.Intn(3))
	}
	return uint64(r.Int63()) >> uint(r.Intn(60))
}
func rint(r *rand.Rand) int { return int(ruv(r) >> 1) }

func clientInfoFields(ci proto.ClientInfo) []field {
	fs := []field{
		fraw("info.query", []byte{byte(ci.Query)}), fstr("info.initialUser", ci.InitialUser), fstr("info.initialQueryID", ci.InitialQueryID),
		fstr("info.initialAddress", ci.InitialAddress), fraw("info.initialTime", le64(uint64(ci.InitialTime))),
		fraw("info.interface", []byte{byte(ci.Interface)}), fstr("info.osUser", ci.OSUser), fstr("info.hostname", ci.ClientHostname),
		fstr("info.clientName", ci.ClientName), fuv("info.major", uint64(ci.Major)), fuv("info.minor", uint64(ci.Minor)),
		fuv("info.protocolVersion", uint64(ci.ProtocolVersion)), fstr("info.quotaKey", ci.QuotaKey),
		fuv("info.distributedDepth", uint64(ci.DistributedDepth)), fuv("info.patch", uint64(ci.Patch)),
	}
	if ci.Span.IsValid() {
		tid, sid := ci.Span.TraceID(), ci.Span.SpanID()
		// each 8-byte half of the trace id and the span id go out byte-reversed
		rev8 := func(b []byte) []byte {
			o := make([]byte, len(b))
			for i := 0; i < len(b); i += 8 {
				for j := 0; j < 8; j++ {
					o[i+j] = b[i+7-j]
				}
			}
			return o
		}
		fs = append(fs, fraw("info.otel", []byte{1}), fraw("info.traceID", rev8(tid[:])), fraw("info.spanID", rev8(sid[:])),
			fstr("info.traceState", ci.Span.TraceState().String()), fraw("info.traceFlags", []byte{byte(ci.Span.TraceFlags())}))
	} else {
		fs = append(fs, fraw("info.otel", []byte{0}), fraw("info.traceID", nil), fraw("info.spanID", nil), fstr("info.traceState", ""),
			fraw("info.traceFlags", nil))
	}
	c := uint64(0)
	if ci.CollaborateWithInitiator {
		c = 1
	}
	return append(fs, fuv("info.collaborate", c), fuv("info.replicas", uint64(ci.CountParticipatingReplicas)),
		fuv("info.replicaNumber", uint64(ci.NumberOfCurrentReplica)))
}

func randClientInfo(r *rand.Rand) proto.ClientInfo {
	ci := proto.ClientInfo{
		ProtocolVersion: rint(r) % 100000, Major: rint(r) % 1000, Minor: rint(r) % 1000, Patch: rint(r) % 1000,
		Interface:   []proto.Interface{proto.InterfaceTCP, proto.InterfaceTCP, proto.InterfaceHTTP}[r.Intn(3)],
		Query:       []proto.ClientQueryKind{proto.ClientQueryNone, proto.ClientQueryInitial, proto.ClientQuerySecondary}[r.Intn(3)],
		InitialUser: rstr(r), InitialQueryID: rstr(r), InitialAddress: rstr(r), InitialTime: int64(ruv(r)), OSUser: rstr(r),
		ClientHostname: rstr(r), ClientName: rstr(r), QuotaKey: rstr(r), DistributedDepth: rint(r) % 1000,
		CollaborateWithInitiator: r.Intn(2) == 0, CountParticipatingReplicas: rint(r) % 100, NumberOfCurrentReplica: rint(r) % 100,
	}
	if r.Intn(2) == 0 {
		var tid trace.TraceID
		var sid trace.SpanID
		r.Read(tid[:])
		r.Read(sid[:])
		tid[0] |= 1
		sid[0] |= 1
		ts, _ := trace.ParseTraceState("k1=v1,k2=v2")
		if r.Intn(2) == 0 {
			ts = trace.TraceState{}
		}
		ci.Span = trace.NewSpanContext(trace.SpanContextConfig{TraceID: tid, SpanID: sid, TraceFlags: trace.TraceFlags([]int{0, 1, 2, 3, 0x80, 0xff, r.Intn(256)}[r.Intn(7)]), TraceState: ts})
	}
	return ci
}

func settingItems(ss []proto.Setting) any {
	items := []any{}
	for _, s := range ss {
		var fl uint64
		if s.Important {
			fl |= 1
		}
		if s.Custom {
			fl |= 2
		}
		if s.Obsolete {
			fl |= 4
		}
		items = append(items, []any{
			map[string]any{"c": "str", "b": colgen.Ints([]byte(s.Key))},
			map[string]any{"c": "wire", "b": colgen.Ints(binary.AppendUvarint(nil, fl))},
			map[string]any{"c": "str", "b": colgen.Ints([]byte(s.Value))},
		})
	}
	return items
}

type msgCase struct {
	kind   string
	fields []field
	encode func(b *proto.Buffer, rev int)
	decode func(r *proto.Reader, rev int) ([]field, error) // reads what encode wrote, minus a leading packet code the dispatcher consumes
	skip   int                                             // bytes of packet code in front that DecodeAware does not read
}

func nonEmptyKey(r *rand.Rand) string {
	for {
		if s := rstr(r); s != "" {
			return s
		}
	}
}

func genCases(r *rand.Rand) []msgCase {
	var out []msgCase
	{ // ClientHello
		m := proto.ClientHello{Name: rstr(r), Major: rint(r), Minor: rint(r), ProtocolVersion: rint(r), Database: rstr(r), User: rstr(r), Password: rstr(r)}
		mk := func(m proto.ClientHello) []field {
			return []field{fraw("code", []byte{0}), fstr("name", m.Name), fuv("major", uint64(m.Major)), fuv("minor", uint64(m.Minor)),
				fuv("protocolVersion", uint64(m.ProtocolVersion)), fstr("database", m.Database), fstr("user", m.User), fstr("password", m.Password)}
		}
		out = append(out, msgCase{kind: "ClientHello", fields: mk(m), skip: 1,
			encode: func(b *proto.Buffer, _ int) { m.Encode(b) },
			decode: func(rd *proto.Reader, _ int) ([]field, error) {
				var d proto.ClientHello
				err := d.Decode(rd)
				return mk(d), err
			}})
	}
	{ // ServerHello
		m := proto.ServerHello{Name: rstr(r), Major: rint(r), Minor: rint(r), Revision: rint(r), Timezone: rstr(r), DisplayName: rstr(r), Patch: rint(r)}
		mk := func(m proto.ServerHello) []field {
			return []field{fraw("code", []byte{0}), fstr("name", m.Name), fuv("major", uint64(m.Major)), fuv("minor", uint64(m.Minor)),
				fuv("revision", uint64(m.Revision)), fstr("timezone", m.Timezone), fstr("displayName", m.DisplayName), fuv("patch", uint64(m.Patch))}
		}
		out = append(out, msgCase{kind: "ServerHello", fields: mk(m), skip: 1,
			encode: func(b *proto.Buffer, rev int) { m.EncodeAware(b, rev) },
			decode: func(rd *proto.Reader, rev int) ([]field, error) {
				var d proto.ServerHello
				err := d.DecodeAware(rd, rev)
				return mk(d), err
			}})
	}
	{ // ClientInfo
		m := randClientInfo(r)
		out = append(out, msgCase{kind: "ClientInfo", fields: clientInfoFields(m),
			encode: func(b *proto.Buffer, rev int) { m.EncodeAware(b, rev) },
			decode: func(rd *proto.Reader, rev int) ([]field, error) {
				var d proto.ClientInfo
				err := d.DecodeAware(rd, rev)
				return clientInfoFields(d), err
			}})
	}
	{ // Query
		q := proto.Query{ID: rstr(r), Body: rstr(r), Secret: rstr(r), Stage: proto.StageComplete, Info: randClientInfo(r),
			Compression: []proto.Compression{proto.CompressionDisabled, proto.CompressionEnabled}[r.Intn(2)]}
		for i, n := 0, r.Intn(4); i < n; i++ {
			q.Settings = append(q.Settings, proto.Setting{Key: nonEmptyKey(r), Value: rstr(r), Important: r.Intn(2) == 0, Custom: r.Intn(3) == 0, Obsolete: r.Intn(5) == 0})
		}
		for i, n := 0, r.Intn(3); i < n; i++ {
			q.Parameters = append(q.Parameters, proto.Parameter{Key: nonEmptyKey(r), Value: rstr(r)})
		}
		mk := func(q proto.Query) []field {
			fs := []field{fraw("code", []byte{1}), fstr("id", q.ID)}
			fs = append(fs, clientInfoFields(q.Info)...)
			var ps []proto.Setting
			for _, p := range q.Parameters {
				ps = append(ps, proto.Setting{Key: p.Key, Value: p.Value, Custom: true})
			}
			return append(fs, field{"settings", settingItems(q.Settings)}, fstr("settingsEnd", ""), fstr("secret", q.Secret),
				fuv("stage", uint64(q.Stage)), fuv("compression", uint64(q.Compression)), fstr("body", q.Body),
				field{"parameters", settingItems(ps)}, fstr("parametersEnd", ""))
		}
		out = append(out, msgCase{kind: "Query", fields: mk(q), skip: 1,
			encode: func(b *proto.Buffer, rev int) { q.EncodeAware(b, rev) },
			decode: func(rd *proto.Reader, rev int) ([]field, error) {
				var d proto.Query
				err := d.DecodeAware(rd, rev)
				return mk(d), err
			}})
	}
	{ // ClientData header
		m := proto.ClientData{TableName: rstr(r)}
		mk := func(m proto.ClientData) []field { return []field{fstr("tableName", m.TableName)} }
		out = append(out, msgCase{kind: "ClientData", fields: mk(m),
			encode: func(b *proto.Buffer, rev int) { m.EncodeAware(b, rev) },
			decode: func(rd *proto.Reader, rev int) ([]field, error) {
				var d proto.ClientData
				err := d.DecodeAware(rd, rev)
				return mk(d), err
			}})
	}
	{ // Progress
		m := proto.Progress{Rows: ruv(r), Bytes: ruv(r), TotalRows: ruv(r), WroteRows: ruv(r), WroteBytes: ruv(r), ElapsedNs: ruv(r)}
		mk := func(m proto.Progress) []field {
			return []field{fuv("rows", m.Rows), fuv("bytes", m.Bytes), fuv("totalRows", m.TotalRows), fuv("wroteRows", m.WroteRows),
				fuv("wroteBytes", m.WroteBytes), fuv("elapsedNs", m.ElapsedNs)}
		}
		out = append(out, msgCase{kind: "Progress", fields: mk(m),
			encode: func(b *proto.Buffer, rev int) { m.EncodeAware(b, rev) },
			decode: func(rd *proto.Reader, rev int) ([]field, error) {
				var d proto.Progress
				err := d.DecodeAware(rd, rev)
				return mk(d), err
			}})
	}
	{ // Profile
		m := proto.Profile{Rows: ruv(r), Blocks: ruv(r), Bytes: ruv(r), AppliedLimit: r.Intn(2) == 0, RowsBeforeLimit: ruv(r), CalculatedRowsBeforeLimit: r.Intn(2) == 0}
		mk := func(m proto.Profile) []field {
			return []field{fraw("code", []byte{6}), fuv("rows", m.Rows), fuv("blocks", m.Blocks), fuv("bytes", m.Bytes), fbool("appliedLimit", m.AppliedLimit),
				fuv("rowsBeforeLimit", m.RowsBeforeLimit), fbool("calculated", m.CalculatedRowsBeforeLimit)}
		}
		out = append(out, msgCase{kind: "Profile", fields: mk(m), skip: 1,
			encode: func(b *proto.Buffer, rev int) { m.EncodeAware(b, rev) },
			decode: func(rd *proto.Reader, rev int) ([]field, error) {
				var d proto.Profile
				err := d.DecodeAware(rd, rev)
				return mk(d), err
			}})
	}
	{ // Exception
		m := proto.Exception{Code: proto.Error(int32(r.Uint32())), Name: rstr(r), Message: rstr(r), Stack: rstr(r), Nested: r.Intn(2) == 0}
		mk := func(m proto.Exception) []field {
			return []field{fraw("code", le32(uint32(int32(m.Code)))), fstr("name", m.Name), fstr("message", m.Message), fstr("stack", m.Stack), fbool("nested", m.Nested)}
		}
		out = append(out, msgCase{kind: "Exception", fields: mk(m),
			encode: func(b *proto.Buffer, rev int) { m.EncodeAware(b, rev) },
			decode: func(rd *proto.Reader, rev int) ([]field, error) {
				var d proto.Exception
				err := d.DecodeAware(rd, rev)
				return mk(d), err
			}})
	}
	{ // TableColumns
		m := proto.TableColumns{First: rstr(r), Second: rstr(r)}
		mk := func(m proto.TableColumns) []field {
			return []field{fraw("code", []byte{11}), fstr("first", m.First), fstr("second", m.Second)}
		}
		out = append(out, msgCase{kind: "TableColumns", fields: mk(m), skip: 1,
			encode: func(b *proto.Buffer, rev int) { m.EncodeAware(b, rev) },
			decode: func(rd *proto.Reader, rev int) ([]field, error) {
				var d proto.TableColumns
				err := d.DecodeAware(rd, rev)
				return mk(d), err
			}})
	}
	return out
}

func messagesMain(args []string) error {
	fs := flag.NewFlagSet("messages", flag.ExitOnError)
	out := fs.String("out", "", "trace file")
	revs := fs.String("revs", "", "comma separated revisions, or lo-hi")
	seed := fs.Int64("seed", 1, "seed")
	per := fs.Int("per", 1, "value sets per revision")
	shard := fs.Int("shard", 0, "this shard")
	nshard := fs.Int("nshard", 1, "number of shards")
	fs.Parse(args)
	var rs []int
	if lo, hi, ok := strings.Cut(*revs, "-"); ok {
		a, _ := strconv.Atoi(lo)
		b, _ := strconv.Atoi(hi)
		for v := a; v <= b; v++ {
			rs = append(rs, v)
		}
	} else {
		for _, s := range strings.Split(*revs, ",") {
			n, _ := strconv.Atoi(s)
			rs = append(rs, n)
		}
	}
	tw, err := tracew.Create(*out)
	if err != nil {
		return err
	}
	n := 0
	for ri, rev := range rs {
		if ri%*nshard != *shard {
			continue
		}
		r := rand.New(rand.NewSource(*seed*100003 + int64(rev)))
		for j := 0; j < *per; j++ {
			for _, c := range genCases(r) {
				var b proto.Buffer
				b.Buf = append(b.Buf, 0xEE, 0xEE, 0xEE) // bytes already in the buffer must stay
				encErr := safely(func() error { c.encode(&b, rev); return nil })
				enc := b.Buf
				prefixKept := len(enc) >= 3 && bytes.Equal(enc[:3], []byte{0xEE, 0xEE, 0xEE})
				if prefixKept {
					enc = enc[3:]
				}
				ev := map[string]any{"ev": "Msg", "kind": c.kind, "rev": rev, "fields": c.fields, "bytes": colgen.Ints(enc),
					"encErr": errStr(encErr), "prefixKept": prefixKept}
				body := enc
				if c.skip <= len(body) {
					body = body[c.skip:]
				}
				rd := proto.NewReader(bytes.NewReader(body))
				var dec []field
				decErr := safely(func() error { var e error; dec, e = c.decode(rd, rev); return e })
				rest := make([]byte, 64)
				left, _ := rd.Read(rest)
				if dec == nil {
					dec = []field{}
				}
				ev["decoded"], ev["decErr"], ev["leftover"] = dec, errStr(decErr), left
				// every proper prefix must be refused
				acc := []int{}
				if decErr == nil {
					for k := 0; k < len(body); k++ {
						prd := proto.NewReader(bytes.NewReader(body[:k]))
						if safely(func() error { _, e := c.decode(prd, rev); return e }) == nil {
							acc = append(acc, k)
						}
					}
				}
				ev["prefixAccepted"] = acc
				tw.Emit(ev)
				n++
			}
		}
	}
	if err := tw.Close(); err != nil {
		return err
	}
	fmt.Printf("{\"blocks\":%d,\"lines\":%d}\n", n, tw.N)
	return nil
}
