package main

import (
	"bufio"
	"encoding/json"
	"flag"
	"fmt"
	"os"
	"sync"

	"verifharness/lifecycle"
	"verifharness/pooldrv"
	"verifharness/tracew"
)

func init() { subcmds["free"] = freeMain }

type freeCase struct {
	Pool *pooldrv.FreeCase `json:"pool"`
	// several requests on one client, one after the other (the scenario fields above are then unused)
	Session []lifecycle.Scenario `json:"session"`
	// per request of a session: "" | "cancel" | "close"
	SessionEnv   []string           `json:"sessionEnv"`
	Scenario     lifecycle.Scenario `json:"scenario"`
	ForeignClose bool               `json:"foreignClose"`
	Cancel       bool               `json:"cancel"`
	Seed         int64              `json:"seed"`
	Repeat       int                `json:"repeat"`
	FarDeadline  bool               `json:"farDeadline"`
	CancelAtUs   int                `json:"cancelAtUs"`
}

// free -in cases.ndjson -out outcomes.ndjson: free-running runs (no gates, no hooks), several at the same time.
func freeMain(args []string) error {
	fs := flag.NewFlagSet("free", flag.ExitOnError)
	in := fs.String("in", "", "case file (ndjson)")
	out := fs.String("out", "", "outcome file (ndjson)")
	par := fs.Int("par", 4, "runs at the same time")
	fs.Parse(args)
	f, err := os.Open(*in)
	if err != nil {
		return err
	}
	defer f.Close()
	var cases []freeCase
	sc := bufio.NewScanner(f)
	sc.Buffer(make([]byte, 1<<20), 1<<26)
	for sc.Scan() {
		if len(sc.Bytes()) == 0 {
			continue
		}
		var c freeCase
		if err := json.Unmarshal(sc.Bytes(), &c); err != nil {
			return err
		}
		cases = append(cases, c)
	}
	tw, err := tracew.Create(*out)
	if err != nil {
		return err
	}
	sem := make(chan struct{}, *par)
	var wg sync.WaitGroup
	var emu sync.Mutex
	var firstErr error
	for _, c := range cases {
		rep := c.Repeat
		if rep < 1 {
			rep = 1
		}
		for k := 0; k < rep; k++ {
			wg.Add(1)
			sem <- struct{}{}
			go func(c freeCase, k int) {
				defer wg.Done()
				defer func() { <-sem }()
				if c.Pool != nil {
					pc := *c.Pool
					pc.Seed = pc.Seed*1000 + int64(k)
					ev, err := pooldrv.RunFree(pc)
					if err != nil {
						emu.Lock()
						if firstErr == nil {
							firstErr = fmt.Errorf("pool case %s: %w", pc.ID, err)
						}
						emu.Unlock()
						return
					}
					tw.Emit(ev)
					return
				}
				if len(c.Session) > 0 {
					var fos []lifecycle.FreeOpts
					for i := range c.Session {
						fo := lifecycle.FreeOpts{Seed: c.Seed*1000 + int64(k)*10 + int64(i), PingAfter: true}
						if i < len(c.SessionEnv) {
							fo.Cancel = c.SessionEnv[i] == "cancel"
							fo.ForeignClose = c.SessionEnv[i] == "close"
						}
						fos = append(fos, fo)
					}
					evs, err := lifecycle.RunFreeSession(c.Session, fos)
					if err != nil {
						emu.Lock()
						if firstErr == nil {
							firstErr = fmt.Errorf("session %s: %w", c.Session[0].ID, err)
						}
						emu.Unlock()
						return
					}
					// the lines of one session stay together
					emu.Lock()
					for i, ev := range evs {
						ev["foreignCloseAsked"] = fos[i].ForeignClose
						ev["cancelAsked"] = fos[i].Cancel
						ev["session"] = fmt.Sprintf("%s#%d", c.Session[0].ID, k)
						tw.Emit(ev)
					}
					emu.Unlock()
					return
				}
				ev, err := lifecycle.RunFree(c.Scenario, lifecycle.FreeOpts{ForeignClose: c.ForeignClose, Cancel: c.Cancel, Seed: c.Seed*1000 + int64(k), PingAfter: k%2 == 0,
					FarDeadline: c.FarDeadline, CancelAtUs: c.CancelAtUs})
				if err != nil {
					emu.Lock()
					if firstErr == nil {
						firstErr = fmt.Errorf("case %s: %w", c.Scenario.ID, err)
					}
					emu.Unlock()
					return
				}
				ev["foreignCloseAsked"] = c.ForeignClose
				ev["cancelAsked"] = c.Cancel
				tw.Emit(ev)
			}(c, k)
		}
	}
	wg.Wait()
	if firstErr != nil {
		return firstErr
	}
	if err := tw.Close(); err != nil {
		return err
	}
	fmt.Printf("{\"blocks\":%d,\"lines\":%d}\n", tw.N, tw.N)
	return nil
}
