package main

import (
	"bytes"
	"flag"
	"fmt"
	"math/rand"

	"github.com/ClickHouse/ch-go/proto"

	"verifharness/colgen"
	"verifharness/tracew"
)

func init() { subcmds["history"] = historyMain }

// historyKinds are the kinds whose objects keep state beyond their values, plus representatives of the rest.
func historyKinds() []colgen.Kind {
	b := colgen.NewBases()
	return []colgen.Kind{
		colgen.LowCardinality(b.Str), colgen.LowCardinality(b.U32), colgen.Array(colgen.LowCardinality(b.Str)),
		b.Str, colgen.Array(b.Str), colgen.Nullable(b.Str), colgen.Map(b.Str, b.U8), colgen.Map(colgen.LowCardinality(b.Str), colgen.Array(b.U16)),
		b.U64, b.FS3, b.FS16, colgen.Tuple(b.Str, b.U8), colgen.Array(colgen.Array(b.U8)), colgen.Array(colgen.Nullable(b.I32)),
		b.Bool, b.UUID, b.Pt, b.Noth, colgen.Nullable(b.F64), colgen.Tuple(colgen.LowCardinality(b.Str), colgen.Array(b.Str)),
		b.U8, b.I128, colgen.Array(b.FS3), colgen.Map(b.Str, colgen.LowCardinality(b.Str)),
	}
}

const rev = 54460

// history ops: 0,1,2 append value #n; 3 reset; 4 prepare; 5 encode block; 6 write block + flush; 7 decode valid data;
// 8 failed decode (truncated data); 9 append two rows at once
const nHOps = 10

type hrun struct {
	tw   *tracew.W
	kind colgen.Kind
	col  colgen.Col
	v    [3]any
}

func (h *hrun) encodeFresh(vals []any) []byte {
	c := h.kind.New()
	for _, v := range vals {
		c.Append(v)
	}
	var b proto.Buffer
	in := []proto.InputColumn{{Name: "c", Data: c.Column()}}
	if err := (proto.Block{Columns: 1, Rows: len(vals)}).EncodeRawBlock(&b, rev, in); err != nil {
		panic(err)
	}
	return b.Buf
}

func (h *hrun) do(op int) {
	col := h.col.Column()
	switch op {
	case 0, 1, 2:
		h.col.Append(h.v[op])
		h.tw.Emit(map[string]any{"ev": "Append", "v": h.v[op], "rows": col.Rows()})
	case 9:
		h.col.Append(h.v[2])
		h.col.Append(h.v[0])
		h.tw.Emit(map[string]any{"ev": "Append", "v": h.v[2], "rows": col.Rows() - 1})
		h.tw.Emit(map[string]any{"ev": "Append", "v": h.v[0], "rows": col.Rows()})
	case 3:
		col.Reset()
		h.tw.Emit(map[string]any{"ev": "Reset", "rows": col.Rows()})
	case 4:
		if p, ok := col.(proto.Preparable); ok {
			err := safely(p.Prepare)
			h.tw.Emit(map[string]any{"ev": "Prepare", "rows": col.Rows(), "err": errStr(err)})
		}
	case 5, 6:
		in := []proto.InputColumn{{Name: "c", Data: col}}
		blk := proto.Block{Columns: 1, Rows: col.Rows()}
		var out []byte
		var err error
		if op == 5 {
			var b proto.Buffer
			err = safely(func() error { return blk.EncodeRawBlock(&b, rev, in) })
			out = b.Buf
		} else {
			sw := &sliceWriter{}
			w := proto.NewWriter(sw, new(proto.Buffer))
			err = safely(func() error {
				// WriteBlock writes the block info too; EncodeRawBlock does not: write the raw part by hand
				w.ChainBuffer(func(b *proto.Buffer) { b.PutInt(blk.Columns); b.PutInt(blk.Rows) })
				for _, c := range in {
					w.ChainBuffer(func(b *proto.Buffer) { c.EncodeStart(b, rev) })
					if v, ok := c.Data.(proto.Preparable); ok {
						if err := v.Prepare(); err != nil {
							return err
						}
					}
					if c.Data.Rows() == 0 {
						continue
					}
					if v, ok := c.Data.(proto.StateEncoder); ok {
						w.ChainBuffer(v.EncodeState)
					}
					c.Data.WriteColumn(w)
				}
				_, err := w.Flush()
				return err
			})
			out = sw.b
		}
		h.tw.Emit(map[string]any{"ev": "Encode", "how": map[int]string{5: "EncodeRawBlock", 6: "WriteColumn+Flush"}[op], "bytes": colgen.Ints(out),
			"rows": col.Rows(), "err": errStr(err)})
	case 7, 8:
		if col.Rows() != 0 {
			return // decoding is only defined into an empty (fresh or reset) column
		}
		data := []any{h.v[1], h.v[0], h.v[1]}
		enc := h.encodeFresh(data)
		// skip the raw block header (columns, rows, name, type, flag) to get at state + column data
		r := proto.NewReader(bytes.NewReader(enc))
		var blk proto.Block
		var res proto.Results
		_ = res
		if op == 8 {
			enc = enc[:len(enc)-1]
			r = proto.NewReader(bytes.NewReader(enc))
		}
		err := safely(func() error {
			return blk.DecodeRawBlock(r, rev, proto.Results{{Name: "c", Data: col}})
		})
		if op == 7 {
			read := []any{}
			for i := 0; i < col.Rows(); i++ {
				read = append(read, h.col.Row(i))
			}
			h.tw.Emit(map[string]any{"ev": "DecodeOK", "data": data, "read": read, "rows": col.Rows(), "err": errStr(err)})
		} else {
			h.tw.Emit(map[string]any{"ev": "DecodeFail", "err": errStr(err)})
		}
	}
}

func errStr(err error) string {
	if err == nil {
		return ""
	}
	return err.Error()
}

func historyMain(args []string) error {
	fs := flag.NewFlagSet("history", flag.ExitOnError)
	out := fs.String("out", "", "trace file")
	depth := fs.Int("depth", 4, "exhaustive history length")
	nrand := fs.Int("rand", 100, "random long histories per kind")
	seed := fs.Int64("seed", 1, "seed")
	shard := fs.Int("shard", 0, "this shard")
	nshard := fs.Int("nshard", 1, "number of shards")
	fs.Parse(args)
	tw, err := tracew.Create(*out)
	if err != nil {
		return err
	}
	n := 0
	for ki, k := range historyKinds() {
		if ki%*nshard != *shard {
			continue
		}
		vr := rand.New(rand.NewSource(int64(ki) + 100))
		h := &hrun{tw: tw, kind: k}
		for i := range h.v {
			h.v[i] = k.Gen(vr, 8)
		}
		begin := func() {
			h.col = k.New()
			tw.Emit(map[string]any{"ev": "HBegin", "tname": k.Name(), "ast": k.AST(), "rev": rev})
			n++
		}
		seq := make([]int, *depth)
		var rec func(i int)
		rec = func(i int) {
			if i == *depth {
				begin()
				for _, op := range seq {
					h.do(op)
				}
				return
			}
			for op := 0; op < nHOps; op++ {
				seq[i] = op
				rec(i + 1)
			}
		}
		rec(0)
		rng := rand.New(rand.NewSource(*seed*1000 + int64(ki)))
		for j := 0; j < *nrand; j++ {
			for i := range h.v {
				h.v[i] = k.Gen(rng, 8)
			}
			begin()
			for i, m := 0, 5+rng.Intn(40); i < m; i++ {
				op := rng.Intn(nHOps)
				if op == 8 && rng.Intn(3) != 0 {
					op = 5
				}
				h.do(op)
			}
		}
	}
	if err := tw.Close(); err != nil {
		return err
	}
	fmt.Printf("{\"blocks\":%d,\"lines\":%d}\n", n, tw.N)
	return nil
}
