package main

import (
	"bytes"
	"flag"
	"fmt"
	"math/rand"
	"strings"

	"github.com/ClickHouse/ch-go/proto"

	"verifharness/colgen"
	"verifharness/tracew"
)

func init() { subcmds["history"] = historyMain }

// historyKinds are the kinds whose objects keep state beyond their values, plus representatives of the rest.
func historyKinds() []colgen.Kind {
	b := colgen.NewBases()
	return []colgen.Kind{
		colgen.LowCardinality(b.Str), colgen.LowCardinality(b.U32), colgen.Array(colgen.LowCardinality(b.Str)),
		b.Str, colgen.Array(b.Str), colgen.Nullable(b.Str), colgen.Map(b.Str, b.U8), colgen.Map(colgen.LowCardinality(b.Str), colgen.Array(b.U16)),
		b.U64, b.FS3, b.FS16, colgen.Tuple(b.Str, b.U8), colgen.Array(colgen.Array(b.U8)), colgen.Array(colgen.Nullable(b.I32)),
		b.Bool, b.UUID, b.Pt, b.Noth, colgen.Nullable(b.F64), colgen.Tuple(colgen.LowCardinality(b.Str), colgen.Array(b.Str)),
		b.U8, b.I128, colgen.Array(b.FS3), colgen.Map(b.Str, colgen.LowCardinality(b.Str)),
		// the inferring enum column: its raw values are prepared state, rebuilt from the names before every block
		b.EnT8, b.EnT16, colgen.Nullable(b.EnT8), colgen.Array(b.EnT16),
	}
}

// historyAlt gives, for a kind whose column adopts a definition from the server, the same kind under another definition.
func historyAlt(k colgen.Kind) colgen.Kind {
	b := colgen.NewBases()
	switch k.Name() {
	case b.EnT8.Name():
		return b.EnT8Alt
	case b.EnT16.Name():
		return b.EnT16Alt
	}
	return nil
}

const rev = 54460

// history ops: 0,1,2 append value #n; 3 reset; 4 prepare; 5 encode block; 6 write block + flush; 7 decode valid data;
// 8 failed decode (truncated data); 9 append two rows at once; 10 append bulkN distinct values; 11 decode a block of
// bulkN distinct values; 13 decode a block of zero rows; 12 the column is inferred again with another definition of the same names (kinds that have one)
const nHOps = 14

// bulkN distinct-ish values are enough to leave one-byte LowCardinality keys
var bulkN = 260

type hrun struct {
	tw   *tracew.W
	alt  colgen.Kind // the other definition (op 12 swaps kind and alt)
	kind colgen.Kind
	col  colgen.Col
	v    [3]any
}

func (h *hrun) encodeFresh(vals []any) []byte {
	c := h.kind.New()
	for _, v := range vals {
		c.Append(v)
	}
	var b proto.Buffer
	in := []proto.InputColumn{{Name: "c", Data: c.Column()}}
	if err := (proto.Block{Columns: 1, Rows: len(vals)}).EncodeRawBlock(&b, rev, in); err != nil {
		panic(err)
	}
	return b.Buf
}

func (h *hrun) do(op int) {
	col := h.col.Column()
	switch op {
	case 0, 1, 2:
		h.col.Append(h.v[op])
		h.tw.Emit(map[string]any{"ev": "Append", "v": h.v[op], "rows": col.Rows()})
	case 9:
		h.col.Append(h.v[2])
		h.col.Append(h.v[0])
		h.tw.Emit(map[string]any{"ev": "Append", "v": h.v[2], "rows": col.Rows() - 1})
		h.tw.Emit(map[string]any{"ev": "Append", "v": h.v[0], "rows": col.Rows()})
	case 10:
		vs := h.bulkValues(int64(col.Rows()) + 77)
		for _, v := range vs {
			h.col.Append(v)
		}
		h.tw.Emit(map[string]any{"ev": "AppendMany", "vs": vs, "rows": col.Rows()})
	case 12:
		inf, ok := col.(proto.Inferable)
		if h.alt == nil || !ok {
			return
		}
		err := safely(func() error { return inf.Infer(proto.ColumnType(h.alt.Name())) })
		h.kind, h.alt = h.alt, h.kind
		h.tw.Emit(map[string]any{"ev": "Infer", "tname": h.kind.Name(), "ast": h.kind.AST(), "rows": col.Rows(), "err": errStr(err)})
	case 3:
		col.Reset()
		h.tw.Emit(map[string]any{"ev": "Reset", "rows": col.Rows()})
	case 4:
		if p, ok := col.(proto.Preparable); ok {
			err := safely(p.Prepare)
			h.tw.Emit(map[string]any{"ev": "Prepare", "rows": col.Rows(), "err": errStr(err)})
		}
	case 5, 6:
		in := []proto.InputColumn{{Name: "c", Data: col}}
		blk := proto.Block{Columns: 1, Rows: col.Rows()}
		var out []byte
		var err error
		if op == 5 {
			var b proto.Buffer
			err = safely(func() error { return blk.EncodeRawBlock(&b, rev, in) })
			out = b.Buf
		} else {
			sw := &sliceWriter{}
			w := proto.NewWriter(sw, new(proto.Buffer))
			err = safely(func() error {
				// WriteBlock writes the block info too; EncodeRawBlock does not: write the raw part by hand
				w.ChainBuffer(func(b *proto.Buffer) { b.PutInt(blk.Columns); b.PutInt(blk.Rows) })
				for _, c := range in {
					w.ChainBuffer(func(b *proto.Buffer) { c.EncodeStart(b, rev) })
					if v, ok := c.Data.(proto.Preparable); ok {
						if err := v.Prepare(); err != nil {
							return err
						}
					}
					if c.Data.Rows() == 0 {
						continue
					}
					if v, ok := c.Data.(proto.StateEncoder); ok {
						w.ChainBuffer(v.EncodeState)
					}
					c.Data.WriteColumn(w)
				}
				_, err := w.Flush()
				return err
			})
			out = sw.b
		}
		h.tw.Emit(map[string]any{"ev": "Encode", "how": map[int]string{5: "EncodeRawBlock", 6: "WriteColumn+Flush"}[op], "bytes": colgen.Ints(out),
			"rows": col.Rows(), "err": errStr(err)})
	case 7, 8, 11, 13:
		// (a block is decoded through Results.DecodeResult, which empties its targets first: whatever the column holds)
		data := []any{h.v[1], h.v[0], h.v[1]}
		if op == 11 {
			data = h.bulkValues(1234)
		}
		if op == 13 {
			data = []any{} // a block with the column and no rows (the header block of every result)
		}
		enc := h.encodeFresh(data)
		// skip the raw block header (columns, rows, name, type, flag) to get at state + column data
		r := proto.NewReader(bytes.NewReader(enc))
		var blk proto.Block
		var res proto.Results
		_ = res
		if op == 8 {
			enc = enc[:len(enc)-1]
			r = proto.NewReader(bytes.NewReader(enc))
		}
		err := safely(func() error {
			return blk.DecodeRawBlock(r, rev, proto.Results{{Name: "c", Data: col}})
		})
		if op != 8 {
			read := []any{}
			if perr := safely(func() error {
				for i := 0; i < col.Rows(); i++ {
					read = append(read, h.col.Row(i))
				}
				return nil
			}); perr != nil {
				read, err = []any{}, fmt.Errorf("reading the rows back: %w", perr)
			}
			h.tw.Emit(map[string]any{"ev": "DecodeOK", "data": data, "read": read, "rows": col.Rows(), "err": errStr(err)})
		} else {
			h.tw.Emit(map[string]any{"ev": "DecodeFail", "err": errStr(err)})
		}
	}
}

// bulkValues returns bulkN values, distinct as far as the kind has that many
func (h *hrun) bulkValues(seed int64) []any {
	br := rand.New(rand.NewSource(seed))
	colgen.LCSpread = 1 << 30
	defer func() { colgen.LCSpread = 5 }()
	vs := make([]any, 0, bulkN)
	seen := map[string]bool{}
	for tries := 0; len(vs) < bulkN && tries < 20*bulkN; tries++ {
		v := h.kind.Gen(br, 8)
		key := fmt.Sprint(v)
		if seen[key] && tries < 10*bulkN {
			continue
		}
		seen[key] = true
		vs = append(vs, v)
	}
	return vs
}

func errStr(err error) string {
	if err == nil {
		return ""
	}
	return err.Error()
}

func historyMain(args []string) error {
	fs := flag.NewFlagSet("history", flag.ExitOnError)
	out := fs.String("out", "", "trace file")
	depth := fs.Int("depth", 4, "exhaustive history length")
	nrand := fs.Int("rand", 100, "random long histories per kind")
	seed := fs.Int64("seed", 1, "seed")
	bulk := fs.Bool("bulk", true, "bulk-append histories")
	widep := fs.Int("wide", 2, "LowCardinality kinds that get the long bulk histories")
	shard := fs.Int("shard", 0, "this shard")
	nshard := fs.Int("nshard", 1, "number of shards")
	fs.IntVar(&bulkN, "bulkn", bulkN, "rows per bulk append")
	fs.Parse(args)
	tw, err := tracew.Create(*out)
	if err != nil {
		return err
	}
	n, hi := 0, 0
	wide := *widep
	for ki, k := range historyKinds() {
		h := &hrun{tw: tw, kind: k}
		// one history: three values and a list of operations; histories are dealt to the shards round robin
		runHist := func(v [3]any, ops []int) {
			hi++
			if hi%*nshard != *shard {
				return
			}
			h.v = v
			h.kind, h.alt = k, historyAlt(k)
			h.col = k.New()
			tw.Emit(map[string]any{"ev": "HBegin", "tname": k.Name(), "ast": k.AST(), "rev": rev})
			n++
			for _, op := range ops {
				h.do(op)
			}
		}
		vr := rand.New(rand.NewSource(int64(ki) + 100))
		var v0 [3]any
		for i := range v0 {
			v0[i] = k.Gen(vr, 8)
		}
		seq := make([]int, *depth)
		var rec func(i int)
		rec = func(i int) {
			if i == *depth {
				runHist(v0, append([]int(nil), seq...))
				return
			}
			for _, op := range []int{0, 1, 2, 3, 4, 5, 6, 7, 8, 13} {
				seq[i] = op
				rec(i + 1)
			}
		}
		rec(0)
		if historyAlt(k) != nil {
			// kinds with a second definition: every history over append / reset / prepare / encode / decode / re-infer
			alpha := []int{0, 1, 3, 4, 5, 7, 12, 13}
			seq2 := make([]int, *depth+1)
			var rec2 func(i int)
			rec2 = func(i int) {
				if i == len(seq2) {
					runHist(v0, append(append([]int(nil), seq2...), 5))
					return
				}
				for _, op := range alpha {
					seq2[i] = op
					rec2(i + 1)
				}
			}
			rec2(0)
		}
		// bulk histories: enough distinct values to leave one-byte LowCardinality keys, with every combination of
		// append / reset / encode / decode around them; the observation is a final encode
		if *bulk {
			small := []int{0, 3, 5, 7}
			isLC := strings.Contains(k.Name(), "LowCardinality")
			m := 2
			if isLC && wide > 0 {
				m = 4
				wide--
			}
			idx := make([]int, m)
			var rb func(i int)
			rb = func(i int) {
				if i == m {
					for pos := 0; pos <= m; pos++ {
						for _, big := range []int{10, 11} {
							ops := make([]int, 0, m+2)
							for j := 0; j < m; j++ {
								if j == pos {
									ops = append(ops, big)
								}
								ops = append(ops, small[idx[j]])
							}
							if pos == m {
								ops = append(ops, big)
							}
							runHist(v0, append(ops, 5))
						}
					}
					return
				}
				for o := range small {
					idx[i] = o
					rb(i + 1)
				}
			}
			rb(0)
		}
		rng := rand.New(rand.NewSource(*seed*1000 + int64(ki)))
		for j := 0; j < *nrand; j++ {
			var v [3]any
			for i := range v {
				v[i] = k.Gen(rng, 8)
			}
			var ops []int
			for i, m := 0, 5+rng.Intn(40); i < m; i++ {
				op := rng.Intn(nHOps)
				if op >= 10 && rng.Intn(4) != 0 {
					op = 9
				}
				if op == 8 && rng.Intn(3) != 0 {
					op = 5
				}
				ops = append(ops, op)
			}
			runHist(v, ops)
		}
	}
	if err := tw.Close(); err != nil {
		return err
	}
	fmt.Printf("{\"blocks\":%d,\"lines\":%d}\n", n, tw.N)
	return nil
}
