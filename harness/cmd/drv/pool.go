package main

import (
	"bufio"
	"encoding/json"
	"flag"
	"fmt"
	"os"
	"sync"

	"verifharness/pooldrv"
	"verifharness/tracew"
)

func init() { subcmds["pool"] = poolMain }

// pool -in histories.ndjson -out trace.ndjson [-par N]: replay operation histories on real pools
// (N pools at a time; a history is sequential inside).
func poolMain(args []string) error {
	fs := flag.NewFlagSet("pool", flag.ExitOnError)
	in := fs.String("in", "", "history file (ndjson)")
	out := fs.String("out", "", "trace file (ndjson)")
	par := fs.Int("par", 32, "pools running at the same time")
	fs.Parse(args)
	f, err := os.Open(*in)
	if err != nil {
		return err
	}
	defer f.Close()
	var hs []pooldrv.History
	sc := bufio.NewScanner(f)
	sc.Buffer(make([]byte, 1<<20), 1<<26)
	for sc.Scan() {
		if len(sc.Bytes()) == 0 {
			continue
		}
		var h pooldrv.History
		if err := json.Unmarshal(sc.Bytes(), &h); err != nil {
			return err
		}
		hs = append(hs, h)
	}
	res := make([][]pooldrv.Event, len(hs))
	errs := make([]error, len(hs))
	sem := make(chan struct{}, *par)
	var wg sync.WaitGroup
	for i := range hs {
		wg.Add(1)
		sem <- struct{}{}
		go func(i int) {
			defer wg.Done()
			defer func() { <-sem }()
			res[i], errs[i] = pooldrv.Run(hs[i])
		}(i)
	}
	wg.Wait()
	tw, err := tracew.Create(*out)
	if err != nil {
		return err
	}
	for i := range hs {
		if errs[i] != nil {
			return fmt.Errorf("history %s: %w", hs[i].ID, errs[i])
		}
		for _, e := range res[i] {
			tw.Emit(e)
		}
	}
	if err := tw.Close(); err != nil {
		return err
	}
	fmt.Printf("{\"histories\":%d,\"lines\":%d}\n", len(hs), tw.N)
	return nil
}
