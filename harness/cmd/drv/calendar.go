package main

import (
	"bytes"
	"encoding/binary"
	"flag"
	"fmt"
	"math"
	"math/rand"
	"net/netip"
	"time"
	_ "time/tzdata" // zones with daylight saving for the interval checks, independent of the system

	"github.com/ClickHouse/ch-go/proto"

	"verifharness/tracew"
)

func init() { subcmds["calendar"] = calendarMain }

// civ is a civil time: calendar fields in a zone off seconds east of UTC (spec/Calendar.tla).
type civ struct {
	Y   int `json:"y"`
	M   int `json:"m"`
	D   int `json:"d"`
	H   int `json:"h"`
	Mi  int `json:"mi"`
	S   int `json:"s"`
	Ns  int `json:"ns"`
	Off int `json:"off"`
}

func (c civ) time() time.Time {
	return time.Date(c.Y, time.Month(c.M), c.D, c.H, c.Mi, c.S, c.Ns, time.FixedZone("", c.Off))
}

// civOf reads the fields a time shows in its own location.
func civOf(t time.Time) civ {
	y, m, d := t.Date()
	h, mi, s := t.Clock()
	_, off := t.Zone()
	return civ{y, int(m), d, h, mi, s, t.Nanosecond(), off}
}

var calZones = []int{-43200, -34200, -18000, -3600, 0, 0, 3600, 12600, 19800, 20700, 28800, 45900, 50400}

func floorDiv(a, b int64) int64 {
	q := a / b
	if (a%b != 0) && ((a < 0) != (b < 0)) {
		q--
	}
	return q
}
func floorMod(a, b int64) int64 { return a - floorDiv(a, b)*b }

// split a tick count of precision p into [days, sec, frac]
func splitTicks(v int64, p int) map[string]any {
	pw := int64(1)
	for i := 0; i < p; i++ {
		pw *= 10
	}
	secs, frac := floorDiv(v, pw), floorMod(v, pw)
	return map[string]any{"days": floorDiv(secs, 86400), "sec": floorMod(secs, 86400), "frac": frac}
}

var monthLen = []int{31, 28, 31, 30, 31, 30, 31, 31, 30, 31, 30, 31}

func randClock(r *rand.Rand) (h, mi, s int) {
	switch r.Intn(6) {
	case 0:
		return 0, 0, 0
	case 1:
		return 23, 59, 59
	case 2:
		return 12, 0, 0
	case 3:
		return 0, 0, 1
	}
	return r.Intn(24), r.Intn(60), r.Intn(60)
}

func randNs(r *rand.Rand, p int) int {
	unit := 1
	for i := p; i < 9; i++ {
		unit *= 10
	}
	switch r.Intn(8) {
	case 0:
		return 0
	case 1:
		return 1
	case 2:
		return 999999999
	case 3:
		return unit % 1000000000
	case 4:
		return (unit*(1+r.Intn(9)) - 1 + 1000000000) % 1000000000
	case 5:
		return (r.Intn(1000000000) / unit) * unit // representable
	case 6:
		return 1000000000 - unit
	}
	return r.Intn(1000000000)
}

func randCivil(r *rand.Rand, y0, y1 int) civ {
	y := y0 + r.Intn(y1-y0+1)
	m := 1 + r.Intn(12)
	d := 1 + r.Intn(monthLen[m-1])
	switch r.Intn(8) {
	case 0:
		d = 1
	case 1:
		d = monthLen[m-1]
	case 2:
		m, d = 2, 28
	case 3:
		m, d = 12, 31
	case 4:
		m, d = 1, 1
	case 5:
		m, d = 3, 1
	}
	h, mi, s := randClock(r)
	return civ{Y: y, M: m, D: d, H: h, Mi: mi, S: s, Off: calZones[r.Intn(len(calZones))]}
}

func safeStr(f func()) (s string) {
	defer func() {
		if p := recover(); p != nil {
			s = fmt.Sprint(p)
		}
	}()
	f()
	return ""
}

func le8(v uint64) []int {
	var b [8]byte
	binary.LittleEndian.PutUint64(b[:], v)
	return tracew.Ints(b[:])
}

func calendarMain(args []string) error {
	fs := flag.NewFlagSet("calendar", flag.ExitOnError)
	out := fs.String("out", "", "trace file")
	seed := fs.Int64("seed", 1, "seed")
	mult := fs.Int("mult", 1, "variants per swept day; multiplies the random volumes")
	shard := fs.Int("shard", 0, "this shard")
	nshard := fs.Int("nshard", 1, "number of shards")
	fs.Parse(args)
	tw, err := tracew.Create(*out)
	if err != nil {
		return err
	}
	r := rand.New(rand.NewSource(*seed*7919 + int64(*shard)))
	mine := func(i int) bool { return i%*nshard == *shard }
	// (1) Date: every day 0..65535; Date32: every day 1900-01-01..2299-12-31; a time of day and a zone each
	base := time.Date(1970, 1, 1, 0, 0, 0, 0, time.UTC)
	for day := -25567 - 3; day <= 120529+3; day++ {
		if !mine(day + 30000) {
			continue
		}
		for v := 0; v < *mult; v++ {
			y, m, d := base.AddDate(0, 0, day).Date()
			h, mi, s := randClock(r)
			c := civ{Y: y, M: int(m), D: d, H: h, Mi: mi, S: s, Ns: randNs(r, r.Intn(10)), Off: calZones[r.Intn(len(calZones))]}
			if c.Off != 0 && r.Intn(3) == 0 {
				// a local time whose UTC calendar day is the neighbouring one
				w := c.Off
				if w < 0 {
					w = -w
				}
				sod := r.Intn(w)
				if r.Intn(4) == 0 {
					sod = []int{0, 1, w - 1}[r.Intn(3)]
				}
				if c.Off < 0 {
					sod = 86400 - 1 - sod
				}
				c.H, c.Mi, c.S = sod/3600, sod%3600/60, sod%60
			}
			t := c.time()
			if day >= -3 && day <= 65535+3 {
				dv := proto.ToDate(t)
				tw.Emit(map[string]any{"ev": "ToDate", "c": c, "v": map[string]any{"days": int(dv)}, "back": civOf(dv.Time())})
			}
			d32 := proto.ToDate32(t)
			tw.Emit(map[string]any{"ev": "ToDate32", "c": c, "v": map[string]any{"days": int(d32)}, "back": civOf(d32.Time())})
			if r.Intn(8) == 0 {
				// every way a time gets into the column: Append, AppendArr, and through Array(T)
				how := []string{"Append", "AppendArr", "Array.Append"}[r.Intn(3)]
				var cd proto.ColDate32
				var back time.Time
				e := safeStr(func() {
					switch how {
					case "Append":
						cd.Append(t)
						back = cd.Row(0).UTC()
					case "AppendArr":
						cd.AppendArr([]time.Time{t})
						back = cd.Row(0).UTC()
					default:
						a := cd.Array()
						a.Append([]time.Time{t})
						back = a.Row(0)[0].UTC()
					}
				})
				tw.Emit(map[string]any{"ev": "ColDate32", "how": how, "c": c, "err": e, "back": civOf(back)})
				if day >= 0 && day <= 65535 {
					var c16 proto.ColDate
					e := safeStr(func() {
						switch how {
						case "Append":
							c16.Append(t)
							back = c16.Row(0).UTC()
						case "AppendArr":
							c16.AppendArr([]time.Time{t})
							back = c16.Row(0).UTC()
						default:
							a := c16.Array()
							a.Append([]time.Time{t})
							back = a.Row(0)[0].UTC()
						}
					})
					tw.Emit(map[string]any{"ev": "ColDate", "how": how, "c": c, "err": e, "back": civOf(back)})
				}
			}
		}
	}
	// (1b) around the epoch and the ends of the ranges: every zone, every edge of the clock
	edgeDays := []int{-25567, -25566, -2, -1, 0, 1, 2, 65534, 65535, 120528, 120529}
	cnt := 0
	for _, day := range edgeDays {
		for _, off := range calZones {
			w := off
			if w < 0 {
				w = -w
			}
			for _, sod := range []int{0, 1, 3599, 3600, w - 1, w, w + 1, 43200, 86400 - w - 1, 86400 - w, 86400 - w + 1, 86398, 86399} {
				cnt++
				if sod < 0 || sod >= 86400 || !mine(cnt) {
					continue
				}
				y, m, d := base.AddDate(0, 0, day).Date()
				c := civ{Y: y, M: int(m), D: d, H: sod / 3600, Mi: sod % 3600 / 60, S: sod % 60, Ns: []int{0, 1, 999999999}[cnt%3], Off: off}
				t := c.time()
				if day >= 0 && day <= 65535 {
					dv := proto.ToDate(t)
					tw.Emit(map[string]any{"ev": "ToDate", "c": c, "v": map[string]any{"days": int(dv)}, "back": civOf(dv.Time())})
				}
				d32 := proto.ToDate32(t)
				tw.Emit(map[string]any{"ev": "ToDate32", "c": c, "v": map[string]any{"days": int(d32)}, "back": civOf(d32.Time())})
			}
		}
	}
	// (2) DateTime: boundaries and random seconds of the unsigned 32-bit range, through zones
	nDT := 160000 * *mult / *nshard
	for i := 0; i < nDT; i++ {
		var sec int64
		switch r.Intn(10) {
		case 0:
			sec = []int64{0, 1, 59, 86399, 86400, 1<<31 - 1, 1 << 31, 1<<31 + 1, 1<<32 - 1, 1<<32 - 2, 951782400, 4107542399}[r.Intn(12)]
		case 1:
			sec = int64(r.Intn(49711))*86400 + []int64{0, 86399}[r.Intn(2)]
		default:
			sec = r.Int63n(1 << 32)
		}
		if sec >= 1<<32 {
			sec = 1<<32 - 1
		}
		t := time.Unix(sec, 0).In(time.FixedZone("", calZones[r.Intn(len(calZones))]))
		c := civOf(t)
		v := proto.ToDateTime(t)
		tw.Emit(map[string]any{"ev": "ToDateTime", "c": c, "v": map[string]any{"days": int64(v) / 86400, "sec": int64(v) % 86400}, "back": civOf(v.Time().UTC())})
		if i%8 == 0 {
			col := proto.ColDateTime{Location: time.FixedZone("", calZones[r.Intn(len(calZones))])}
			var back time.Time
			how := []string{"Append", "AppendArr", "Array.Append"}[r.Intn(3)]
			e := safeStr(func() {
				switch how {
				case "Append":
					col.Append(t)
					back = col.Row(0)
				case "AppendArr":
					col.AppendArr([]time.Time{t})
					back = col.Row(0)
				default:
					a := col.Array()
					a.Append([]time.Time{t})
					back = a.Row(0)[0]
				}
			})
			tw.Emit(map[string]any{"ev": "ColInstant", "how": how, "c": c, "p": -1, "err": e, "back": civOf(back)})
		}
	}
	// (3) DateTime64 at every precision: the ends of the documented range, the epoch, the ends of what 64-bit
	// nanoseconds can hold, and random instants; then raw values back to times
	edges := []civ{{Y: 1900, M: 1, D: 1}, {Y: 1900, M: 1, D: 1, S: 1}, {Y: 1969, M: 12, D: 31, H: 23, Mi: 59, S: 59}, {Y: 1970, M: 1, D: 1},
		{Y: 1677, M: 9, D: 21}, {Y: 1678, M: 1, D: 1}, {Y: 1899, M: 12, D: 31, H: 23, Mi: 59, S: 59}, {Y: 2262, M: 4, D: 10, H: 23}, {Y: 2262, M: 4, D: 11, H: 23, Mi: 47, S: 16},
		{Y: 2262, M: 4, D: 11, H: 23, Mi: 47, S: 17}, {Y: 2262, M: 4, D: 12}, {Y: 2263, M: 1, D: 1}, {Y: 2299, M: 12, D: 31, H: 23, Mi: 59, S: 59}, {Y: 2106, M: 2, D: 7, H: 6, Mi: 28, S: 16},
		{Y: 1925, M: 1, D: 1}, {Y: 2283, M: 11, D: 11}, {Y: 1901, M: 12, D: 13, H: 20, Mi: 45, S: 52}, {Y: 2038, M: 1, D: 19, H: 3, Mi: 14, S: 8}}
	n64 := 14000 * *mult / *nshard
	for p := 0; p <= 9; p++ {
		for i := 0; i < n64+len(edges)*4; i++ {
			var c civ
			if i < len(edges)*4 {
				c = edges[i/4]
				c.Off = []int{0, 0, -43200, 50400}[i%4]
				c.Ns = []int{0, 999999999, 1, 500000000}[i%4]
				if !mine(i) {
					continue
				}
			} else {
				c = randCivil(r, 1900, 2299)
				c.Ns = randNs(r, p)
			}
			t := c.time()
			var v proto.DateTime64
			var back time.Time
			if e := safeStr(func() { v = proto.ToDateTime64(t, proto.Precision(p)); back = v.Time(proto.Precision(p)).UTC() }); e != "" {
				tw.Emit(map[string]any{"ev": "panic", "what": "ToDateTime64: " + e, "c": c, "p": p})
				continue
			}
			tw.Emit(map[string]any{"ev": "ToDateTime64", "c": c, "p": p, "v": splitTicks(int64(v), p), "back": civOf(back)})
			if i%4 == 0 {
				col := new(proto.ColDateTime64).WithPrecision(proto.Precision(p)).WithLocation(time.FixedZone("", calZones[r.Intn(len(calZones))]))
				how := []string{"Append", "AppendArr", "Array.Append", "Array.AppendArr"}[(i/4)%4]
				e := safeStr(func() {
					switch how {
					case "Append":
						col.Append(t)
						back = col.Row(0)
					case "AppendArr":
						col.AppendArr([]time.Time{t})
						back = col.Row(0)
					case "Array.Append":
						a := col.Array()
						a.Append([]time.Time{t})
						back = a.Row(0)[0]
					default:
						a := col.Array()
						a.AppendArr([][]time.Time{{t}})
						back = a.Row(0)[0]
					}
				})
				tw.Emit(map[string]any{"ev": "ColInstant", "how": how, "c": c, "p": p, "err": e, "back": civOf(back)})
			}
			if i%3 == 0 {
				// a raw value (as a server sends it) to a time
				days := int64(-25567 + r.Intn(120529+25567+1))
				if p == 9 {
					days = int64(-25567 + r.Intn(106751+25567))
				}
				pw := int64(math.Pow10(p))
				raw := (days*86400+int64(r.Intn(86400)))*pw + r.Int63n(pw)
				rv := proto.DateTime64(raw)
				if e := safeStr(func() { back = rv.Time(proto.Precision(p)).UTC() }); e == "" {
					tw.Emit(map[string]any{"ev": "FromDateTime64", "p": p, "v": splitTicks(raw, p), "back": civOf(back)})
				}
			}
		}
	}
	// (4) intervals
	scales := []struct {
		s    proto.IntervalScale
		name string
		max  int
	}{{proto.IntervalSecond, "second", 900000000}, {proto.IntervalMinute, "minute", 10000000}, {proto.IntervalHour, "hour", 200000},
		{proto.IntervalDay, "day", 40000}, {proto.IntervalWeek, "week", 5000}, {proto.IntervalMonth, "month", 2400},
		{proto.IntervalQuarter, "quarter", 800}, {proto.IntervalYear, "year", 200}}
	nIv := 60000 * *mult / *nshard
	for i := 0; i < nIv; i++ {
		sc := scales[i%len(scales)]
		var n int
		switch r.Intn(4) {
		case 0:
			n = []int{0, 1, -1, 2, 3, 4, 12, -12, 13, 5, -3, -4, 7, 11}[r.Intn(14)]
		case 1:
			n = r.Intn(25) - 12
		default:
			n = r.Intn(2*sc.max+1) - sc.max
		}
		c := randCivil(r, 1900, 2299)
		c.Ns = randNs(r, 9)
		if (sc.name == "day" || sc.name == "week") && i%3 == 0 {
			// spans across the whole range of the temporal types (1900..2299 are 146 096 days)
			c2 := randCivil(r, 1900, 2299)
			d1 := time.Date(c.Y, time.Month(c.M), c.D, 0, 0, 0, 0, time.UTC).Unix() / 86400
			d2 := time.Date(c2.Y, time.Month(c2.M), c2.D, 0, 0, 0, 0, time.UTC).Unix() / 86400
			n = int(d2 - d1)
			if sc.name == "week" {
				n /= 7
			}
		}
		var res time.Time
		pan := safeStr(func() { res = proto.Interval{Scale: sc.s, Value: int64(n)}.Add(c.time()) })
		tw.Emit(map[string]any{"ev": "Interval", "c": c, "scale": sc.name, "n": n, "back": civOf(res), "panic": pan})
	}
	// days and weeks in zones with daylight saving: the wall clock is kept (the days there have 23, 24 or 25 hours)
	for zi, zn := range []string{"America/New_York", "Europe/Berlin", "Australia/Lord_Howe", "America/Sao_Paulo"} {
		loc, err := time.LoadLocation(zn)
		if err != nil {
			continue
		}
		for i := 0; i < 1500**mult / *nshard; i++ {
			y, m, d := 1970+r.Intn(68), 1+r.Intn(12), 1+r.Intn(28)
			if i%4 == 0 {
				m, d = []int{3, 10, 11, 4, 2}[r.Intn(5)], 1+r.Intn(28) // the months of the transitions
			}
			t := time.Date(y, time.Month(m), d, 12, r.Intn(60), r.Intn(60), 0, loc) // noon exists once in every zone
			n := []int{1, -1, 2, 7, -7, 30, 180, -200, 365, r.Intn(4001) - 2000}[r.Intn(10)]
			scale, gs := "day", proto.IntervalDay
			if (i+zi)%3 == 0 {
				scale, gs, n = "week", proto.IntervalWeek, n/7+1
			}
			var res time.Time
			pan := safeStr(func() { res = proto.Interval{Scale: gs, Value: int64(n)}.Add(t) })
			_, off1 := t.Zone()
			_, off2 := res.Zone()
			wall := func(x time.Time, off int) civ {
				return civ{Y: x.Year(), M: int(x.Month()), D: x.Day(), H: x.Hour(), Mi: x.Minute(), S: x.Second(), Ns: x.Nanosecond(), Off: off}
			}
			tw.Emit(map[string]any{"ev": "IntervalZone", "zone": zn, "c": wall(t, off1), "scale": scale, "n": n, "back": wall(res, off2), "panic": pan,
				"sameLoc": res.Location() == loc})
		}
	}
	// (5) wide integers and addresses
	nW := 20000 * *mult / *nshard
	for i := 0; i < nW; i++ {
		var v uint64
		switch r.Intn(6) {
		case 0:
			v = []uint64{0, 1, math.MaxUint64, 1 << 63, 1<<63 - 1, 1<<63 + 1, 255, 256, 1 << 32, 1<<32 - 1}[r.Intn(10)]
		case 1:
			v = uint64(int64(-1 - r.Intn(1000)))
		case 2:
			v = uint64(r.Intn(1000))
		default:
			v = r.Uint64()
		}
		{
			x := proto.Int128FromInt(int(int64(v)))
			var b proto.Buffer
			col := proto.ColInt128{x}
			col.EncodeColumn(&b)
			var dec proto.ColInt128
			_ = dec.DecodeColumn(proto.NewReader(bytes.NewReader(b.Buf)), 1)
			tw.Emit(map[string]any{"ev": "Widen", "fn": "Int128FromInt", "signed": true, "w": 16, "b": le8(v), "wide": tracew.Ints(b.Buf), "narrow": le8(uint64(dec.Row(0).Int()))})
		}
		{
			x := proto.UInt128FromUInt64(v)
			var b proto.Buffer
			col := proto.ColUInt128{x}
			col.EncodeColumn(&b)
			var dec proto.ColUInt128
			_ = dec.DecodeColumn(proto.NewReader(bytes.NewReader(b.Buf)), 1)
			tw.Emit(map[string]any{"ev": "Widen", "fn": "UInt128FromUInt64", "signed": false, "w": 16, "b": le8(v), "wide": tracew.Ints(b.Buf), "narrow": le8(dec.Row(0).UInt64())})
		}
		{
			x := proto.Int128FromUInt64(v)
			var b proto.Buffer
			col := proto.ColInt128{x}
			col.EncodeColumn(&b)
			tw.Emit(map[string]any{"ev": "Widen", "fn": "Int128FromUInt64", "signed": false, "w": 16, "b": le8(v), "wide": tracew.Ints(b.Buf), "narrow": le8(x.Low)})
		}
		{
			x := proto.Int256FromInt(int(int64(v)))
			var b proto.Buffer
			col := proto.ColInt256{x}
			col.EncodeColumn(&b)
			var dec proto.ColInt256
			_ = dec.DecodeColumn(proto.NewReader(bytes.NewReader(b.Buf)), 1)
			tw.Emit(map[string]any{"ev": "Widen", "fn": "Int256FromInt", "signed": true, "w": 32, "b": le8(v), "wide": tracew.Ints(b.Buf), "narrow": le8(dec.Row(0).Low.Low)})
		}
		{
			x := proto.UInt256FromUInt64(v)
			var b proto.Buffer
			col := proto.ColUInt256{x}
			col.EncodeColumn(&b)
			var dec proto.ColUInt256
			_ = dec.DecodeColumn(proto.NewReader(bytes.NewReader(b.Buf)), 1)
			tw.Emit(map[string]any{"ev": "Widen", "fn": "UInt256FromUInt64", "signed": false, "w": 32, "b": le8(v), "wide": tracew.Ints(b.Buf), "narrow": le8(dec.Row(0).Low.Low)})
		}
		if int64(v) >= 0 {
			x := proto.UInt128FromInt(int(v))
			var b proto.Buffer
			col := proto.ColUInt128{x}
			col.EncodeColumn(&b)
			tw.Emit(map[string]any{"ev": "Widen", "fn": "UInt128FromInt", "signed": false, "w": 16, "b": le8(v), "wide": tracew.Ints(b.Buf), "narrow": le8(uint64(x.Int()))})
		}
		// IPv4: the value's little-endian bytes (as the column stores it) against the address bytes
		{
			u := uint32(v)
			if r.Intn(2) == 0 {
				u = uint32(1)<<uint(r.Intn(32)) - uint32(r.Intn(2))
			}
			ip := proto.IPv4(u)
			addr := ip.ToIP()
			a4 := addr.As4()
			var lb [4]byte
			binary.LittleEndian.PutUint32(lb[:], u)
			var bb [4]byte
			binary.LittleEndian.PutUint32(bb[:], uint32(proto.ToIPv4(netip.AddrFrom4(a4))))
			tw.Emit(map[string]any{"ev": "IPv4", "le": tracew.Ints(lb[:]), "addr": tracew.Ints(a4[:]), "backle": tracew.Ints(bb[:])})
		}
		{
			var raw [16]byte
			r.Read(raw[:])
			if r.Intn(4) == 0 {
				raw = [16]byte{10: 0xff, 11: 0xff, 12: byte(v), 13: byte(v >> 8), 14: 1, 15: 2} // v4-mapped
			}
			ip := proto.IPv6(raw)
			addr := ip.ToIP()
			a16 := addr.As16()
			back := proto.ToIPv6(addr)
			tw.Emit(map[string]any{"ev": "IPv6", "val": tracew.Ints(raw[:]), "addr": tracew.Ints(a16[:]), "backval": tracew.Ints(back[:])})
		}
	}
	if err := tw.Close(); err != nil {
		return err
	}
	fmt.Printf("{\"blocks\":%d,\"lines\":%d}\n", tw.N, tw.N)
	return nil
}
