// Command drv is the Go side of the /verif checks: it drives the real ch-go packages
// (built from /repo's working tree) and records ndjson traces for TLC.
package main

import (
	"fmt"
	"os"
)

type subcmd func(args []string) error

var subcmds = map[string]subcmd{}

func main() {
	if len(os.Args) < 2 {
		fmt.Fprintln(os.Stderr, "usage: drv <subcommand> [flags]")
		os.Exit(2)
	}
	f, ok := subcmds[os.Args[1]]
	if !ok {
		fmt.Fprintln(os.Stderr, "unknown subcommand", os.Args[1])
		os.Exit(2)
	}
	if err := f(os.Args[2:]); err != nil {
		fmt.Fprintln(os.Stderr, "drv:", err)
		os.Exit(3)
	}
}
