package main

import (
	"bufio"
	"encoding/json"
	"flag"
	"fmt"
	"os"

	"verifharness/lifecycle"
	"verifharness/tracew"
)

func init() { subcmds["lifecycle"] = lifecycleMain }

// lifecycle -in scenarios.ndjson -out trace.ndjson: run every scenario on the real client under
// the deterministic scheduler and write the recorded steps.
func lifecycleMain(args []string) error {
	fs := flag.NewFlagSet("lifecycle", flag.ExitOnError)
	in := fs.String("in", "", "scenario file (ndjson)")
	out := fs.String("out", "", "trace file (ndjson)")
	fs.Parse(args)
	f, err := os.Open(*in)
	if err != nil {
		return err
	}
	defer f.Close()
	tw, err := tracew.Create(*out)
	if err != nil {
		return err
	}
	sc := bufio.NewScanner(f)
	sc.Buffer(make([]byte, 1<<20), 1<<26)
	n, stuck := 0, 0
	for sc.Scan() {
		if len(sc.Bytes()) == 0 {
			continue
		}
		var s lifecycle.Scenario
		if err := json.Unmarshal(sc.Bytes(), &s); err != nil {
			return fmt.Errorf("scenario %d: %w", n, err)
		}
		runs, err := lifecycle.RunAll(s)
		if err != nil {
			return fmt.Errorf("scenario %s: %w", s.ID, err)
		}
		for _, evs := range runs {
			for _, e := range evs {
				if e["ev"] == "Stuck" {
					stuck++
				}
				tw.Emit(e)
			}
			n++
		}
	}
	if err := tw.Close(); err != nil {
		return err
	}
	fmt.Printf("{\"scenarios\":%d,\"lines\":%d,\"stuck\":%d}\n", n, tw.N, stuck)
	return sc.Err()
}
