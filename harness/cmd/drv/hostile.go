package main

import (
	"bytes"
	"encoding/binary"
	"flag"
	"fmt"
	"math/rand"
	"os"
	"runtime/metrics"
	"sync/atomic"
	"time"

	"github.com/ClickHouse/ch-go/proto"

	"verifharness/colgen"
	"verifharness/tracew"
)

func init() { subcmds["hostile"] = hostileMain }

// C06: mutated encodings are decoded by the library; the driver records for every mutant whether the decode
// returned (error or result), and for results whether they are consistent (row counts, every row readable, can be
// re-encoded).  A mutant that makes the process abort (out of memory) or hang is found by the parent through the
// progress file and re-run alone.

type hTarget struct {
	id     string
	kind   string // "typed" | "auto" | "msg"
	rev    int
	base   []byte
	asts   []map[string]any
	names  []string
	rows   int
	tnames []any // the type names of the valid encoding's columns, as bytes
	// positions of the 8-byte count / offset fields in base (typed and auto targets)
	fields []int
	run    func(data []byte) hOutcome
}

type hOutcome struct {
	err          string
	inconsistent string
	rows         int
	cols         []any
}

var hostileHuge = []uint64{0, 1, 0x7f, 0x80, 0xff, 0x7fff, 0x8000, 1000000, 100000001, 0x7fffffff, 0x80000000, 0xffffffff, 1 << 40, 1 << 62, 1 << 63, 1<<64 - 1}

// forEachMutant calls f for every mutant of base, in a fixed order.
func forEachMutant(base []byte, others [][]byte, rng *rand.Rand, nrand int, f func(desc string, data []byte, lo, shift int)) {
	buf := make([]byte, 0, len(base)+16)
	// M1: every byte replaced by boundary values and small changes
	for i := range base {
		b := base[i]
		seen := map[byte]bool{b: true}
		for _, v := range []byte{0, 1, 0x7f, 0x80, 0xff, b ^ 1, b ^ 0x80, b + 1, b - 1} {
			if seen[v] {
				continue
			}
			seen[v] = true
			buf = append(buf[:0], base...)
			buf[i] = v
			f(fmt.Sprintf("byte@%d=%d", i, v), buf, i, 0)
		}
	}
	// M2: every 8-byte window as a little-endian count / offset; every 4-byte and 2-byte window with boundary values
	for i := 0; i+8 <= len(base); i++ {
		cur := binary.LittleEndian.Uint64(base[i:])
		for _, v := range append([]uint64{cur + 1, cur - 1, cur + 256}, hostileHuge...) {
			if v == cur {
				continue
			}
			buf = append(buf[:0], base...)
			binary.LittleEndian.PutUint64(buf[i:], v)
			f(fmt.Sprintf("u64@%d=%d", i, v), buf, i, 0)
		}
	}
	for i := 0; i+4 <= len(base); i++ {
		for _, v := range []uint32{0, 0x7fffffff, 0x80000000, 0xffffffff} {
			buf = append(buf[:0], base...)
			binary.LittleEndian.PutUint32(buf[i:], v)
			f(fmt.Sprintf("u32@%d=%d", i, v), buf, i, 0)
		}
	}
	// M3: a byte replaced by a (multi-byte) varint: forged lengths and counts
	var vb [binary.MaxVarintLen64]byte
	for i := range base {
		for _, v := range []uint64{128, 300, 16384, 1000000, 100000001, 1 << 31, 1 << 40, 1 << 62, 1<<64 - 1} {
			n := binary.PutUvarint(vb[:], v)
			buf = append(buf[:0], base[:i]...)
			buf = append(buf, vb[:n]...)
			buf = append(buf, base[i+1:]...)
			f(fmt.Sprintf("uvarint@%d=%d", i, v), buf, i, n-1)
		}
	}
	// M4: a byte removed / doubled; splices with other encodings
	for i := range base {
		buf = append(buf[:0], base[:i]...)
		buf = append(buf, base[i+1:]...)
		f(fmt.Sprintf("del@%d", i), buf, i, -1)
		buf = append(buf[:0], base[:i+1]...)
		buf = append(buf, base[i:]...)
		f(fmt.Sprintf("dup@%d", i), buf, i, 1)
	}
	for j := 0; j < nrand; j++ {
		o := others[rng.Intn(len(others))]
		a, b := rng.Intn(len(base)+1), rng.Intn(len(o)+1)
		buf = append(buf[:0], base[:a]...)
		buf = append(buf, o[b:]...)
		f(fmt.Sprintf("splice@%d+%d", a, b), buf, -1, 0)
	}
	// M5: random bit flips (1-3 at a time) and random bytes
	for j := 0; j < nrand; j++ {
		buf = append(buf[:0], base...)
		for k, m := 0, 1+rng.Intn(3); k < m && len(buf) > 0; k++ {
			buf[rng.Intn(len(buf))] ^= 1 << uint(rng.Intn(8))
		}
		f(fmt.Sprintf("flips#%d", j), buf, 0, 0)
	}
	for j := 0; j < nrand/4; j++ {
		n := rng.Intn(len(base) + 8)
		buf = buf[:0]
		for k := 0; k < n; k++ {
			buf = append(buf, byte(rng.Intn(256)))
		}
		f(fmt.Sprintf("noise#%d", j), buf, -1, 0)
	}
	// M6: numbers inside strings (the parameters of type names: FixedString(N), Decimal(P, S), DateTime64(P), ...) replaced
	// by zero, negative, boundary and huge values, the length prefix of the enclosing string kept consistent
	isDigit := func(c byte) bool { return c >= '0' && c <= '9' }
	for a := 1; a < len(base); a++ {
		if !isDigit(base[a]) || isDigit(base[a-1]) || (base[a-1] != '(' && base[a-1] != ' ' && base[a-1] != ',') {
			continue
		}
		b := a
		for b < len(base) && isDigit(base[b]) {
			b++
		}
		if b >= len(base) || (base[b] != ')' && base[b] != ',') {
			continue
		}
		// the enclosing length-prefixed string: the nearest byte before the run that is the length of a printable string covering it
		pfx := -1
		for p := a - 1; p >= 0 && p >= a-127; p-- {
			l := int(base[p])
			if l >= 128 || p+1+l < b+1 || p+1+l > len(base) {
				continue
			}
			ok := true
			for _, c := range base[p+1 : p+1+l] {
				if c < 0x20 || c > 0x7e {
					ok = false
					break
				}
			}
			if ok {
				pfx = p
				break
			}
		}
		for _, rep := range []string{"0", "-1", "1", "00", "255", "256", "65536", "2147483648", "9223372036854775808", "99999999999999999999", ""} {
			if rep == string(base[a:b]) {
				continue
			}
			buf = append(buf[:0], base[:a]...)
			buf = append(buf, rep...)
			buf = append(buf, base[b:]...)
			if pfx >= 0 {
				if nl := int(base[pfx]) + len(rep) - (b - a); nl >= 0 && nl < 128 {
					buf[pfx] = byte(nl)
				}
			}
			f(fmt.Sprintf("num@%d=%q", a, rep), buf, a, len(rep)-(b-a))
		}
	}
}

func hostileTargets(depth int, rng *rand.Rand, rev int) []hTarget {
	var ts []hTarget
	kinds := colgen.Universe(depth)
	for ki, k := range kinds {
		for _, rows := range []int{1, 3} {
			if rows == 3 && ki%2 == 1 {
				continue
			}
			k := k
			vals := make([]any, rows)
			for i := range vals {
				vals[i] = k.Gen(rng, 6)
			}
			col := k.New()
			for _, v := range vals {
				col.Append(v)
			}
			var b proto.Buffer
			if err := (proto.Block{Columns: 1, Rows: rows}).EncodeBlock(&b, rev, []proto.InputColumn{{Name: "c", Data: col.Column()}}); err != nil {
				panic(err)
			}
			base := append([]byte(nil), b.Buf...)
			asts := []map[string]any{k.AST()}
			tnames := []any{colgen.Ints([]byte(k.Name()))}
			// where the column payload begins: the block ends with the state prefixes and the column data
			var cb proto.Buffer
			if rows > 0 {
				if se, ok := col.Column().(proto.StateEncoder); ok {
					se.EncodeState(&cb)
				}
				col.Column().(proto.ColInput).EncodeColumn(&cb)
			}
			var fields []int
			if start := len(base) - len(cb.Buf); start >= 0 && bytes.Equal(base[start:], cb.Buf) {
				if end, ok := countFields(k.AST(), rows, base, start+8*lcCount(k.AST()), &fields); !ok || end != len(base) {
					panic(fmt.Sprintf("hostile: cannot walk the payload of %s (end %d of %d)", k.Name(), end, len(base)))
				}
			} else {
				panic("hostile: payload of " + k.Name() + " is not the tail of its block")
			}
			nrun := 0
			typedRun := func(data []byte) hOutcome {
				t := k.New()
				var blk proto.Block
				nrun++
				if nrun%2 == 0 {
					// every other input goes into a target that holds the rows of an earlier, valid block
					var b0 proto.Block
					if err := b0.DecodeBlock(proto.NewReader(bytes.NewReader(base)), rev, proto.Results{{Name: "c", Data: t.Column()}}); err != nil {
						return hOutcome{inconsistent: "the valid block is refused: " + err.Error()}
					}
				}
				r := proto.NewReader(bytes.NewReader(data))
				if err := blk.DecodeBlock(r, rev, proto.Results{{Name: "c", Data: t.Column()}}); err != nil {
					return hOutcome{err: err.Error()}
				}
				out := hOutcome{rows: blk.Rows}
				if blk.Columns == 0 {
					return out // a block without columns (the end marker) says nothing about the target
				}
				if t.Column().Rows() != blk.Rows {
					out.inconsistent = fmt.Sprintf("the block has %d rows, the column reports %d", blk.Rows, t.Column().Rows())
					return out
				}
				vals := make([]any, 0, blk.Rows)
				if blk.Rows <= 1000 {
					for i := 0; i < blk.Rows; i++ {
						vals = append(vals, t.Row(i))
					}
				} else {
					_ = t.Row(0)
					_ = t.Row(blk.Rows - 1)
					_ = t.Row(blk.Rows / 2)
				}
				out.cols = []any{vals}
				return out
			}
			ts = append(ts, hTarget{id: "typed:" + k.Name(), kind: "typed", rev: rev, base: base, asts: asts, names: []string{"c"}, rows: rows, fields: fields, tnames: tnames, run: typedRun})
			// the decoder accepts LowCardinality keys of every width, the library's encoder only emits the narrowest:
			// valid encodings with 2-, 4- and 8-byte keys are derived from the encoder's output and mutated as well
			if k.AST()["k"] == "lc" && rows > 0 && len(fields) >= 2 {
				pDn, pKn := fields[0], fields[len(fields)-1]
				meta := pDn - 8
				w0 := 1 << uint(base[meta]&3)
				for code := 1; code <= 3; code++ {
					if 1<<uint(code) == w0 {
						continue
					}
					wide := append([]byte(nil), base[:pKn+8]...)
					wide[meta] = wide[meta]&^3 | byte(code)
					for i := 0; i < rows; i++ {
						var key uint64
						for j := 0; j < w0; j++ {
							key |= uint64(base[pKn+8+i*w0+j]) << (8 * uint(j))
						}
						var kb [8]byte
						binary.LittleEndian.PutUint64(kb[:], key)
						wide = append(wide, kb[:1<<uint(code)]...)
					}
					if oc := typedRun(wide); oc.err != "" || oc.inconsistent != "" {
						panic(fmt.Sprintf("hostile: the %d-byte-key variant of %s is not accepted: %s %s", 1<<uint(code), k.Name(), oc.err, oc.inconsistent))
					}
					var wf []int
					if end, ok := countFields(k.AST(), rows, wide, meta, &wf); !ok || end != len(wide) {
						wf = nil
					}
					ts = append(ts, hTarget{id: fmt.Sprintf("typed:%s#keys%d", k.Name(), 8<<uint(code)), kind: "typed", rev: rev, base: wide, asts: asts, names: []string{"c"}, rows: rows,
						fields: wf, tnames: tnames, run: typedRun})
				}
			}
			// the non-generic LowCardinality target (dictionary and keys as columns)
			if rawIdx := map[string]func() proto.Column{
				"LowCardinality(String)": func() proto.Column { return new(proto.ColStr) },
				"LowCardinality(UInt32)": func() proto.Column { return new(proto.ColUInt32) },
				"LowCardinality(UUID)":   func() proto.Column { return new(proto.ColUUID) },
			}[k.Name()]; rawIdx != nil && rows > 0 {
				ts = append(ts, hTarget{id: "rawlc:" + k.Name(), kind: "rawlc", rev: rev, base: base, asts: asts, names: []string{"c"}, rows: rows, fields: fields, tnames: tnames,
					run: func(data []byte) hOutcome {
						t := &proto.ColLowCardinalityRaw{Index: rawIdx()}
						var blk proto.Block
						r := proto.NewReader(bytes.NewReader(data))
						if err := blk.DecodeBlock(r, rev, proto.Results{{Name: "c", Data: t}}); err != nil {
							return hOutcome{err: err.Error()}
						}
						out := hOutcome{rows: blk.Rows}
						if t.Rows() != blk.Rows {
							out.inconsistent = fmt.Sprintf("the block has %d rows, the column reports %d", blk.Rows, t.Rows())
						} else if blk.Rows > 0 && t.Keys().Rows() != blk.Rows {
							out.inconsistent = fmt.Sprintf("the block has %d rows, the keys column has %d", blk.Rows, t.Keys().Rows())
						}
						return out
					}})
			}
			if ki%3 == 0 {
				ts = append(ts, hTarget{id: "auto:" + k.Name(), kind: "auto", rev: rev, base: base, asts: asts, names: []string{"c"}, rows: rows, fields: fields, tnames: tnames,
					run: func(data []byte) hOutcome {
						var res proto.Results
						var blk proto.Block
						r := proto.NewReader(bytes.NewReader(data))
						if err := blk.DecodeBlock(r, rev, res.Auto()); err != nil {
							return hOutcome{err: err.Error()}
						}
						out := hOutcome{rows: blk.Rows}
						var in []proto.InputColumn
						for _, c := range res {
							if c.Data.Rows() != blk.Rows {
								out.inconsistent = fmt.Sprintf("the block has %d rows, column %q reports %d", blk.Rows, c.Name, c.Data.Rows())
								return out
							}
							in = append(in, proto.InputColumn{Name: c.Name, Data: c.Data.(proto.ColInput)})
						}
						if blk.Rows <= 100000 {
							// every value must be readable: re-encoding reads them all
							var b2 proto.Buffer
							if err := (proto.Block{Columns: len(in), Rows: blk.Rows}).EncodeBlock(&b2, rev, in); err != nil {
								out.inconsistent = "the decoded block cannot be encoded: " + err.Error()
							}
						}
						return out
					}})
			}
		}
	}
	// protocol messages
	for _, mrev := range []int{54460, 54058} {
		mrev := mrev
		for _, c := range genCases(rand.New(rand.NewSource(int64(mrev)))) {
			c := c
			var b proto.Buffer
			if safely(func() error { c.encode(&b, mrev); return nil }) != nil || len(b.Buf) <= c.skip {
				continue
			}
			base := append([]byte(nil), b.Buf[c.skip:]...)
			ts = append(ts, hTarget{id: fmt.Sprintf("msg:%s@%d", c.kind, mrev), kind: "msg", rev: mrev, base: base, asts: []map[string]any{}, names: []string{}, tnames: []any{}, run: func(data []byte) hOutcome {
				rd := proto.NewReader(bytes.NewReader(data))
				if _, err := c.decode(rd, mrev); err != nil {
					return hOutcome{err: err.Error()}
				}
				return hOutcome{}
			}})
		}
	}
	return ts
}

// countFields walks a valid column payload along its type AST (the same structure spec/Wire.tla decodes) and
// returns the positions of the 8-byte count / offset fields: array and map offsets, LowCardinality dictionary and
// key counts.
func countFields(ast map[string]any, n int, data []byte, p int, out *[]int) (int, bool) {
	u64 := func(q int) (int, bool) {
		if q+8 > len(data) {
			return 0, false
		}
		return int(binary.LittleEndian.Uint64(data[q:])), true
	}
	num := func(v any) int {
		switch x := v.(type) {
		case int:
			return x
		case float64:
			return int(x)
		}
		return 0
	}
	sub := func(v any) map[string]any { m, _ := v.(map[string]any); return m }
	switch ast["k"] {
	case "fixed", "enum":
		return p + n*num(ast["w"]), true
	case "bool", "nothing":
		return p + n, true
	case "fstring":
		return p + n*num(ast["n"]), true
	case "uuid", "point":
		return p + 16*n, true
	case "string", "json":
		for i := 0; i < n; i++ {
			l, k := binary.Uvarint(data[min(p, len(data)):])
			if k <= 0 {
				return p, false
			}
			p += k + int(l)
		}
		return p, p <= len(data)
	case "nullable":
		return countFields(sub(ast["e"]), n, data, p+n, out)
	case "array", "map":
		if n == 0 {
			return p, true
		}
		total := 0
		for i := 0; i < n; i++ {
			v, ok := u64(p + 8*i)
			if !ok {
				return p, false
			}
			*out = append(*out, p+8*i)
			total = v
		}
		p += 8 * n
		if ast["k"] == "array" {
			return countFields(sub(ast["e"]), total, data, p, out)
		}
		p, ok := countFields(sub(ast["key"]), total, data, p, out)
		if !ok {
			return p, false
		}
		return countFields(sub(ast["val"]), total, data, p, out)
	case "tuple":
		es, _ := ast["es"].([]map[string]any)
		if es == nil {
			if raw, ok := ast["es"].([]any); ok {
				for _, e := range raw {
					es = append(es, sub(e))
				}
			}
		}
		ok := true
		for _, e := range es {
			if p, ok = countFields(e, n, data, p, out); !ok {
				return p, false
			}
		}
		return p, true
	case "lc":
		if n == 0 {
			return p, true
		}
		meta, ok := u64(p)
		if !ok {
			return p, false
		}
		dn, ok := u64(p + 8)
		if !ok {
			return p, false
		}
		*out = append(*out, p+8)
		p, ok = countFields(sub(ast["e"]), dn, data, p+16, out)
		if !ok {
			return p, false
		}
		if _, ok := u64(p); !ok {
			return p, false
		}
		*out = append(*out, p)
		return p + 8 + n*(1<<uint(meta&3)), true
	}
	return p, false
}

// lcCount is the number of LowCardinality wrappers in a type: each has an 8-byte state prefix in front of the data.
func lcCount(ast map[string]any) int {
	n := 0
	if ast["k"] == "lc" || ast["k"] == "json" {
		n = 1 // 8 bytes of state in front of the data
	}
	for _, k := range []string{"e", "key", "val"} {
		if m, ok := ast[k].(map[string]any); ok {
			n += lcCount(m)
		}
	}
	switch es := ast["es"].(type) {
	case []map[string]any:
		for _, e := range es {
			n += lcCount(e)
		}
	case []any:
		for _, e := range es {
			if m, ok := e.(map[string]any); ok {
				n += lcCount(m)
			}
		}
	}
	return n
}

// bigWithinCap reports whether some 8-byte little-endian window of the data reads as a count that the library's own
// cap (10^8 rows) admits but that makes it allocate hundreds of megabytes to gigabytes before it can notice that the
// data is missing.  Such inputs are slow by design of the caps, not hostile beyond them; they are decoded only with
// -heavy.
func bigWithinCap(data []byte, fields []int, lo, shift int) bool {
	heavy := func(q int) bool {
		if q < 0 || q+8 > len(data) || data[q+4] != 0 || data[q+5] != 0 || data[q+6] != 0 || data[q+7] != 0 {
			return false
		}
		v := binary.LittleEndian.Uint32(data[q:])
		return v > 4000000 && v <= 100000000
	}
	if lo < 0 || fields == nil {
		// no layout known (splices, noise, messages): any window
		for q := 0; q+8 <= len(data); q++ {
			if heavy(q) {
				return fields != nil // messages have no such counts
			}
		}
		return false
	}
	for _, q := range fields {
		if q > lo {
			q += shift
		}
		if heavy(q) {
			return true
		}
	}
	return false
}

func heapAllocs() uint64 {
	s := []metrics.Sample{{Name: "/gc/heap/allocs:bytes"}}
	metrics.Read(s)
	return s[0].Value.Uint64()
}

func hostileMain(args []string) error {
	fs := flag.NewFlagSet("hostile", flag.ExitOnError)
	out := fs.String("out", "", "trace file")
	progress := fs.String("progress", "", "file that holds the index of the mutant being decoded")
	from := fs.Int64("from", 0, "skip mutants before this index")
	only := fs.Int64("only", -1, "run only this mutant")
	describe := fs.Bool("describe", false, "with -only: write the mutant as a trace line instead of decoding it")
	depth := fs.Int("depth", 2, "type universe depth")
	seed := fs.Int64("seed", 1, "seed")
	nrand := fs.Int("rand", 40, "random mutants per class and target")
	accSample := fs.Int("acc", 12, "accepted mutants per target handed to the specification")
	heavy := fs.Bool("heavy", false, "also decode mutants that contain a count between 4*10^6 and the library's cap of 10^8 (gigabytes are allocated by design)")
	shard := fs.Int("shard", 0, "this shard")
	nshard := fs.Int("nshard", 1, "number of shards")
	fs.Parse(args)
	tw, err := tracew.Create(*out)
	if err != nil {
		return err
	}
	var pf *os.File
	if *progress != "" {
		if pf, err = os.OpenFile(*progress, os.O_CREATE|os.O_WRONLY, 0o644); err != nil {
			return err
		}
	}
	rng := rand.New(rand.NewSource(*seed))
	targets := hostileTargets(*depth, rng, 54460)
	var others [][]byte
	for _, t := range targets {
		others = append(others, t.base)
	}
	var cur atomic.Int64
	var curDesc atomic.Value
	curDesc.Store("")
	// watchdog: a decode that does not return
	go func() {
		last, since := int64(-1), time.Now()
		for {
			time.Sleep(500 * time.Millisecond)
			c := cur.Load()
			if c != last {
				last, since = c, time.Now()
				continue
			}
			if c >= 0 && time.Since(since) > 90*time.Second {
				fmt.Fprintf(os.Stderr, "HANG mutant=%d %s\n", c, curDesc.Load())
				os.Exit(97)
			}
		}
	}()
	cur.Store(-1)
	var idx int64 = -1
	var pbuf [8]byte
	total := 0
	for ti, t := range targets {
		if ti%*nshard != *shard {
			continue
		}
		t := t
		trng := rand.New(rand.NewSource(*seed*7919 + int64(ti)))
		agg := map[string]int{}
		var maxAlloc uint64
		maxAllocDesc := ""
		accepted := 0
		forEachMutant(t.base, others, trng, *nrand, func(desc string, data []byte, lo, shift int) {
			idx++
			if idx < *from || (*only >= 0 && idx != *only) {
				return
			}
			total++
			if !*heavy && bigWithinCap(data, t.fields, lo, shift) {
				agg["skippedWithinCap"]++
				return
			}
			if *describe {
				tw.Emit(map[string]any{"ev": "Hostile", "target": t.id, "path": t.kind, "tnames": t.tnames, "mut": desc, "idx": idx, "rev": t.rev, "asts": t.asts, "bytes": colgen.Ints(data),
					"panic": "", "hang": false, "abort": "", "inconsistent": "", "err": "", "rows": 0, "cols": []any{}})
				return
			}
			if pf != nil {
				binary.LittleEndian.PutUint64(pbuf[:], uint64(idx))
				pf.WriteAt(pbuf[:], 0)
			}
			curDesc.Store(t.id + " " + desc)
			cur.Store(idx)
			a0 := heapAllocs()
			var oc hOutcome
			pan := safely(func() error { oc = t.run(data); return nil })
			da := heapAllocs() - a0
			cur.Store(-1)
			if da > maxAlloc {
				maxAlloc, maxAllocDesc = da, desc
			}
			agg["mutants"]++
			switch {
			case pan != nil:
				agg["panics"]++
				tw.Emit(map[string]any{"ev": "Hostile", "target": t.id, "path": t.kind, "tnames": t.tnames, "mut": desc, "idx": idx, "rev": t.rev, "asts": t.asts, "bytes": colgen.Ints(data),
					"panic": pan.Error(), "hang": false, "abort": "", "inconsistent": "", "err": "", "rows": 0, "cols": []any{}})
				tw.Flush()
			case oc.err != "":
				agg["rejected"]++
			case oc.inconsistent != "":
				agg["inconsistent"]++
				tw.Emit(map[string]any{"ev": "Hostile", "target": t.id, "path": t.kind, "tnames": t.tnames, "mut": desc, "idx": idx, "rev": t.rev, "asts": t.asts, "bytes": colgen.Ints(data),
					"panic": "", "hang": false, "abort": "", "inconsistent": oc.inconsistent, "err": "", "rows": oc.rows, "cols": []any{}})
			default:
				agg["accepted"]++
				accepted++
				// a sample of the accepted mutants goes to the specification's decoder
				if t.kind == "typed" && (accepted <= *accSample/2 || trng.Intn(1+agg["accepted"]/(*accSample)) == 0) && agg["toSpec"] < *accSample && oc.rows <= 50 && len(data) < 3000 {
					agg["toSpec"]++
					cols := oc.cols
					if cols == nil {
						cols = []any{}
					}
					tw.Emit(map[string]any{"ev": "Hostile", "target": t.id, "path": t.kind, "tnames": t.tnames, "mut": desc, "idx": idx, "rev": t.rev, "asts": t.asts, "bytes": colgen.Ints(data),
						"panic": "", "hang": false, "abort": "", "inconsistent": "", "err": "", "rows": oc.rows, "cols": cols})
				}
			}
		})
		tw.Flush()
		if *only < 0 {
			tw.Emit(map[string]any{"ev": "HostileAgg", "target": t.id, "path": t.kind, "tnames": t.tnames, "baseLen": len(t.base), "shard": *shard, "mutants": agg["mutants"], "rejected": agg["rejected"],
				"accepted": agg["accepted"], "skippedWithinCap": agg["skippedWithinCap"], "panics": agg["panics"], "inconsistent": agg["inconsistent"], "maxAllocMiB": int(maxAlloc >> 20), "maxAllocAt": maxAllocDesc,
				"firstIdx": idx - int64(agg["mutants"]) + 1, "lastIdx": idx})
		}
	}
	if err := tw.Close(); err != nil {
		return err
	}
	fmt.Printf("{\"blocks\":%d,\"lines\":%d,\"last\":%d}\n", total, tw.N, idx)
	return nil
}
