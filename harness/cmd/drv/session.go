package main

import (
	"bufio"
	"encoding/json"
	"flag"
	"fmt"
	"os"
	"sync"

	"verifharness/sessiondrv"
	"verifharness/tracew"
)

func init() { subcmds["session"] = sessionMain }

func sessionMain(args []string) error {
	fs := flag.NewFlagSet("session", flag.ExitOnError)
	in := fs.String("in", "", "session file (ndjson)")
	out := fs.String("out", "", "trace file (ndjson)")
	par := fs.Int("par", 16, "sessions at the same time")
	fs.Parse(args)
	f, err := os.Open(*in)
	if err != nil {
		return err
	}
	defer f.Close()
	var ss []sessiondrv.Session
	sc := bufio.NewScanner(f)
	sc.Buffer(make([]byte, 1<<20), 1<<26)
	for sc.Scan() {
		if len(sc.Bytes()) == 0 {
			continue
		}
		var s sessiondrv.Session
		if err := json.Unmarshal(sc.Bytes(), &s); err != nil {
			return err
		}
		ss = append(ss, s)
	}
	res := make([][]sessiondrv.Event, len(ss))
	errs := make([]error, len(ss))
	sem := make(chan struct{}, *par)
	var wg sync.WaitGroup
	for i := range ss {
		wg.Add(1)
		sem <- struct{}{}
		go func(i int) {
			defer wg.Done()
			defer func() { <-sem }()
			res[i], errs[i] = sessiondrv.Run(ss[i])
		}(i)
	}
	wg.Wait()
	tw, err := tracew.Create(*out)
	if err != nil {
		return err
	}
	for i := range ss {
		if errs[i] != nil {
			return fmt.Errorf("session %s: %w", ss[i].ID, errs[i])
		}
		for _, e := range res[i] {
			tw.Emit(e)
		}
	}
	if err := tw.Close(); err != nil {
		return err
	}
	fmt.Printf("{\"sessions\":%d,\"lines\":%d}\n", len(ss), tw.N)
	return nil
}
