package main

import (
	"bytes"
	"flag"
	"fmt"
	"math/rand"
	"reflect"
	"strings"
	"time"

	"github.com/ClickHouse/ch-go/proto"

	"verifharness/colgen"
	"verifharness/tracew"
)

func init() { subcmds["types"] = typesMain }

// tast is a type AST as spec/Types.tla sees it.
type tast struct {
	B    string   `json:"b"`
	Ps   []string `json:"ps"`
	Es   []tast   `json:"es"`
	Prec int      `json:"prec"`
}

func t0(b string) tast               { return tast{B: b, Ps: []string{}, Es: []tast{}} }
func tp(b string, ps ...string) tast { return tast{B: b, Ps: ps, Es: []tast{}} }
func te(b string, es ...tast) tast   { return tast{B: b, Ps: []string{}, Es: es} }
func dec(p, s int) tast {
	return tast{B: "Decimal", Ps: []string{fmt.Sprint(p), fmt.Sprint(s)}, Es: []tast{}, Prec: p}
}

// render writes the type name; spaced = ", " between parameters / elements.
func (t tast) render(spaced bool) string {
	sep := ","
	if spaced {
		sep = ", "
	}
	var parts []string
	parts = append(parts, t.Ps...)
	for _, e := range t.Es {
		parts = append(parts, e.render(spaced))
	}
	if len(parts) == 0 {
		return t.B
	}
	return t.B + "(" + strings.Join(parts, sep) + ")"
}

func typeUniverse() []tast {
	var base []tast
	for _, b := range []string{"UInt8", "UInt16", "UInt32", "UInt64", "UInt128", "UInt256", "Int8", "Int16", "Int32", "Int64", "Int128", "Int256",
		"Float32", "Float64", "Decimal32", "Decimal64", "Decimal128", "Decimal256", "Enum8", "Enum16", "String", "UUID", "Bool", "Date", "Date32",
		"DateTime", "DateTime64", "IPv4", "IPv6", "Nothing", "Point", "IntervalSecond", "IntervalMonth"} {
		base = append(base, t0(b))
	}
	base = append(base, tp("FixedString", "3"), tp("FixedString", "16"), tp("Enum8", "'a' = 1", "'b' = 2"), tp("Enum8", "'x' = -1"),
		tp("Enum16", "'a' = 1", "'b' = 300"), tp("DateTime", "'UTC'"), tp("DateTime", "'Europe/Berlin'"), tp("DateTime64", "3"),
		tp("DateTime64", "6", "'UTC'"), tp("DateTime64", "9"), dec(9, 2), dec(9, 4), dec(10, 2), dec(18, 0), dec(19, 1), dec(38, 1), dec(39, 3), dec(76, 0), dec(100, 2),
		tp("Decimal32", "2"), tp("Decimal64", "4"))
	// the inferring enum columns of the value universe, under their exact definitions (decoded and re-encoded below)
	eb := colgen.NewBases()
	for _, k := range []colgen.Kind{eb.EnT8, eb.EnT16} {
		n := k.Name()
		base = append(base, tp(n[:strings.Index(n, "(")], strings.Split(n[strings.Index(n, "(")+1:len(n)-1], ", ")...))
	}
	out := append([]tast{}, base...)
	// maps whose key type has parameters (its own base is one the relation relaxes) over plain value types, and
	// tuples of different arity: the value type / the length must still matter
	for _, k := range []tast{te("LowCardinality", t0("String")), tp("DateTime", "'UTC'"), t0("DateTime"), tp("Enum8", "'a' = 1", "'b' = 2"), tp("FixedString", "3"), t0("String")} {
		for _, v := range []tast{t0("Int64"), t0("Float64"), t0("UInt32"), t0("String")} {
			out = append(out, te("Map", k, v))
		}
	}
	out = append(out, te("Tuple", t0("Int8")), te("Tuple", t0("Int8"), t0("String")), te("Tuple", t0("Int8"), t0("String"), t0("UInt8")),
		te("Tuple", t0("Int8"), t0("Int8")), te("Array", te("Tuple", t0("UInt8"), t0("UInt8"))), te("Array", te("Tuple", t0("UInt8"), t0("UInt8"), t0("UInt8"))),
		te("Map", t0("String"), tp("DateTime", "'UTC'")), te("Map", t0("String"), t0("DateTime")))
	for i, b := range base {
		out = append(out, te("Array", b), te("Nullable", b))
		if i%2 == 0 {
			out = append(out, te("LowCardinality", b), te("Array", te("Array", b)), te("Array", te("Nullable", b)), te("Map", t0("String"), b))
		}
		if i%5 == 0 {
			out = append(out, te("Tuple", b, t0("String")), te("Array", te("LowCardinality", b)), te("Map", b, te("Array", b)))
		}
	}
	return out
}

func inferCheck(s string) (errS string, typeOK bool, panicked string) {
	done := make(chan struct{})
	go func() {
		defer close(done)
		defer func() {
			if p := recover(); p != nil {
				panicked = fmt.Sprint(p)
			}
		}()
		var c proto.ColAuto
		if err := c.Infer(proto.ColumnType(s)); err != nil {
			errS = err.Error()
			return
		}
		typeOK = !c.Type().Conflicts(proto.ColumnType(s)) && !proto.ColumnType(s).Conflicts(c.Type())
		// a column that was created decodes: data of one row and of two (zeros, then nothing more) give rows or an error
		for _, rows := range []int{1, 2} {
			c.Reset()
			_ = c.DecodeColumn(proto.NewReader(bytes.NewReader(make([]byte, 96))), rows)
		}
	}()
	select {
	case <-done:
	case <-time.After(5 * time.Second):
		panicked = "hang: Infer did not return within 5s"
	}
	return
}

func typesMain(args []string) error {
	fs := flag.NewFlagSet("types", flag.ExitOnError)
	out := fs.String("out", "", "trace file")
	seed := fs.Int64("seed", 1, "seed")
	pairs := fs.Int("pairs", 20000, "ordered pairs of types to compare (0 = all)")
	toklen := fs.Int("toklen", 4, "malformed type strings: all token sequences up to this length")
	shard := fs.Int("shard", 0, "this shard")
	nshard := fs.Int("nshard", 1, "number of shards")
	fs.Parse(args)
	tw, err := tracew.Create(*out)
	if err != nil {
		return err
	}
	rng := rand.New(rand.NewSource(*seed))
	u := typeUniverse()
	n := 0
	// (1) the compatibility relation on ordered pairs (both renderings)
	total := len(u) * len(u)
	for idx := 0; idx < total; idx++ {
		if idx%*nshard != *shard {
			continue
		}
		a, b := u[idx/len(u)], u[idx%len(u)]
		if a.Prec > 76 || b.Prec > 76 {
			continue // Decimal precisions beyond 76 are not types; they only take part in the inference runs below
		}
		structured := (a.B == "Map" || a.B == "Tuple" || (a.B == "Array" && len(a.Es) == 1 && a.Es[0].B == "Tuple")) && a.B == b.B
		if *pairs > 0 && total > *pairs && rng.Intn(total) >= *pairs && idx/len(u) != idx%len(u) && !structured {
			continue
		}
		as, bs := a.render(idx%2 == 0), b.render(idx%3 == 0)
		tw.Emit(map[string]any{"ev": "Pair", "a": a, "b": b, "as": as, "bs": bs,
			"cab": proto.ColumnType(as).Conflicts(proto.ColumnType(bs)), "cba": proto.ColumnType(bs).Conflicts(proto.ColumnType(as))})
		n++
	}
	// (2) inference of every well-formed type of the universe, and decoding through the inferred column
	kinds := map[string]colgen.Kind{}
	for _, k := range colgen.Universe(3) {
		kinds[k.Name()] = k
	}
	for i, t := range u {
		if i%*nshard != *shard {
			continue
		}
		for _, spaced := range []bool{true, false} {
			s := t.render(spaced)
			errS, typeOK, pan := inferCheck(s)
			ev := map[string]any{"ev": "Infer", "s": s, "t": t, "wellFormed": true, "err": errS, "typeOK": typeOK, "panic": pan, "decode": "n/a"}
			if k, ok := kinds[t.render(true)]; ok && errS == "" && pan == "" {
				// a block of that type, produced by a typed column, decoded through inference and re-encoded
				col := k.New()
				rows := 1 + rng.Intn(3)
				for j := 0; j < rows; j++ {
					col.Append(k.Gen(rng, 6))
				}
				var b1, b2 proto.Buffer
				blk := proto.Block{Columns: 1, Rows: rows}
				_ = blk.EncodeBlock(&b1, 54460, []proto.InputColumn{{Name: "c", Data: col.Column()}})
				// present the type under the rendering being tested
				enc := bytes.Replace(b1.Buf, append([]byte{byte(len(k.Name()))}, k.Name()...), append([]byte{byte(len(s))}, s...), 1)
				var res proto.Results
				var dblk proto.Block
				derr := safely(func() error { return dblk.DecodeBlock(proto.NewReader(bytes.NewReader(enc)), 54460, res.Auto()) })
				if derr != nil {
					ev["decode"] = "error: " + derr.Error()
				} else {
					rerr := safely(func() error {
						return proto.Block{Columns: 1, Rows: rows}.EncodeBlock(&b2, 54460, []proto.InputColumn{{Name: "c", Data: res[0].Data.(proto.ColInput)}})
					})
					if rerr == nil && (bytes.Equal(b2.Buf, enc) || bytes.Equal(b2.Buf, b1.Buf)) { // the inferred column may report the canonical spelling of the type
						ev["decode"] = "ok"
					} else {
						ev["decode"] = "mismatch"
					}
				}
			}
			tw.Emit(ev)
			n++
		}
	}
	// (3) malformed type strings: every token sequence up to the bound, plus byte noise: Infer must return
	toks := []string{"Array", "Nullable", "LowCardinality", "Map", "Tuple", "Enum8", "DateTime64", "Decimal", "FixedString", "String", "Int8",
		"(", ")", ",", "'", "=", "3", "-1", "x", "", " "}
	count, bad := 0, []string{}
	var rec func(prefix string, depth int)
	rec = func(prefix string, depth int) {
		if count%*nshard == *shard {
			if _, _, pan := inferCheck(prefix); pan != "" && len(bad) < 20 {
				bad = append(bad, fmt.Sprintf("%q: %s", prefix, pan))
			}
		}
		count++
		if depth == *toklen {
			return
		}
		for _, t := range toks {
			rec(prefix+t, depth+1)
		}
	}
	rec("", 0)
	deep := strings.Repeat("Array(", 5000) + "Int8" + strings.Repeat(")", 5000)
	for _, s := range []string{deep, strings.Repeat("(", 100000), strings.Repeat("Nullable(", 3000), "Decimal(" + strings.Repeat("9", 400) + ")",
		"FixedString(99999999999999999999)", "FixedString(-1)", "FixedString(0)", "FixedString(-10)", "Array(FixedString(-4))", "FixedString(4611686018427387904)",
		"FixedString( 7 )", "FixedString(10)", "Nullable(FixedString(-1))", "Decimal(-1, 2)", "Decimal(0, 0)", "DateTime64(-3)", "DateTime64(99)", "Enum8()", "Enum16('a' = 99999)",
		"DateTime64(-1)", "Enum8('a'='b')", "Map(String)", "Tuple()", "Array()", "\x00\xff(\x80)"} {
		if _, _, pan := inferCheck(s); pan != "" && len(bad) < 20 {
			bad = append(bad, fmt.Sprintf("%.40q...: %s", s, pan))
		}
		count++
	}
	// unknown wrappers spelled like identifiers the library itself uses: every exported method name of an inferred
	// column, applied to that column's own type (and nested once)
	for _, el := range []string{"Int8", "String", "DateTime", "DateTime64(3)", "Decimal(9, 2)", "FixedString(4)", "Enum8('a' = 1)", "UUID",
		"Array(Int8)", "Nullable(String)", "LowCardinality(String)", "Map(String, Int8)", "Tuple(Int8, String)", "Bool", "IPv4", "Date32"} {
		var c proto.ColAuto
		if err := c.Infer(proto.ColumnType(el)); err != nil || c.Data == nil {
			continue
		}
		rt := reflect.TypeOf(c.Data)
		names := []string{"Infer", "Data", "DataType", "Type", "Reset"}
		for m := 0; m < rt.NumMethod(); m++ {
			names = append(names, rt.Method(m).Name)
		}
		for _, nm := range names {
			for _, str := range []string{nm + "(" + el + ")", "Array(" + nm + "(" + el + "))", nm + "(" + nm + "(" + el + "))", nm + "(" + el + ", " + el + ")", nm} {
				if count%*nshard == *shard {
					if _, _, pan := inferCheck(str); pan != "" && len(bad) < 20 {
						bad = append(bad, fmt.Sprintf("%q: %s", str, pan))
					}
				}
				count++
			}
		}
	}
	for i := 0; i < 20000; i++ {
		b := make([]byte, rng.Intn(24))
		rng.Read(b)
		if i%2 == 0 {
			s := u[rng.Intn(len(u))].render(true)
			pos := rng.Intn(len(s) + 1)
			b = []byte(s[:pos] + string(b[:len(b)%4]) + s[pos:])
		}
		if _, _, pan := inferCheck(string(b)); pan != "" && len(bad) < 20 {
			bad = append(bad, fmt.Sprintf("%q: %s", b, pan))
		}
		count++
	}
	if bad == nil {
		bad = []string{}
	}
	tw.Emit(map[string]any{"ev": "InferTotal", "strings": count, "panics": bad})
	n++
	if err := tw.Close(); err != nil {
		return err
	}
	fmt.Printf("{\"blocks\":%d,\"lines\":%d,\"types\":%d,\"malformed\":%d}\n", n, tw.N, len(u), count)
	return nil
}
