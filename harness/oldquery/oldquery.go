// Package oldquery reads Query packets at revisions the library's own decoder refuses.
package oldquery

import (
	"fmt"

	"github.com/ClickHouse/ch-go/proto"
)

// Decode reads the body of a Query packet at any revision. From 54429 (settings serialised as strings) the
// library's decoder does it; below, that decoder refuses, and the packet is read field by field here: id, client info,
// the settings terminator (the library writes no settings below 54429, and their typed binary form cannot be parsed
// without the server's table of setting types), stage, compression flag, body.
func Decode(r *proto.Reader, rev int, q *proto.Query) error {
	if proto.FeatureSettingsSerializedAsStrings.In(rev) {
		return q.DecodeAware(r, rev)
	}
	id, err := r.Str()
	if err != nil {
		return err
	}
	q.ID = id
	if proto.FeatureClientWriteInfo.In(rev) {
		if err := q.Info.DecodeAware(r, rev); err != nil {
			return err
		}
	}
	key, err := r.Str()
	if err != nil {
		return err
	}
	if key != "" {
		return fmt.Errorf("binary setting %q at revision %d", key, rev)
	}
	st, err := r.UVarInt()
	if err != nil {
		return err
	}
	q.Stage = proto.Stage(st)
	co, err := r.UVarInt()
	if err != nil {
		return err
	}
	if co > 1 {
		return fmt.Errorf("compression flag %d", co)
	}
	q.Compression = proto.Compression(co)
	body, err := r.Str()
	if err != nil {
		return err
	}
	q.Body = body
	return nil
}
