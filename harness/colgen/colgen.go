// Package colgen builds real proto columns from a type description and abstract values, and reads
// them back: the projection function shared by the codec checks.
//
// Abstract values (JSON-friendly, exactly what spec/Wire.tla calls a value):
//
//	fixed-width kinds, UUID, FixedString: []int    the raw little-endian bytes (UUID: the 16 RFC bytes)
//	String:                               []int    the bytes
//	Nullable(T):                          []any{}  (NULL) or []any{v}
//	Array(T):                             []any    of values
//	Map(K,V):                             []any    of []any{k, v}, in insertion order
//	Tuple(...):                           []any    of element values
//	Point:                                []any{x, y} (two 8-byte values)
//	LowCardinality(T):                    the value of T
//	Nothing:                              []any{}
//
// Go values are turned into raw bytes with encoding/binary only, never with ch-go's own encoders.
package colgen

import (
	"bytes"
	"encoding/binary"
	"fmt"
	"math/rand"
	"strings"

	"github.com/ClickHouse/ch-go/proto"
	"github.com/google/uuid"
)

// Kind is a column type the harness can build.
type Kind interface {
	Name() string        // ClickHouse type name
	AST() map[string]any // type AST for the specification
	New() Col
	Gen(r *rand.Rand, budget int) any // a random abstract value
	Zero() any                        // the value a NULL / absent element is encoded with
}

// Col is a real column with abstract access.
type Col interface {
	Column() proto.Column
	Append(v any)
	Row(i int) any
}

// ---------------------------------------------------------------------------
// generic leaf / composite kinds

type kindOf[T any] struct {
	name    string
	ast     map[string]any
	newCol  func() proto.ColumnOf[T]
	toAbs   func(T) any
	fromAbs func(any) T
	gen     func(r *rand.Rand, budget int) any
	zero    func() any
}

type colOf[T any] struct {
	k *kindOf[T]
	c proto.ColumnOf[T]
}

func (k *kindOf[T]) Name() string                     { return k.name }
func (k *kindOf[T]) AST() map[string]any              { return k.ast }
func (k *kindOf[T]) New() Col                         { return &colOf[T]{k: k, c: k.newCol()} }
func (k *kindOf[T]) Gen(r *rand.Rand, budget int) any { return k.gen(r, budget) }
func (k *kindOf[T]) Zero() any                        { return k.zero() }
func (c *colOf[T]) Column() proto.Column              { return c.c }
func (c *colOf[T]) Append(v any)                      { c.c.Append(c.k.fromAbs(v)) }
func (c *colOf[T]) Row(i int) any                     { return c.k.toAbs(c.c.Row(i)) }

// Ints converts bytes to the abstract representation.
func Ints(b []byte) []int {
	out := make([]int, len(b))
	for i, v := range b {
		out[i] = int(v)
	}
	return out
}

// Bytes converts an abstract byte list back (accepts []int and JSON's []any of float64).
func Bytes(v any) []byte {
	switch x := v.(type) {
	case []int:
		out := make([]byte, len(x))
		for i, b := range x {
			out[i] = byte(b)
		}
		return out
	case []any:
		out := make([]byte, len(x))
		for i, b := range x {
			switch n := b.(type) {
			case float64:
				out[i] = byte(n)
			case int:
				out[i] = byte(n)
			}
		}
		return out
	case []byte:
		return x
	}
	panic(fmt.Sprintf("colgen: not a byte list: %T", v))
}

func list(v any) []any {
	switch x := v.(type) {
	case []any:
		return x
	case nil:
		return nil
	}
	panic(fmt.Sprintf("colgen: not a list: %T", v))
}

var boundaryBytes = []byte{0x00, 0xFF, 0x80, 0x7F, 0x01}

func genFixed(w int) func(r *rand.Rand, budget int) any {
	return func(r *rand.Rand, _ int) any {
		b := make([]byte, w)
		switch r.Intn(4) {
		case 0:
			fill := boundaryBytes[r.Intn(len(boundaryBytes))]
			for i := range b {
				b[i] = fill
			}
		case 1:
			b[0] = boundaryBytes[r.Intn(len(boundaryBytes))]
			b[w-1] = boundaryBytes[r.Intn(len(boundaryBytes))]
		default:
			r.Read(b)
		}
		return Ints(b)
	}
}

// Fixed is a kind whose values are w raw little-endian bytes of a fixed-size Go type T.
func Fixed[T any](name string, w int, newCol func() proto.ColumnOf[T]) *kindOf[T] {
	return &kindOf[T]{
		name: name, ast: map[string]any{"k": "fixed", "w": w}, newCol: newCol,
		toAbs: func(v T) any {
			var buf bytes.Buffer
			if err := binary.Write(&buf, binary.LittleEndian, v); err != nil {
				panic(err)
			}
			return Ints(buf.Bytes())
		},
		fromAbs: func(a any) T {
			var v T
			if err := binary.Read(bytes.NewReader(Bytes(a)), binary.LittleEndian, &v); err != nil {
				panic(err)
			}
			return v
		},
		gen:  genFixed(w),
		zero: func() any { return Ints(make([]byte, w)) },
	}
}

func genString(r *rand.Rand, budget int) any {
	var n int
	switch r.Intn(10) {
	case 0:
		n = 0
	case 1:
		n = []int{127, 128, 129, 255, 256}[r.Intn(5)]
	default:
		n = r.Intn(12)
	}
	if budget < 4 && n > 40 {
		n = r.Intn(8)
	}
	b := make([]byte, n)
	r.Read(b)
	return Ints(b)
}

// String kind.
func String() *kindOf[string] {
	return &kindOf[string]{
		name: "String", ast: map[string]any{"k": "string"},
		newCol:  func() proto.ColumnOf[string] { return new(proto.ColStr) },
		toAbs:   func(v string) any { return Ints([]byte(v)) },
		fromAbs: func(a any) string { return string(Bytes(a)) },
		gen:     genString,
		zero:    func() any { return []int{} },
	}
}

// JSONStr is the JSON column transferred as strings (proto.ColJSONStr): a serialization version in the state prefix,
// then a String column.
func JSONStr() *kindOf[string] {
	return &kindOf[string]{
		name: "JSON", ast: map[string]any{"k": "json"},
		newCol:  func() proto.ColumnOf[string] { return new(proto.ColJSONStr) },
		toAbs:   func(v string) any { return Ints([]byte(v)) },
		fromAbs: func(a any) string { return string(Bytes(a)) },
		gen: func(r *rand.Rand, budget int) any {
			return Ints([]byte([]string{`{}`, `{"a":1}`, `{"k":"v","n":[1,2,3]}`, `{"s":"` + strings.Repeat("x", 130) + `"}`, ``}[r.Intn(5)]))
		},
		zero: func() any { return []int{} },
	}
}

// FixedString(n) kind.
func FixedString(n int) *kindOf[[]byte] {
	return &kindOf[[]byte]{
		name: fmt.Sprintf("FixedString(%d)", n), ast: map[string]any{"k": "fstring", "n": n},
		newCol: func() proto.ColumnOf[[]byte] {
			c := new(proto.ColFixedStr)
			c.SetSize(n)
			return c
		},
		toAbs:   func(v []byte) any { return Ints(v) },
		fromAbs: func(a any) []byte { return Bytes(a) },
		gen:     genFixed(n),
		zero:    func() any { return Ints(make([]byte, n)) },
	}
}

// EnumText is the inferring enum column (proto.ColEnum): its values are the names, the wire carries the numbers of
// the definition it was given by the server. The abstract value is the name's bytes; the specification gets the
// table (names and their little-endian raw values).
func EnumText(bits int, names []string, nums []int) *kindOf[string] {
	var defs []string
	nameInts, raws := []any{}, []any{}
	for i, n := range names {
		defs = append(defs, fmt.Sprintf("'%s' = %d", n, nums[i]))
		nameInts = append(nameInts, Ints([]byte(n)))
		raw := make([]byte, bits/8)
		for j := range raw {
			raw[j] = byte(uint64(int64(nums[i])) >> (8 * uint(j)))
		}
		raws = append(raws, Ints(raw))
	}
	tname := fmt.Sprintf("Enum%d(%s)", bits, strings.Join(defs, ", "))
	return &kindOf[string]{
		name: tname, ast: map[string]any{"k": "enum", "w": bits / 8, "names": nameInts, "raws": raws},
		newCol: func() proto.ColumnOf[string] {
			c := new(proto.ColEnum)
			if err := c.Infer(proto.ColumnType(tname)); err != nil {
				panic(err)
			}
			return c
		},
		toAbs:   func(v string) any { return Ints([]byte(v)) },
		fromAbs: func(a any) string { return string(Bytes(a)) },
		gen:     func(r *rand.Rand, _ int) any { return Ints([]byte(names[r.Intn(len(names))])) },
		zero:    func() any { return Ints([]byte(names[0])) },
	}
}

// UUID kind: the abstract value is the 16 RFC bytes.
func UUID() *kindOf[uuid.UUID] {
	return &kindOf[uuid.UUID]{
		name: "UUID", ast: map[string]any{"k": "uuid"},
		newCol:  func() proto.ColumnOf[uuid.UUID] { return new(proto.ColUUID) },
		toAbs:   func(v uuid.UUID) any { return Ints(v[:]) },
		fromAbs: func(a any) uuid.UUID { var u uuid.UUID; copy(u[:], Bytes(a)); return u },
		gen:     genFixed(16),
		zero:    func() any { return Ints(make([]byte, 16)) },
	}
}

// Nothing kind.
func Nothing() *kindOf[proto.Nothing] {
	return &kindOf[proto.Nothing]{
		name: "Nothing", ast: map[string]any{"k": "nothing"},
		newCol:  func() proto.ColumnOf[proto.Nothing] { return new(proto.ColNothing) },
		toAbs:   func(proto.Nothing) any { return []any{} },
		fromAbs: func(any) proto.Nothing { return proto.Nothing{} },
		gen:     func(*rand.Rand, int) any { return []any{} },
		zero:    func() any { return []any{} },
	}
}

// Point kind.
func Point() *kindOf[proto.Point] {
	f := Fixed[float64]("Float64", 8, nil)
	return &kindOf[proto.Point]{
		name: "Point", ast: map[string]any{"k": "point"},
		newCol:  func() proto.ColumnOf[proto.Point] { return new(proto.ColPoint) },
		toAbs:   func(v proto.Point) any { return []any{f.toAbs(v.X), f.toAbs(v.Y)} },
		fromAbs: func(a any) proto.Point { l := list(a); return proto.Point{X: f.fromAbs(l[0]), Y: f.fromAbs(l[1])} },
		gen:     func(r *rand.Rand, b int) any { return []any{f.gen(r, b), f.gen(r, b)} },
		zero:    func() any { return []any{f.zero(), f.zero()} },
	}
}

// Array(T).
func Array[T any](e *kindOf[T]) *kindOf[[]T] {
	return &kindOf[[]T]{
		name: "Array(" + e.name + ")", ast: map[string]any{"k": "array", "e": e.ast},
		newCol: func() proto.ColumnOf[[]T] { return proto.NewArray[T](e.newCol()) },
		toAbs: func(v []T) any {
			out := make([]any, len(v))
			for i := range v {
				out[i] = e.toAbs(v[i])
			}
			return out
		},
		fromAbs: func(a any) []T {
			l := list(a)
			out := make([]T, len(l))
			for i := range l {
				out[i] = e.fromAbs(l[i])
			}
			return out
		},
		gen: func(r *rand.Rand, budget int) any {
			n := r.Intn(4)
			if r.Intn(4) == 0 {
				n = 0
			}
			out := make([]any, n)
			for i := range out {
				out[i] = e.gen(r, budget/2)
			}
			return out
		},
		zero: func() any { return []any{} },
	}
}

// Nullable(T).
func Nullable[T any](e *kindOf[T]) *kindOf[proto.Nullable[T]] {
	return &kindOf[proto.Nullable[T]]{
		name: "Nullable(" + e.name + ")", ast: map[string]any{"k": "nullable", "e": e.ast},
		newCol: func() proto.ColumnOf[proto.Nullable[T]] { return proto.NewColNullable[T](e.newCol()) },
		toAbs: func(v proto.Nullable[T]) any {
			if !v.Set {
				return []any{}
			}
			return []any{e.toAbs(v.Value)}
		},
		fromAbs: func(a any) proto.Nullable[T] {
			l := list(a)
			if len(l) == 0 {
				// a NULL still occupies a slot of the element type in the values column
				return proto.Nullable[T]{Set: false, Value: e.fromAbs(e.zero())}
			}
			return proto.NewNullable(e.fromAbs(l[0]))
		},
		gen: func(r *rand.Rand, budget int) any {
			if r.Intn(3) == 0 {
				return []any{}
			}
			return []any{e.gen(r, budget)}
		},
		zero: func() any { return []any{} },
	}
}

// LCSpread is the number of distinct values LowCardinality kinds generate from (raise it to leave one-byte keys).
var LCSpread = 5

// LowCardinality(T).
func LowCardinality[T comparable](e *kindOf[T]) *kindOf[T] {
	return &kindOf[T]{
		name: "LowCardinality(" + e.name + ")", ast: map[string]any{"k": "lc", "e": e.ast},
		newCol:  func() proto.ColumnOf[T] { return proto.NewLowCardinality[T](e.newCol()) },
		toAbs:   e.toAbs,
		fromAbs: e.fromAbs,
		gen: func(r *rand.Rand, budget int) any {
			// few distinct values, so that keys repeat
			rr := rand.New(rand.NewSource(int64(r.Intn(LCSpread))))
			return e.gen(rr, budget)
		},
		zero: e.zero,
	}
}

type mapCol[K comparable, V any] struct {
	k  *kindOf[map[K]V]
	kk *kindOf[K]
	kv *kindOf[V]
	c  *proto.ColMap[K, V]
}

func (c *mapCol[K, V]) Column() proto.Column { return c.c }
func (c *mapCol[K, V]) Append(v any) {
	var kvs []proto.KV[K, V]
	for _, p := range list(v) {
		pl := list(p)
		kvs = append(kvs, proto.KV[K, V]{Key: c.kk.fromAbs(pl[0]), Value: c.kv.fromAbs(pl[1])})
	}
	c.c.AppendKV(kvs)
}
func (c *mapCol[K, V]) Row(i int) any {
	out := []any{}
	for _, kv := range c.c.RowKV(i) {
		out = append(out, []any{c.kk.toAbs(kv.Key), c.kv.toAbs(kv.Value)})
	}
	return out
}

type mapKind[K comparable, V any] struct {
	kk *kindOf[K]
	kv *kindOf[V]
}

func (m *mapKind[K, V]) Name() string { return "Map(" + m.kk.name + ", " + m.kv.name + ")" }
func (m *mapKind[K, V]) AST() map[string]any {
	return map[string]any{"k": "map", "key": m.kk.ast, "val": m.kv.ast}
}
func (m *mapKind[K, V]) New() Col {
	return &mapCol[K, V]{kk: m.kk, kv: m.kv, c: proto.NewMap[K, V](m.kk.newCol(), m.kv.newCol())}
}
func (m *mapKind[K, V]) Gen(r *rand.Rand, budget int) any {
	n := r.Intn(3)
	out := make([]any, n)
	for i := range out {
		out[i] = []any{m.kk.gen(r, budget/2), m.kv.gen(r, budget/2)}
	}
	return out
}
func (m *mapKind[K, V]) Zero() any { return []any{} }

// Map(K, V) with ordered key/value pairs (AppendKV / RowKV).
func Map[K comparable, V any](kk *kindOf[K], kv *kindOf[V]) Kind {
	return &mapKind[K, V]{kk: kk, kv: kv}
}

type tupleKind struct{ es []Kind }
type tupleCol struct {
	k    *tupleKind
	cols []Col
	c    proto.ColTuple
}

func (t *tupleKind) Name() string {
	s := "Tuple("
	for i, e := range t.es {
		if i > 0 {
			s += ", "
		}
		s += e.Name()
	}
	return s + ")"
}
func (t *tupleKind) AST() map[string]any {
	var es []any
	for _, e := range t.es {
		es = append(es, e.AST())
	}
	return map[string]any{"k": "tuple", "es": es}
}
func (t *tupleKind) New() Col {
	tc := &tupleCol{k: t}
	for _, e := range t.es {
		c := e.New()
		tc.cols = append(tc.cols, c)
		tc.c = append(tc.c, c.Column())
	}
	return tc
}
func (t *tupleKind) Gen(r *rand.Rand, budget int) any {
	out := make([]any, len(t.es))
	for i, e := range t.es {
		out[i] = e.Gen(r, budget/2)
	}
	return out
}
func (t *tupleKind) Zero() any {
	out := make([]any, len(t.es))
	for i, e := range t.es {
		out[i] = e.Zero()
	}
	return out
}
func (c *tupleCol) Column() proto.Column { return c.c }
func (c *tupleCol) Append(v any) {
	l := list(v)
	for i := range c.cols {
		c.cols[i].Append(l[i])
	}
}
func (c *tupleCol) Row(i int) any {
	out := make([]any, len(c.cols))
	for j := range c.cols {
		out[j] = c.cols[j].Row(i)
	}
	return out
}

// Tuple(e1, e2, ...).
func Tuple(es ...Kind) Kind { return &tupleKind{es: es} }

// Named is an element of a named tuple ("name Type"): proto.ColNamed around the element's column.
func Named[T any](e *kindOf[T], name string) *kindOf[T] {
	n := *e
	n.name = name + " " + e.name
	n.newCol = func() proto.ColumnOf[T] { return proto.Named[T](e.newCol(), name) }
	return &n
}

// rawKind adapts a column that is not a ColumnOf its raw element type (Date, DateTime...): values are
// appended and read as raw integers.
type rawKind struct {
	name string
	w    int
	mk   func() (proto.Column, func(raw []byte), func(i int) []byte)
}
type rawCol struct {
	c   proto.Column
	app func(raw []byte)
	row func(i int) []byte
}

func (k *rawKind) Name() string                { return k.name }
func (k *rawKind) AST() map[string]any         { return map[string]any{"k": "fixed", "w": k.w} }
func (k *rawKind) New() Col                    { c, a, r := k.mk(); return &rawCol{c: c, app: a, row: r} }
func (k *rawKind) Gen(r *rand.Rand, b int) any { return genFixed(k.w)(r, b) }
func (k *rawKind) Zero() any                   { return Ints(make([]byte, k.w)) }
func (c *rawCol) Column() proto.Column         { return c.c }
func (c *rawCol) Append(v any)                 { c.app(Bytes(v)) }
func (c *rawCol) Row(i int) any                { return Ints(c.row(i)) }

func le(v any) []byte {
	var buf bytes.Buffer
	if err := binary.Write(&buf, binary.LittleEndian, v); err != nil {
		panic(err)
	}
	return buf.Bytes()
}
