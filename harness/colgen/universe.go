package colgen

import (
	"encoding/binary"
	"math/rand"

	"github.com/ClickHouse/ch-go/proto"
	"github.com/google/uuid"
)

// col adapts a constructor of a concrete generated column to ColumnOf[T].
func col[T any, C interface {
	*S
	proto.ColumnOf[T]
}, S any]() func() proto.ColumnOf[T] {
	return func() proto.ColumnOf[T] { return C(new(S)) }
}

func boolKind() *kindOf[bool] {
	k := Fixed[bool]("Bool", 1, col[bool, *proto.ColBool]())
	k.ast = map[string]any{"k": "bool"}
	k.gen = func(r *rand.Rand, _ int) any { return []int{r.Intn(2)} }
	return k
}

// Base kinds: every scalar column type of the library that has a raw fixed-width representation,
// plus String, FixedString, UUID, Nothing, Point.
type Bases struct {
	U8   *kindOf[uint8]
	U16  *kindOf[uint16]
	U32  *kindOf[uint32]
	U64  *kindOf[uint64]
	I8   *kindOf[int8]
	I16  *kindOf[int16]
	I32  *kindOf[int32]
	I64  *kindOf[int64]
	F32  *kindOf[float32]
	F64  *kindOf[float64]
	U128 *kindOf[proto.UInt128]
	I128 *kindOf[proto.Int128]
	U256 *kindOf[proto.UInt256]
	I256 *kindOf[proto.Int256]
	D32  *kindOf[proto.Decimal32]
	D64  *kindOf[proto.Decimal64]
	D128 *kindOf[proto.Decimal128]
	D256 *kindOf[proto.Decimal256]
	E8   *kindOf[proto.Enum8]
	E16  *kindOf[proto.Enum16]
	IP4  *kindOf[proto.IPv4]
	IP6  *kindOf[proto.IPv6]
	Bool *kindOf[bool]
	Str  *kindOf[string]
	FS3  *kindOf[[]byte]
	FS16 *kindOf[[16]byte]
	UUID *kindOf[uuid.UUID]
	Noth *kindOf[proto.Nothing]
	Pt   *kindOf[proto.Point]
	// the inferring enum column (names on the Go side, numbers on the wire)
	JSON  *kindOf[string]
	EnT8  *kindOf[string]
	EnT16 *kindOf[string]
	// the same names under other numbers (a column re-inferred with another definition)
	EnT8Alt  *kindOf[string]
	EnT16Alt *kindOf[string]
}

func NewBases() *Bases {
	return &Bases{
		U8: Fixed[uint8]("UInt8", 1, col[uint8, *proto.ColUInt8]()), U16: Fixed[uint16]("UInt16", 2, col[uint16, *proto.ColUInt16]()),
		U32: Fixed[uint32]("UInt32", 4, col[uint32, *proto.ColUInt32]()), U64: Fixed[uint64]("UInt64", 8, col[uint64, *proto.ColUInt64]()),
		I8: Fixed[int8]("Int8", 1, col[int8, *proto.ColInt8]()), I16: Fixed[int16]("Int16", 2, col[int16, *proto.ColInt16]()),
		I32: Fixed[int32]("Int32", 4, col[int32, *proto.ColInt32]()), I64: Fixed[int64]("Int64", 8, col[int64, *proto.ColInt64]()),
		F32: Fixed[float32]("Float32", 4, col[float32, *proto.ColFloat32]()), F64: Fixed[float64]("Float64", 8, col[float64, *proto.ColFloat64]()),
		U128: Fixed[proto.UInt128]("UInt128", 16, col[proto.UInt128, *proto.ColUInt128]()),
		I128: Fixed[proto.Int128]("Int128", 16, col[proto.Int128, *proto.ColInt128]()),
		U256: Fixed[proto.UInt256]("UInt256", 32, col[proto.UInt256, *proto.ColUInt256]()),
		I256: Fixed[proto.Int256]("Int256", 32, col[proto.Int256, *proto.ColInt256]()),
		D32:  Fixed[proto.Decimal32]("Decimal32", 4, col[proto.Decimal32, *proto.ColDecimal32]()),
		D64:  Fixed[proto.Decimal64]("Decimal64", 8, col[proto.Decimal64, *proto.ColDecimal64]()),
		D128: Fixed[proto.Decimal128]("Decimal128", 16, col[proto.Decimal128, *proto.ColDecimal128]()),
		D256: Fixed[proto.Decimal256]("Decimal256", 32, col[proto.Decimal256, *proto.ColDecimal256]()),
		E8:   Fixed[proto.Enum8]("Enum8", 1, col[proto.Enum8, *proto.ColEnum8]()),
		E16:  Fixed[proto.Enum16]("Enum16", 2, col[proto.Enum16, *proto.ColEnum16]()),
		IP4:  Fixed[proto.IPv4]("IPv4", 4, col[proto.IPv4, *proto.ColIPv4]()),
		IP6:  Fixed[proto.IPv6]("IPv6", 16, col[proto.IPv6, *proto.ColIPv6]()),
		Bool: boolKind(), Str: String(), FS3: FixedString(3),
		FS16: Fixed[[16]byte]("FixedString(16)", 16, col[[16]byte, *proto.ColFixedStr16]()),
		UUID: UUID(), Noth: Nothing(), Pt: Point(),
		JSON: JSONStr(),
		// (names that differ only by spaces at their edges, and a name of one space: a definition is not to be trimmed)
		EnT8:     EnumText(8, []string{"a", "bee", "", "z z", " a", "a ", " "}, []int{1, 2, -128, 127, 3, 4, 5}),
		EnT16:    EnumText(16, []string{"x", "yy", "neg"}, []int{0, 300, -32768}),
		EnT8Alt:  EnumText(8, []string{"a", "bee", "", "z z", " a", "a ", " "}, []int{10, 20, 127, -128, 4, 3, 1}),
		EnT16Alt: EnumText(16, []string{"x", "yy", "neg"}, []int{300, 0, 7}),
	}
}

// raw temporal kinds (values are appended and read as raw integers, not through time.Time)
func dateKind() Kind {
	return &rawKind{name: "Date", w: 2, mk: func() (proto.Column, func([]byte), func(int) []byte) {
		c := new(proto.ColDate)
		return c, func(b []byte) { *c = append(*c, proto.Date(binary.LittleEndian.Uint16(b))) },
			func(i int) []byte { return le(uint16((*c)[i])) }
	}}
}
func date32Kind() Kind {
	return &rawKind{name: "Date32", w: 4, mk: func() (proto.Column, func([]byte), func(int) []byte) {
		c := new(proto.ColDate32)
		return c, func(b []byte) { *c = append(*c, proto.Date32(int32(binary.LittleEndian.Uint32(b)))) },
			func(i int) []byte { return le(int32((*c)[i])) }
	}}
}
func dateTimeKind() Kind {
	return &rawKind{name: "DateTime", w: 4, mk: func() (proto.Column, func([]byte), func(int) []byte) {
		c := new(proto.ColDateTime)
		return c, func(b []byte) { c.Data = append(c.Data, proto.DateTime(binary.LittleEndian.Uint32(b))) },
			func(i int) []byte { return le(uint32(c.Data[i])) }
	}}
}
func dateTime64Kind(p int) Kind {
	name := "DateTime64(" + string(rune('0'+p)) + ")"
	return &rawKind{name: name, w: 8, mk: func() (proto.Column, func([]byte), func(int) []byte) {
		c := new(proto.ColDateTime64).WithPrecision(proto.Precision(p))
		return c, func(b []byte) { c.Data = append(c.Data, proto.DateTime64(int64(binary.LittleEndian.Uint64(b)))) },
			func(i int) []byte { return le(int64(c.Data[i])) }
	}}
}
func intervalKind() Kind {
	return &rawKind{name: "IntervalSecond", w: 8, mk: func() (proto.Column, func([]byte), func(int) []byte) {
		c := &proto.ColInterval{Scale: proto.IntervalSecond}
		return c, func(b []byte) { c.Values = append(c.Values, int64(binary.LittleEndian.Uint64(b))) },
			func(i int) []byte { return le(int64(c.Values[i])) }
	}}
}

// composites over one element kind
func over[T any](out *[]Kind, e *kindOf[T], depth int) {
	str := String()
	*out = append(*out, e)
	if depth < 2 {
		return
	}
	arr, nul := Array(e), Nullable(e)
	*out = append(*out, arr, nul, Map(str, e), Tuple(e, str))
	if depth < 3 {
		return
	}
	*out = append(*out, Array(arr), Array(nul), Map(str, arr), Map(str, nul), Array(Array(arr)),
		Tuple(arr, nul, e), Tuple(Tuple(e, str), arr), Tuple(Map(str, arr), Array(nul)))
}

// additional composites for element kinds that can be dictionary or map keys
func overCmp[T comparable](out *[]Kind, e *kindOf[T], depth int) {
	if depth < 2 {
		return
	}
	str := String()
	lc := LowCardinality(e)
	// the nestings of LowCardinality are part of the small universe too: its state prefix and "nothing at all for no
	// rows" rule interact with the container around it
	*out = append(*out, lc, Map(e, str), Array(lc), Map(str, lc))
	if depth < 3 {
		return
	}
	*out = append(*out, Map(lc, Array(e)), Map(e, LowCardinality(str)), Array(Array(lc)), Tuple(lc, e),
		Map(str, Array(lc)))
}

// Universe lists the kinds explored to the given composition depth (1..3).
func Universe(depth int) []Kind {
	b := NewBases()
	var u []Kind
	over(&u, b.U8, depth)
	over(&u, b.U16, depth)
	over(&u, b.U32, depth)
	over(&u, b.U64, depth)
	over(&u, b.I8, depth)
	over(&u, b.I16, depth)
	over(&u, b.I32, depth)
	over(&u, b.I64, depth)
	over(&u, b.F32, depth)
	over(&u, b.F64, depth)
	over(&u, b.U128, depth)
	over(&u, b.I128, depth)
	over(&u, b.U256, depth)
	over(&u, b.I256, depth)
	over(&u, b.D32, depth)
	over(&u, b.D64, depth)
	over(&u, b.D128, depth)
	over(&u, b.D256, depth)
	over(&u, b.E8, depth)
	over(&u, b.E16, depth)
	over(&u, b.IP4, depth)
	over(&u, b.IP6, depth)
	over(&u, b.Bool, depth)
	over(&u, b.Str, depth)
	over(&u, b.FS3, depth)
	over(&u, b.FS16, depth)
	over(&u, b.UUID, depth)
	over(&u, b.Noth, depth)
	over(&u, b.Pt, depth)
	over(&u, b.JSON, depth)
	over(&u, b.EnT8, depth)
	over(&u, b.EnT16, depth)
	overCmp(&u, b.U8, depth)
	overCmp(&u, b.U16, depth)
	overCmp(&u, b.U64, depth)
	overCmp(&u, b.I32, depth)
	overCmp(&u, b.Str, depth)
	overCmp(&u, b.FS16, depth)
	overCmp(&u, b.UUID, depth)
	overCmp(&u, b.IP4, depth)
	overCmp(&u, b.U128, depth)
	overCmp(&u, b.Bool, depth)
	u = append(u, dateKind(), date32Kind(), dateTimeKind(), dateTime64Kind(3), dateTime64Kind(9), intervalKind())
	// the same wire types through the other column implementations the library offers
	u = append(u,
		&kindOf[[]byte]{name: "String", ast: map[string]any{"k": "string"}, newCol: func() proto.ColumnOf[[]byte] { return new(proto.ColBytes) },
			toAbs: func(v []byte) any { return Ints(v) }, fromAbs: func(a any) []byte { return Bytes(a) }, gen: genString, zero: func() any { return []int{} }},
		&kindOf[[]byte]{name: "JSON", ast: map[string]any{"k": "json"}, newCol: func() proto.ColumnOf[[]byte] { return new(proto.ColJSONBytes) },
			toAbs: func(v []byte) any { return Ints(v) }, fromAbs: func(a any) []byte { return Bytes(a) }, gen: genString, zero: func() any { return []int{} }},
		Fixed[proto.DateTime64]("DateTime64(6)", 8, func() proto.ColumnOf[proto.DateTime64] {
			c := new(proto.ColDateTime64Raw)
			c.WithPrecision(6)
			return c
		}),
		&rawKind{name: "IntervalMonth", w: 8, mk: func() (proto.Column, func([]byte), func(int) []byte) {
			c := &proto.ColInterval{Scale: proto.IntervalMonth}
			return c, func(b []byte) {
					c.Append(proto.Interval{Scale: proto.IntervalMonth, Value: int64(binary.LittleEndian.Uint64(b))})
				},
				func(i int) []byte { return le(c.Row(i).Value) }
		}})
	if depth >= 2 {
		// named tuples: elements wrapped in proto.ColNamed, also around columns with a state prefix, a Prepare step
		// or an inferred definition
		u = append(u, Tuple(Named(b.U8, "a"), Named(b.Str, "s")),
			Tuple(Named(LowCardinality(b.Str), "l"), Named(Array(b.U16), "arr")),
			Tuple(Named(b.EnT8, "e"), Named(b.U16, "n")),
			Tuple(Named(b.JSON, "j"), Named(Nullable(b.I32), "x")))
	}
	return u
}

// Dual lists the column codecs that exist in a default and a purego variant (C15): the generated
// fixed-width columns, Bool and UUID.
func Dual() []Kind {
	b := NewBases()
	return []Kind{b.U8, b.U16, b.U32, b.U64, b.I8, b.I16, b.I32, b.I64, b.F32, b.F64, b.U128, b.I128, b.U256, b.I256,
		b.D32, b.D64, b.D128, b.D256, b.E8, b.E16, b.IP4, b.IP6, b.Bool, b.UUID, b.FS16,
		Fixed[[8]byte]("FixedString(8)", 8, col[[8]byte, *proto.ColFixedStr8]()),
		Fixed[[32]byte]("FixedString(32)", 32, col[[32]byte, *proto.ColFixedStr32]()),
		Fixed[[64]byte]("FixedString(64)", 64, col[[64]byte, *proto.ColFixedStr64]()),
		Fixed[[128]byte]("FixedString(128)", 128, col[[128]byte, *proto.ColFixedStr128]()),
		Fixed[[256]byte]("FixedString(256)", 256, col[[256]byte, *proto.ColFixedStr256]()),
		Fixed[[512]byte]("FixedString(512)", 512, col[[512]byte, *proto.ColFixedStr512]()),
		dateKind(), date32Kind(), dateTimeKind(), dateTime64Kind(6)}
}
