#!/usr/bin/env python3
"""C04 — a failed query leaves the client closed or exactly at a packet boundary.

design check : TLC on QueryLifecycle.tla (MC_QL configs): PacketBoundary, NoStaleOutput, CleanSuccess,
               ClosedImpliesConn (+ all other invariants) over every interleaving of sender / receiver /
               cancel-watch, every script, write break, callback failure; liveness Returns.
binding      : the real ch.Client is driven gate by gate (verif hooks + gated in-memory conn) through
               (a) behaviours TLC generated from the model (simulation of MC_QL, with and without
               cancellation), (b) exceptions / faults injected before and after every client step,
               (c) the write direction breaking at every byte offset, (d) the server stream cut at every
               byte offset, (e) every callback failing, (f) random schedules; every recorded step is
               validated by TLC against Trace_QL (spec actions + observed wire tokens, callbacks, error
               classes, closed flag, next request's bytes).  What a query leaves behind matters to the next request:
               (g) sessions of 2-4 requests on ONE client run free (no gates): results, exceptions, inserts, faults
               that close the client, cancellation and a foreign Close in between, the same result columns bound
               again; TLC searches the model for every request's outcome AND the packets it wrote (Outcome_QL.tla)
               and validates the chain (Trace_SessionSeq.tla: a closed client stays closed, refuses without writing)."""
import json
import os
import random
import sys
sys.path.insert(0, os.path.join(os.path.dirname(os.path.abspath(__file__)), "..", "lib"))
import vlib as V
import ql as Q

PID = "C04"


def design(run):
    cfgs = ["MC_QL_qselect.cfg", "MC_QL_insert.cfg", "MC_QL_wbreak.cfg"] + (["MC_QL_select.cfg", "MC_QL_stream.cfg", "MC_QL_foreign.cfg", "MC_QL_live.cfg"] if run.thorough() else [])
    return Q.design(PID, cfgs, nonvac=[("MC_QL_unfixed_select.cfg", "PacketBoundary"), ("MC_QL_unfixed_wbreak.cfg", "PacketBoundary")] +
                    ([("MC_QL_unfixed_stream.cfg", "PacketBoundary")] if run.thorough() else []))


def scenarios(run):
    rng = random.Random(run.seed)
    T = run.thorough()
    out = []
    n = [0]

    def add(c, **kw):
        n[0] += 1
        out.append(Q.scenario("c04-%d" % n[0], c, **kw))

    # (a) TLC-generated behaviours
    for cfgfile, num in (("Gen_QL.cfg", 6000 if T else 500), ("Gen_QL_nocancel.cfg", 6000 if T else 500)):
        behs, _ = Q.tlc_behaviours(PID, cfgfile, num, run.seed)
        for c, sched in behs:
            br = rng.randrange(0, 500) if c["wbreak"] >= 0 else -1
            add(Q.from_tlc_cfg(c), sched=sched, break_at=br, compression=rng.choice(["disabled", "lz4"]))
    run.coverage["tlc_behaviours"] = n[0]
    # (b) fault scripts under the canonical schedule and every compression mode
    for comp in (Q.COMPRESSIONS if T else ["disabled", "lz4", "zstd"]):
        for s in Q.SELECT_FAULT + Q.SELECT_EXC:
            add(Q.cfg("select", s), compression=comp)
            add(Q.cfg("select", s, present=[]), compression=comp)
        for s in Q.INSERT_FAULT + Q.INSERT_EXC:
            add(Q.cfg("insert", s, init_rows=1), compression=comp)
            add(Q.cfg("insert", s, init_rows=1, need_info=False), compression=comp)
            add(Q.cfg("stream", s, plan=[Q.Pl("append", "nil"), Q.Pl("reappend", "eof")]), compression=comp)
    # (c) the server's exception / fault arriving before and after every client step
    for scn, scripts, kw in (("select", [Q.S("exc"), Q.S("hdr", "exc"), Q.S("bad"), Q.S("eosEarly")], {}),
                             ("insert", [Q.S("exc"), Q.S("hdr", "exc"), Q.S("hdr", "eosEarly"), Q.S("hdr", "cut")], {"init_rows": 1}),
                             ("stream", [Q.S("exc"), Q.S("hdr", "exc"), Q.S("hdr", "eosEarly"), Q.S("eosEarly")],
                              {"plan": [Q.Pl("append", "nil"), Q.Pl("append", "nil"), Q.Pl("reset", "eof")]})):
        for s in scripts:
            for p in range(0, 14):
                for tailsched in ("V" * len(s) + "RRRR", "V" * len(s) + "RR" + "S" + "RR", "V" + "R" * 2 + "V" + "RRR"):
                    add(Q.cfg(scn, s, **kw), sched="S" * p + tailsched, compression=rng.choice(["disabled", "lz4"]))
    # (d) the write direction breaks at byte k, (e) the server stream is cut at byte k
    stride = 1 if T else 9
    sweeps = [("select", Q.S("hdr", "data", "eos"), {}), ("insert", Q.S("hdr", "eos"), {"init_rows": 1}),
              ("stream", Q.S("hdr", "eos"), {"plan": [Q.Pl("append", "nil"), Q.Pl("overwrite", "nil"), Q.Pl("reset", "eof")]}),
              ("stream", Q.S("hdr", "prog", "exc"), {"plan": [Q.Pl("append", "nil"), Q.Pl("append", "eof")], "init_rows": 1}),
              ("stream", Q.S("hdr", "eosEarly"), {"plan": [Q.Pl("append", "nil"), Q.Pl("append", "nil"), Q.Pl("reset", "eof")]})]
    for scn, s, kw in sweeps:
        for comp in (["disabled", "lz4", "zstd"] if T else ["disabled", "lz4"]):
            for sched in ("", "SSVRRSSVRR", "VVVRRRR"):
                add(Q.cfg(scn, s, **kw), sched=sched, compression=comp, sweep="break", stride=stride, phase=run.seed)
    for s in [Q.S("hdr", "data", "prog", "totals", "eos"), Q.S(Q.P("log", 2), "hdr", Q.P("pevents", 1), "data", "profile", "exc"),
              Q.S("prog", "tcols", "data", "eos")]:
        for comp in (["disabled", "lz4", "zstd", "none"] if T else ["disabled", "lz4"]):
            add(Q.cfg("select", s), compression=comp, sweep="cut", stride=(1 if T else 5), phase=run.seed)
    for comp in ["disabled", "lz4"]:
        add(Q.cfg("stream", Q.S("hdr", "prog", "eos"), plan=[Q.Pl("append", "nil"), Q.Pl("reset", "eof")]), compression=comp,
            sweep="cut", stride=(1 if T else 3), phase=run.seed)
    # (f) every callback failing
    for s in [Q.S("hdr", "data", "prog", Q.P("log", 2), "profile", Q.P("pevents", 2), "data", "totals", "eos")]:
        for j in range(1, 14):
            add(Q.cfg("select", s, rfail=j), compression=rng.choice(["disabled", "lz4"]))
    for pl in Q.PLANS_ERR:
        for ir in (0, 1):
            add(Q.cfg("stream", Q.S("hdr", "eos"), plan=pl, init_rows=ir))
            add(Q.cfg("stream", Q.S("hdr", "eosEarly"), plan=pl, init_rows=ir), sched="SVRRSVRRR")
    # (h) the peer stops reading (a write blocks), the server's answer - an exception, the end of the stream - arrives and is
    #     consumed meanwhile, then the connection breaks under the blocked write, having taken none / a few / many bytes of it
    for scn, kw in (("select", {}), ("insert", {"init_rows": 1}),
                    ("stream", {"plan": [Q.Pl("append", "nil"), Q.Pl("reset", "eof")], "init_rows": 1})):
        for s in ([Q.S("exc"), Q.S("hdr", "exc"), Q.S("hdr", "eos")] if scn != "select" else [Q.S("exc"), Q.S("hdr", "data", "eos")]):
            for p in range(0, 6):
                for mid in ("V" * len(s) + "RRRR" + "WW", "V" * len(s) + "RR", "", "C" + "WW"):
                    for bb in (0, 3, 40):
                        if bb == 40 and not T and p % 2:
                            continue
                        out.append(Q.scenario("c04-%d" % (len(out) + 1), Q.cfg(scn, s, **kw), sched="S" * p + "Z" + "S" * 8 + mid + "B" + "SS",
                                              compression=rng.choice(["disabled", "lz4"])))
                        out[-1].update({"breakBytes": bb, "drainBreak": True})
    behs, _ = Q.tlc_behaviours(PID, "Gen_QL_wbreak.cfg", 2000 if T else 200, run.seed + 3)
    for c, sched in behs:
        add(Q.from_tlc_cfg(c), sched=sched, compression=rng.choice(["disabled", "lz4"]))
        out[-1].update({"breakBytes": rng.choice([0, 3, 40]), "drainBreak": True})
    # (g) random schedules over the whole universe
    for i in range(4000 if T else 400):
        scn = rng.choice(["select", "insert", "stream"])
        if scn == "select":
            c = Q.cfg("select", rng.choice(Q.SELECT_OK + Q.SELECT_EXC + Q.SELECT_FAULT), present=rng.choice([Q.ALL_CBS, [], ["result"]]),
                      rfail=rng.choice([0, 0, 0, 1, 2, 3]), ext=Q.rand_ext(rng, 0.2))
        else:
            c = Q.cfg(scn, rng.choice(Q.INSERT_OK + Q.INSERT_EXC + Q.INSERT_FAULT), plan=rng.choice(Q.PLANS_OK + Q.PLANS_ERR),
                      init_rows=rng.choice([0, 1]) if scn == "stream" else 1, need_info=(rng.random() < 0.8))
        add(c, sched=Q.random_sched(rng, rng.randrange(0, 25), letters="SSSSRRRWVVVCTX" if rng.random() < 0.2 else "SSSSRRRWVVVCT"),
            break_at=(rng.randrange(0, 400) if rng.random() < 0.3 else -1), compression=rng.choice(Q.COMPRESSIONS),
            rev=rng.choice(Q.REVS))
    # a connection whose Close reports an error although it closes (as TLS does when the peer is gone): every fifth scenario
    for i, sc in enumerate(out):
        if i % 5 == 3:
            sc["closeErr"] = True
    return out


def body(run):
    if os.environ.get("VERIF_DEV_SKIP_DESIGN"):   # development aid only; never set by registered commands
        st = {"states": 1, "transitions": 1, "cfgs": {}}
    else:
        st = design(run)
    drv = V.go_build(PID, "drv")
    scs = scenarios(run)
    lines, stats, v = Q.check_and_report(run, PID, drv, scs, "c04")
    if stats["stuck"]:
        V.log("  note: %d runs ended in a Stuck event (reported through trace validation)" % stats["stuck"])
    Q.fill_coverage(run, st, stats, v, lines, len(scs))
    sessions(run, drv)


def sessions(run, drv):
    """What a query leaves behind matters to the NEXT request: sessions of 2-4 requests on one client, free-running."""
    rng = random.Random(run.seed + 99)
    T = run.thorough()
    ins = [s for s in Q.INSERT_OK if any(i["k"] == "hdr" for i in s)]
    closing = [Q.S("cut"), Q.S("bad"), Q.S("hdr", "trunc"), Q.S("hdr", "garbage"), Q.S("data", "cut")]

    def request():
        x = rng.random()
        if x < 0.35:
            return Q.cfg("select", rng.choice(Q.SELECT_OK)), ""
        if x < 0.55:
            return Q.cfg("select", rng.choice(Q.SELECT_EXC)), ""
        if x < 0.68:
            return Q.cfg("insert", rng.choice(ins), init_rows=1), ""
        if x < 0.80:
            return Q.cfg("stream", rng.choice(ins), plan=rng.choice(Q.PLANS_OK[:6]), init_rows=rng.choice([0, 1])), ""
        if x < 0.88:
            return Q.cfg("insert", rng.choice(Q.INSERT_EXC), init_rows=1), ""
        if x < 0.94:
            return Q.cfg("select", rng.choice(closing)), ""
        return Q.cfg("select", rng.choice(Q.SELECT_OK[2:6])), rng.choice(["cancel", "close"])
    cases = []
    for i in range(1200 if T else 160):
        n = rng.randrange(2, 5)
        reqs = [request() for _ in range(n)]
        comp = rng.choice(["disabled", "lz4", "zstd"])
        cases.append({"session": [Q.scenario("c04s-%d.%d" % (i + 1, j + 1), c, compression=comp) for j, (c, _) in enumerate(reqs)],
                      "sessionEnv": [e for _, e in reqs], "seed": run.seed * 1000 + i, "repeat": 1})
    outs = Q.free_sessions(run, PID, drv, cases)
    starts_closed = sum(1 for e in outs if e["startClosed"])
    after_exc = sum(1 for a, b in zip(outs, outs[1:]) if b["seq"] == a["seq"] + 1 and a["err"] == "exc" and not b["startClosed"])
    if starts_closed < 5 or after_exc < 5:
        raise V.Inconclusive("vacuous sessions: %d requests on a closed client, %d requests after an exception" % (starts_closed, after_exc))
    run.coverage["session_requests"] = len(outs)
    run.coverage["session_requests_on_closed_client"] = starts_closed
    run.coverage["session_requests_after_exception"] = after_exc


if __name__ == "__main__":
    V.main(PID, "model_checking", body)
