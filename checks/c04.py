#!/usr/bin/env python3
"""C04 — a failed query leaves the client closed or exactly at a packet boundary.

design check : TLC on QueryLifecycle.tla (MC_QL configs): PacketBoundary, NoStaleOutput, CleanSuccess,
               ClosedImpliesConn (+ all other invariants) over every interleaving of sender / receiver /
               cancel-watch, every script, write break, callback failure; liveness Returns.
binding      : the real ch.Client is driven gate by gate (verif hooks + gated in-memory conn) through
               (a) behaviours TLC generated from the model (simulation of MC_QL, with and without
               cancellation), (b) exceptions / faults injected before and after every client step,
               (c) the write direction breaking at every byte offset, (d) the server stream cut at every
               byte offset, (e) every callback failing, (f) random schedules; every recorded step is
               validated by TLC against Trace_QL (spec actions + observed wire tokens, callbacks, error
               classes, closed flag, next request's bytes)."""
import json
import os
import random
import sys
sys.path.insert(0, os.path.join(os.path.dirname(os.path.abspath(__file__)), "..", "lib"))
import vlib as V
import ql as Q

PID = "C04"


def design(run):
    cfgs = ["MC_QL_qselect.cfg", "MC_QL_insert.cfg"] + (["MC_QL_select.cfg", "MC_QL_stream.cfg", "MC_QL_foreign.cfg", "MC_QL_live.cfg"] if run.thorough() else [])
    return Q.design(PID, cfgs, nonvac=[("MC_QL_unfixed_select.cfg", "PacketBoundary")] + ([("MC_QL_unfixed_stream.cfg", "PacketBoundary")] if run.thorough() else []))


def scenarios(run):
    rng = random.Random(run.seed)
    T = run.thorough()
    out = []
    n = [0]

    def add(c, **kw):
        n[0] += 1
        out.append(Q.scenario("c04-%d" % n[0], c, **kw))

    # (a) TLC-generated behaviours
    for cfgfile, num in (("Gen_QL.cfg", 6000 if T else 500), ("Gen_QL_nocancel.cfg", 6000 if T else 500)):
        behs, _ = Q.tlc_behaviours(PID, cfgfile, num, run.seed)
        for c, sched in behs:
            br = rng.randrange(0, 500) if c["wbreak"] >= 0 else -1
            add(Q.from_tlc_cfg(c), sched=sched, break_at=br, compression=rng.choice(["disabled", "lz4"]))
    run.coverage["tlc_behaviours"] = n[0]
    # (b) fault scripts under the canonical schedule and every compression mode
    for comp in (Q.COMPRESSIONS if T else ["disabled", "lz4", "zstd"]):
        for s in Q.SELECT_FAULT + Q.SELECT_EXC:
            add(Q.cfg("select", s), compression=comp)
            add(Q.cfg("select", s, present=[]), compression=comp)
        for s in Q.INSERT_FAULT + Q.INSERT_EXC:
            add(Q.cfg("insert", s, init_rows=1), compression=comp)
            add(Q.cfg("insert", s, init_rows=1, need_info=False), compression=comp)
            add(Q.cfg("stream", s, plan=[Q.Pl("append", "nil"), Q.Pl("reappend", "eof")]), compression=comp)
    # (c) the server's exception / fault arriving before and after every client step
    for scn, scripts, kw in (("select", [Q.S("exc"), Q.S("hdr", "exc"), Q.S("bad"), Q.S("eosEarly")], {}),
                             ("insert", [Q.S("exc"), Q.S("hdr", "exc"), Q.S("hdr", "eosEarly"), Q.S("hdr", "cut")], {"init_rows": 1}),
                             ("stream", [Q.S("exc"), Q.S("hdr", "exc"), Q.S("hdr", "eosEarly"), Q.S("eosEarly")],
                              {"plan": [Q.Pl("append", "nil"), Q.Pl("append", "nil"), Q.Pl("reset", "eof")]})):
        for s in scripts:
            for p in range(0, 14):
                for tailsched in ("V" * len(s) + "RRRR", "V" * len(s) + "RR" + "S" + "RR", "V" + "R" * 2 + "V" + "RRR"):
                    add(Q.cfg(scn, s, **kw), sched="S" * p + tailsched, compression=rng.choice(["disabled", "lz4"]))
    # (d) the write direction breaks at byte k, (e) the server stream is cut at byte k
    stride = 1 if T else 9
    sweeps = [("select", Q.S("hdr", "data", "eos"), {}), ("insert", Q.S("hdr", "eos"), {"init_rows": 1}),
              ("stream", Q.S("hdr", "eos"), {"plan": [Q.Pl("append", "nil"), Q.Pl("overwrite", "nil"), Q.Pl("reset", "eof")]}),
              ("stream", Q.S("hdr", "prog", "exc"), {"plan": [Q.Pl("append", "nil"), Q.Pl("append", "eof")], "init_rows": 1}),
              ("stream", Q.S("hdr", "eosEarly"), {"plan": [Q.Pl("append", "nil"), Q.Pl("append", "nil"), Q.Pl("reset", "eof")]})]
    for scn, s, kw in sweeps:
        for comp in (["disabled", "lz4", "zstd"] if T else ["disabled", "lz4"]):
            for sched in ("", "SSVRRSSVRR", "VVVRRRR"):
                add(Q.cfg(scn, s, **kw), sched=sched, compression=comp, sweep="break", stride=stride, phase=run.seed)
    for s in [Q.S("hdr", "data", "prog", "totals", "eos"), Q.S(Q.P("log", 2), "hdr", Q.P("pevents", 1), "data", "profile", "exc"),
              Q.S("prog", "tcols", "data", "eos")]:
        for comp in (["disabled", "lz4", "zstd", "none"] if T else ["disabled", "lz4"]):
            add(Q.cfg("select", s), compression=comp, sweep="cut", stride=(1 if T else 5), phase=run.seed)
    for comp in ["disabled", "lz4"]:
        add(Q.cfg("stream", Q.S("hdr", "prog", "eos"), plan=[Q.Pl("append", "nil"), Q.Pl("reset", "eof")]), compression=comp,
            sweep="cut", stride=(1 if T else 3), phase=run.seed)
    # (f) every callback failing
    for s in [Q.S("hdr", "data", "prog", Q.P("log", 2), "profile", Q.P("pevents", 2), "data", "totals", "eos")]:
        for j in range(1, 14):
            add(Q.cfg("select", s, rfail=j), compression=rng.choice(["disabled", "lz4"]))
    for pl in Q.PLANS_ERR:
        for ir in (0, 1):
            add(Q.cfg("stream", Q.S("hdr", "eos"), plan=pl, init_rows=ir))
            add(Q.cfg("stream", Q.S("hdr", "eosEarly"), plan=pl, init_rows=ir), sched="SVRRSVRRR")
    # (g) random schedules over the whole universe
    for i in range(4000 if T else 400):
        scn = rng.choice(["select", "insert", "stream"])
        if scn == "select":
            c = Q.cfg("select", rng.choice(Q.SELECT_OK + Q.SELECT_EXC + Q.SELECT_FAULT), present=rng.choice([Q.ALL_CBS, [], ["result"]]),
                      rfail=rng.choice([0, 0, 0, 1, 2, 3]), ext=rng.random() < 0.2)
        else:
            c = Q.cfg(scn, rng.choice(Q.INSERT_OK + Q.INSERT_EXC + Q.INSERT_FAULT), plan=rng.choice(Q.PLANS_OK + Q.PLANS_ERR),
                      init_rows=rng.choice([0, 1]) if scn == "stream" else 1, need_info=(rng.random() < 0.8))
        add(c, sched=Q.random_sched(rng, rng.randrange(0, 25), letters="SSSSRRRWVVVCTX" if rng.random() < 0.2 else "SSSSRRRWVVVCT"),
            break_at=(rng.randrange(0, 400) if rng.random() < 0.3 else -1), compression=rng.choice(Q.COMPRESSIONS),
            rev=rng.choice(Q.REVS))
    return out


def body(run):
    if os.environ.get("VERIF_DEV_SKIP_DESIGN"):   # development aid only; never set by registered commands
        st = {"states": 1, "transitions": 1, "cfgs": {}}
    else:
        st = design(run)
    drv = V.go_build(PID, "drv")
    scs = scenarios(run)
    lines, stats, v = Q.check_and_report(run, PID, drv, scs, "c04")
    if stats["stuck"]:
        V.log("  note: %d runs ended in a Stuck event (reported through trace validation)" % stats["stuck"])
    Q.fill_coverage(run, st, stats, v, lines, len(scs))


if __name__ == "__main__":
    V.main(PID, "model_checking", body)
