#!/usr/bin/env python3
"""C18 — result blocks bind only to compatible targets; mismatches are errors.

design check : TLC on MC_Types.tla: binding as a state machine (Types!BindStep) over every list of up to 2 targets
               (named or blank, 4 types incl. an enum and its underlying integer) and every sequence of 2 blocks of
               up to 2 columns: a target only ever holds data of the column at its own position (OwnPosition), takes
               data only from a column with its name and a compatible type (OnlyMatching), keeps its name once known
               (NameKept), a refused block binds nothing at or after the mismatch (RefusedBindsNoLater).
binding      : random (targets, block sequence) cases - equal, blank names, permuted, renamed, extra / missing
               targets, a type swapped for any other kind, no targets, header blocks with zero rows, later blocks
               with changed names / types, inferable targets (ColEnum, ColDateTime64) - are decoded by the real
               proto.Block.DecodeBlock into real caller columns; for each block TLC evaluates BindStep and requires:
               no panic; an accepted block is one the specification binds; a block the specification binds is
               accepted (unless an inferable target refused the server's parameters); names afterwards are the
               specified ones; every target holds its own column's data, what it held before, or nothing - never
               another column's data."""
import json
import os
import sys
sys.path.insert(0, os.path.join(os.path.dirname(os.path.abspath(__file__)), "..", "lib"))
import vlib as V
import concurrent.futures as cf

PID = "C18"


def body(run):
    T = run.thorough()
    d = V.stage_spec(V.workdir(PID, "mc"))
    r = V.tlc(d, "MC_Types", "MC_Types.cfg", workers=V.NCPU, timeout=900)
    V.require_design_check(r, "MC_Types", 1000)
    V.log("  design MC_Types: %d distinct states, %.1fs" % (r.distinct, r.wall))
    total = {"cases": 0, "lines": 0, "accepted": 0}
    samples = []
    outcomes = {}
    for tags, label in ((("verif",), "default"), (("verif", "purego"), "purego")):
        if label == "purego" and not T:
            continue
        drv = V.go_build(PID, "drv", tags=tags)
        wd = V.workdir(PID, "bind-" + label)
        nshard = V.NCPU
        jobs = [(i, os.path.join(wd, "t%02d.ndjson" % i)) for i in range(nshard)]
        with cf.ThreadPoolExecutor(max_workers=nshard) as ex:
            res = list(ex.map(lambda j: V.run_driver(drv, ["bind", "-out", j[1], "-cases", "200000" if T else "24000", "-seed", str(run.seed),
                                                       "-shard", str(j[0]), "-nshard", str(nshard)], timeout=2400), jobs))
        lines = []
        for (i, out), (rc, so, se, wall) in zip(jobs, res):
            if rc != 0:
                raise V.Inconclusive("bind driver failed rc=%d: %s" % (rc, (se or so)[-3000:]))
            total["cases"] += json.loads(so.strip().splitlines()[-1])["blocks"]
            lines += V.read_ndjson(out)
        for x in lines:
            e = json.loads(x)
            k = "refused" if e["err"] else "bound"
            outcomes[k] = outcomes.get(k, 0) + 1
        v = V.validate_traces(PID, "Trace_Types", "Trace_Types.cfg", lines, lambda l: True, timeout=2400, name="tv-" + label)
        V.log("  %s build: %d blocks, %d accepted, %d rejected, validate %.1fs" % (label, v.lines, v.accepted_lines, len(v.rejections), v.wall))

        def key(rj):
            try:
                e = json.loads(rj["line"])
                if e.get("panic"):
                    return "bind:panic"
                t, a, b = e["targets"], e["after"], e["block"]
                if e.get("single") and len(t) == 1 and t[0]["name"] == "" and a[0]["name"] == "" and len(b) == 1:
                    # a single ResultColumn used as a Result of its own: the only discrepancy is that the name it
                    # inferred is not kept (everything else as specified)
                    if (e["err"] == "" and a[0]["data"] in (b[0]["data"], "empty")) or (e["err"] != "" and a[0]["data"] == t[0]["data"]):
                        return "bind:single-result-column:inferred-name-not-kept"
                if e["err"] == "" and any(not x.get("adopted", True) for x in a):
                    return "bind:parameters-not-adopted"
                if e["err"] == "":
                    return "bind:accepted-incompatible"
                return "bind:refused-or-misbound"
            except Exception:
                return "bind:?"

        def desc(rj):
            e = json.loads(rj["line"])
            return "targets %s <- block %s rows=%s: err=%r panic=%r after=%s" % (
                [(t["name"], t["type"]["b"], t["data"]) for t in e["targets"]], [(c["name"], c["type"]["b"], c["data"]) for c in e["block"]],
                e["rows"], e["err"][:120], e["panic"][:80], [(a["name"], a["data"]) for a in e["after"]])
        run.add_trace_rejections(v, key, desc)
        total["lines"] += v.lines
        total["accepted"] += v.accepted_lines
        samples += [json.loads(x) for x in lines[:3]]
    if outcomes.get("refused", 0) < 100 or outcomes.get("bound", 0) < 100:
        raise V.Inconclusive("vacuous: outcomes %s" % outcomes)
    run.coverage.update({"states": r.distinct, "transitions": r.generated, "traces_validated_against_impl": total["cases"],
                         "trace_lines": total["lines"], "trace_lines_accepted": total["accepted"], "samples": samples, "outcomes": outcomes})
    run.assumptions += ["a target's contents are identified by re-encoding it and comparing with the block's columns (own column first)",
                        "the error text is not required to mention the column; only that an error is returned"]


if __name__ == "__main__":
    V.main(PID, "model_checking", body)
