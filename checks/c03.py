#!/usr/bin/env python3
"""C03 — results, telemetry and exceptions are delivered exactly once, in order.

design check : TLC on QueryLifecycle.tla (select universe): Delivered (the callback log is always a prefix of
               the callbacks the consumed packets call for, complete on success), NilOnlyAfterEos, ExcReturned.
binding      : the real client receives scripted server streams (random well-formed scripts up to length 30,
               every callback present/absent, a failing callback at every position, compression on/off,
               several revisions, model-generated and random schedules); the recording callbacks copy the bound
               result columns and identify the script item whose rows they hold; TLC validates every step against
               Trace_QL: callbacks of each receiver step, the error class, the whole exception chain and
               errors.Is for every code of it."""
import os
import random
import sys
sys.path.insert(0, os.path.join(os.path.dirname(os.path.abspath(__file__)), "..", "lib"))
import vlib as V
import ql as Q

PID = "C03"
KINDS = ["hdr", "data", "totals", "prog", "profile", "tcols", "log", "pevents", "end"]


def rand_script(rng, maxlen, insert=False):
    n = rng.randrange(0, maxlen + 1)
    s = []
    for _ in range(n):
        k = rng.choice(["prog", "profile", "tcols", "log", "pevents", "end"] if insert else KINDS)
        if k in ("log", "pevents"):
            s.append(Q.P(k, rng.randrange(1, 4)))
        elif k == "prog":
            # every shape of Progress packet: read-side counters, write-side only, elapsed time only, all zero
            s.append(Q.P(k, rng.choice([0, 0, 1, 2, 3])))
        else:
            s.append(Q.P(k))
    if insert and rng.random() < 0.8:
        for _ in range(rng.choice([1, 1, 1, 2, 3])):     # (a server may repeat the header block)
            s.insert(rng.randrange(0, len(s) + 1), Q.P("hdr"))
    s.append(Q.P(rng.choice(["eos", "eos", "exc"])))
    return s


def scenarios(run):
    rng = random.Random(run.seed)
    T = run.thorough()
    out = []

    def add(c, **kw):
        out.append(Q.scenario("c03-%d" % (len(out) + 1), c, **kw))

    behs, _ = Q.tlc_behaviours(PID, "Gen_QL_select.cfg", 4000 if T else 400, run.seed)
    for c, sched in behs:
        add(Q.from_tlc_cfg(c), sched=sched, compression=rng.choice(["disabled", "lz4"]))
    run.coverage["tlc_behaviours"] = len(out)
    maxlen = 30 if T else 12
    for i in range(6000 if T else 700):
        present = rng.choice([Q.ALL_CBS, Q.ALL_CBS, [], ["result"], rng.sample(Q.ALL_CBS, rng.randrange(0, 7))])
        if rng.random() < 0.75:
            c = Q.cfg("select", rand_script(rng, maxlen), present=present, ext=Q.rand_ext(rng, 0.1),
                      rfail=(rng.randrange(1, 12) if rng.random() < 0.25 else 0))
        else:
            c = Q.cfg(rng.choice(["insert", "stream"]), rand_script(rng, maxlen // 2, insert=True), present=present,
                      plan=rng.choice(Q.PLANS_OK), init_rows=1, need_info=rng.random() < 0.7,
                      rfail=(rng.randrange(1, 6) if rng.random() < 0.2 else 0))
        sched = "" if rng.random() < 0.4 else Q.random_sched(rng, rng.randrange(1, 40), letters="SSRRRRWVVVVT", p_cancel=0)
        add(c, sched=sched, compression=rng.choice(Q.COMPRESSIONS), rev=rng.choice(Q.REVS))
    # a failing callback at every position of a script that calls every callback
    long = Q.S("hdr", "data", "prog", Q.P("log", 3), "profile", Q.P("pevents", 2), "data", "totals", "tcols", "prog", "eos")
    for j in range(1, 18):
        for present in (Q.ALL_CBS, ["result", "log", "pevent"], ["logs", "pevents", "progress"]):
            add(Q.cfg("select", long, present=present, rfail=j), compression=rng.choice(["disabled", "zstd"]))
    # no OnResult: one non-empty block is fine, a second one is an error
    for s in (Q.S("hdr", "data", "eos"), Q.S("hdr", "data", "data", "eos"), Q.S("data", "hdr", "eos"), Q.S("hdr", "hdr", "data", "eos"),
              Q.S("totals", "data", "eos")):
        add(Q.cfg("select", s, present=[]))
        add(Q.cfg("select", s, present=["progress"]), compression="lz4")
    # exception chains of every depth after every kind of prefix
    for pre in ([], ["hdr"], ["hdr", "data"], ["prog"], ["hdr", "prog", "data", "profile"]):
        for i in range(3):
            add(Q.cfg("select", Q.S(*(["prog"] * i + pre + ["exc"]))), compression=rng.choice(Q.COMPRESSIONS), rev=rng.choice(Q.REVS))
    return out


def body(run):
    st = Q.design(PID, ["MC_QL_qselect.cfg", "MC_QL_ends.cfg", "MC_QL_info.cfg"] + (["MC_QL_select.cfg", "MC_QL_insert.cfg"] if run.thorough() else []),
                  nonvac=[("MC_QL_info_neg_once.cfg", "Returns")])
    drv = V.go_build(PID, "drv")
    scs = scenarios(run)
    lines, stats, v = Q.check_and_report(run, PID, drv, scs, "c03")
    Q.fill_coverage(run, st, stats, v, lines, len(scs))


if __name__ == "__main__":
    V.main(PID, "model_checking", body)
