#!/usr/bin/env python3
"""C12 — no data race inside the library under any permitted concurrent use.

What the specification contributes, and what it cannot: a data race is a property of Go's memory model (two
unsynchronised accesses to one location), below the granularity of the TLA+ actions; the models QueryLifecycle.tla
and Pool.tla define WHICH concurrent uses are permitted (their roles, environment actions and configuration
universe) and what such a run may end in.  The check therefore (1) model-checks that universe with the foreign
Close enabled, (2) executes it on the real client FREE-RUNNING - no gates, no hooks, real goroutines: sender,
receiver, cancel watcher, the scripted server with progress / profile events / logs while a streamed insert is sent,
OpenTelemetry instrumentation on and off, a foreign goroutine calling Close, the caller cancelling, a Ping after the
query; and a pool shared by 6-8 goroutines with the health checker running every 0.3-0.5 ms and connections ageing
out after 1-3 ms, closed while in use - in a binary built with the Go race detector, (3) has TLC decide for every
distinct observed outcome (error class, closed flag, callback log) whether QueryLifecycle.tla can reach it for that
configuration (Outcome_QL.tla: an unreachable outcome is a violation), and the pool runs against the observable
invariants of Pool.tla (NoPanic, AllClosedAfterClose).  A race report whose two accesses are both made by library
code is a violation; a report involving harness code makes the check inconclusive."""
import glob
import json
import os
import random
import sys
sys.path.insert(0, os.path.join(os.path.dirname(os.path.abspath(__file__)), "..", "lib"))
import vlib as V
import ql as Q
import racelog
import concurrent.futures as cf

PID = "C12"


def cases(run, rng):
    T = run.thorough()
    out = []

    def add(c, fc=False, ca=False, otel=False, **kw):
        s = Q.scenario("c12-%d" % (len(out) + 1), c, otel=otel, **kw)
        out.append({"scenario": s, "foreignClose": fc, "cancel": ca, "seed": run.seed * 1000 + len(out), "repeat": 12 if T else 4})
    comps = ["disabled", "lz4", "zstd"] if T else ["disabled", "lz4"]
    for otel in (False, True):
        for s in (Q.SELECT_OK if T else Q.SELECT_OK[:5] + Q.SELECT_OK[-1:]) + Q.SELECT_EXC[:2]:
            add(Q.cfg("select", s, ext=Q.rand_ext(rng, 0.5)), otel=otel, compression=rng.choice(comps))
        # (an insert whose server never sends the header block only ends by cancellation: not a free-running scenario)
        # (a server that repeats the header block while the sender is still working with the first one)
        ins = [s for s in Q.INSERT_OK if any(i["k"] == "hdr" for i in s)]
        ins = ins[-2:] + ins[:-2]
        for s in (ins if T else ins[:6]):
            add(Q.cfg("insert", s, init_rows=1, ext=Q.rand_ext(rng, 0.5)), otel=otel, compression=rng.choice(comps))
            for pl in (Q.PLANS_OK if T else Q.PLANS_OK[:5]):
                add(Q.cfg("stream", s, plan=pl, init_rows=rng.choice([0, 1]), ext=Q.rand_ext(rng, 0.3)), otel=otel, compression=rng.choice(comps))
        # the environment acts while the query runs
        for s in Q.SELECT_OK[2:5]:
            add(Q.cfg("select", s), fc=True, otel=otel)
            add(Q.cfg("select", s), ca=True, otel=otel)
        for s in ins[0:2]:
            for pl in Q.PLANS_OK[2:5]:
                add(Q.cfg("stream", s, plan=pl, init_rows=1), fc=True, otel=otel, compression=rng.choice(comps))
                add(Q.cfg("stream", s, plan=pl, init_rows=1), ca=True, otel=otel)
    pools = []
    for i in range(12 if T else 4):
        pools.append({"pool": {"id": "c12-pool-%d" % i, "users": 6 + i % 3, "iters": 60, "max": 2 + i % 3, "minc": i % 2, "lifeMs": 1 + i % 3, "idleMs": 1 + i % 2,
                               "healthUs": 300 + 100 * (i % 3), "closeEarly": i % 2 == 1, "otel": i % 4 < 2, "seed": run.seed * 100 + i}, "repeat": 6 if T else 3})
    return out, pools


def body(run):
    T = run.thorough()
    rng = random.Random(run.seed)
    st = Q.design(PID, ["MC_QL_foreign.cfg", "MC_QL_info.cfg"] + (["MC_QL_cancel.cfg"] if T else []),
                  nonvac=[("MC_QL_info_neg_copy.cfg", "NoInfoRace")])
    drv = V.go_build(PID, "drv", tags=("verif",), race=True)
    qcases, pcases = cases(run, rng)
    wd = V.workdir(PID, "free")
    nproc = 8
    jobs = []
    allc = qcases + pcases
    for i in range(nproc):
        part = allc[i::nproc]
        if not part:
            continue
        fin = os.path.join(wd, "in%02d.ndjson" % i)
        with open(fin, "w") as f:
            f.write("\n".join(json.dumps(c) for c in part) + "\n")
        jobs.append((fin, os.path.join(wd, "out%02d.ndjson" % i), os.path.join(wd, "race%02d" % i)))

    def one(j):
        return V.run_driver(drv, ["free", "-in", j[0], "-out", j[1], "-par", "4"], timeout=3000,
                            env={"GORACE": "halt_on_error=0 history_size=3 log_path=%s" % j[2]})
    with cf.ThreadPoolExecutor(max_workers=len(jobs)) as ex:
        res = list(ex.map(one, jobs))
    lines = []
    for j, (rc, so, se, wall) in zip(jobs, res):
        if rc not in (0, 66):   # 66: the race detector's exit code when it reported something
            raise V.Inconclusive("free driver failed rc=%d: %s" % (rc, (se or so)[-3000:]))
        lines += V.read_ndjson(j[1])
    # (a) race reports
    reps = racelog.parse(glob.glob(os.path.join(wd, "race*")))
    lib, harness = {}, {}
    for rp in reps:
        kind, key = racelog.classify(rp)
        (lib if kind == "library" else harness).setdefault(key, rp)
    V.log("  %d free-running runs under the race detector; %d race reports (%d distinct library pairs, %d involving harness code)" % (
        len(lines), len(reps), len(lib), len(harness)))
    if harness:
        k, rp = sorted(harness.items())[0]
        raise V.Inconclusive("a race report involves harness code (%s): not a verdict on the library\n%s" % (k, rp["text"][:3000]))
    for key, rp in sorted(lib.items()):
        art = rp
        fa = racelog.lib_frame(rp["a"]["frames"])
        fb = racelog.lib_frame(rp["b"]["frames"])
        run.violation(key, "data race inside the library: %s at %s (%s)  vs  %s at %s (%s)" % (
            rp["a"]["head"], fa[1] if fa else "?", fa[0] if fa else "?", rp["b"]["head"], fb[1] if fb else "?", fb[0] if fb else "?"), art)
    # (b) outcomes must be reachable in the model
    outs = [json.loads(x) for x in lines if '"ev":"Outcome"' in x]
    pls = [x for x in lines if '"ev":"PoolFree"' in x]
    distinct = {}
    for e in outs:
        k = json.dumps([e["cfg"], e["err"], e["closed"], e["cbs"], e["foreignCloseAsked"], e["cancelAsked"]], sort_keys=True)
        distinct.setdefault(k, e)
    d = V.stage_spec(V.workdir(PID, "outcome"))

    def reach(item):
        i, e = item
        if e["stuck"]:
            return e, "stuck"
        tf = os.path.join(d, "o%05d.ndjson" % i)
        with open(tf, "w") as f:
            f.write(json.dumps(e) + "\n")
        cfgf = "Outcome_QL_c%s_f%s.cfg" % ("TRUE" if e["cancelAsked"] or e["cfg"]["rcancel"] or any(p["op"] == "cancel" for p in e["cfg"]["plan"]) else "FALSE",
                                           "TRUE" if e["foreignCloseAsked"] else "FALSE")
        r = V.tlc(d, "Outcome_QL", cfgf, workers=1, timeout=900, env={"TRACE": tf})
        if r.violated_invariant == "NotObserved":
            return e, "reachable"
        if r.completed:
            return e, "unreachable"
        return e, "tlc: " + r.summary()
    with cf.ThreadPoolExecutor(max_workers=V.NCPU) as ex:
        verdicts = list(ex.map(reach, enumerate(distinct.values())))
    nreach = 0
    for e, vd in verdicts:
        if vd == "reachable":
            nreach += 1
            continue
        if vd.startswith("tlc"):
            raise V.Inconclusive("outcome reachability search failed: %s" % vd)
        key = "free:%s:%s:%s" % (e["cfg"]["scn"], e["err"], "closed" if e["closed"] else "open")
        art = e
        run.violation(key, "free-running run %s (script %s, foreignClose=%s, cancel=%s) ended in err=%s closed=%s callbacks=%s%s - QueryLifecycle.tla cannot reach that outcome" % (
            e["id"], [i["k"] for i in e["cfg"]["script"]], e["foreignCloseAsked"], e["cancelAsked"], e["err"], e["closed"], [c["cb"] for c in e["cbs"]],
            " (stuck: %s)" % e["stuck"] if e["stuck"] else ""), art)
    V.log("  %d query runs, %d distinct (configuration, outcome) pairs, %d reachable in QueryLifecycle.tla" % (len(outs), len(distinct), nreach))
    v = V.validate_traces(PID, "Trace_PoolFree", "Trace_PoolFree.cfg", pls, lambda l: True, timeout=600, name="tv-pool", nshards=1)
    run.add_trace_rejections(v, lambda rj: "poolfree", lambda rj: "free-running pool run violates NoPanic / AllClosedAfterClose / no failed operation: %s" % (rj["line"] or "")[:300])
    if len(outs) < 50 or not pls:
        raise V.Inconclusive("vacuous: %d query runs, %d pool runs" % (len(outs), len(pls)))
    oc = {}
    for e in outs:
        k = "%s/%s" % (e["err"], "closed" if e["closed"] else "open")
        oc[k] = oc.get(k, 0) + 1
    run.coverage.update({"states": st["states"], "transitions": st["transitions"], "evaluations": len(lines), "distinct_nontrivial": len(distinct) + len(pls),
                         "rule": "one evaluation = one free-running run (a query with its server and environment goroutines, or a shared-pool run of 6-8 users) under the race detector; distinct = distinct (configuration, outcome) pairs plus pool runs",
                         "traces_validated_against_impl": len(distinct) + len(pls), "race_reports": len(reps), "outcomes": oc,
                         "pool_ops": sum(json.loads(x)["ops"] for x in pls), "samples": [outs[0], json.loads(pls[0])]})
    run.assumptions += ["the Go race detector reports races of the executions it observes (happens-before based: it does not depend on the exact timing, but an access pair that never executes is not seen)",
                        "the schedules are those the Go scheduler produces with jitter from the harness; they are not enumerated",
                        "the scripted servers and in-memory connections are harness code; reports involving them are not counted against the library"]


if __name__ == "__main__":
    V.main(PID, "exploration", body)
