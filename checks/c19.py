#!/usr/bin/env python3
"""C19 — type inference is total and sound; type compatibility is symmetric.

design check : TLC evaluates, over a universe of ~150 type ASTs (every base family, parameterisations, wrappers to
               depth 2), the ASSUMEs of MC_Types.tla on Types!Compatible: reflexive, symmetric, enum ~ underlying
               integer (and not the other width), Decimal(P, S) ~ DecimalN by precision class, element-wise for
               Array / Nullable / LowCardinality, time parameters ignored, FixedString sizes significant, different
               bases conflict.
binding      : (1) ColumnType.Conflicts is asked in both orders for ordered pairs of ~330 types (all pairs in the
               thorough tier; the diagonal and a 60 000-pair sample in the quick tier), rendered with and without a
               space after commas: TLC requires the answer to be exactly the complement of Types!Compatible on the
               ASTs, in both orders; (2) ColAuto.Infer on every type of the universe in both renderings: no panic,
               an error or a column whose type does not conflict, which decodes a block of that type (produced by
               the typed column) and re-encodes it identically; (3) malformed type strings - every sequence of up
               to 4 (quick) / 5 (thorough) tokens over bases, parentheses, commas, numbers, quotes, plus deep
               nesting and byte noise: Infer returns (no panic, no hang)."""
import json
import os
import sys
sys.path.insert(0, os.path.join(os.path.dirname(os.path.abspath(__file__)), "..", "lib"))
import vlib as V
import concurrent.futures as cf

PID = "C19"


def body(run):
    T = run.thorough()
    d = V.stage_spec(V.workdir(PID, "mc"))
    r = V.tlc(d, "MC_Types", "MC_Types.cfg", workers=V.NCPU, timeout=900)
    V.require_design_check(r, "MC_Types", 1000)
    V.log("  design MC_Types (relation lemmas as ASSUMEs): ok, %.1fs" % r.wall)
    total = {"n": 0, "lines": 0, "accepted": 0}
    kinds = {}
    samples = []
    for tags, label in ((("verif",), "default"), (("verif", "purego"), "purego")):
        if label == "purego" and not T:
            continue
        drv = V.go_build(PID, "drv", tags=tags)
        wd = V.workdir(PID, "types-" + label)
        nshard = V.NCPU
        jobs = [(i, os.path.join(wd, "t%02d.ndjson" % i)) for i in range(nshard)]
        with cf.ThreadPoolExecutor(max_workers=nshard) as ex:
            res = list(ex.map(lambda j: V.run_driver(drv, ["types", "-out", j[1], "-pairs", "0" if T else "60000", "-toklen", "5" if T else "4",
                                                       "-seed", str(run.seed), "-shard", str(j[0]), "-nshard", str(nshard)], timeout=3000), jobs))
        lines = []
        for (i, out), (rc, so, se, wall) in zip(jobs, res):
            if rc != 0:
                raise V.Inconclusive("types driver failed rc=%d: %s" % (rc, (se or so)[-3000:]))
            total["n"] += json.loads(so.strip().splitlines()[-1])["blocks"]
            lines += V.read_ndjson(out)
        for x in lines:
            e = json.loads(x)
            kk = e["ev"]
            if kk == "Pair":
                kk = "Pair:" + ("conflict" if e["cab"] else "compatible")
            elif kk == "Infer":
                kk = "Infer:" + ("error" if e["err"] else "decode-" + e["decode"])
            kinds[kk] = kinds.get(kk, 0) + 1
        v = V.validate_traces(PID, "Trace_Types", "Trace_Types.cfg", lines, lambda l: True, timeout=3000, name="tv-" + label)
        V.log("  %s build: %d lines, %d accepted, %d rejected, validate %.1fs" % (label, v.lines, v.accepted_lines, len(v.rejections), v.wall))

        def key(rj):
            try:
                e = json.loads(rj["line"])
                if e["ev"] == "Pair":
                    fam = sorted({e["a"]["b"], e["b"]["b"]})
                    return "pair:%s" % "~".join(fam)
                if e["ev"] == "Infer":
                    return "infer:%s:%s" % (e["t"]["b"], "panic" if e["panic"] else ("type" if not e["typeOK"] else "decode"))
                return "infer-total"
            except Exception:
                return "types:?"

        def desc(rj):
            e = json.loads(rj["line"])
            if e["ev"] == "Pair":
                return "Conflicts(%r, %r) = %s, Conflicts(%r, %r) = %s - the specification says the opposite / not symmetric" % (
                    e["as"], e["bs"], e["cab"], e["bs"], e["as"], e["cba"])
            if e["ev"] == "Infer":
                return "Infer(%r): err=%r typeOK=%s decode=%s panic=%r" % (e["s"], e["err"][:100], e["typeOK"], e["decode"], e["panic"][:100])
            return "Infer panicked / hung on malformed type strings: %s" % (e["panics"][:5],)
        run.add_trace_rejections(v, key, desc)
        total["lines"] += v.lines
        total["accepted"] += v.accepted_lines
        samples += [json.loads(x) for x in lines[:2]]
    if kinds.get("Pair:compatible", 0) < 300 or kinds.get("Pair:conflict", 0) < 300 or kinds.get("Infer:decode-ok", 0) < 50:
        raise V.Inconclusive("vacuous: %s" % kinds)
    run.coverage.update({"states": r.distinct, "transitions": r.generated, "traces_validated_against_impl": total["n"],
                         "trace_lines": total["lines"], "trace_lines_accepted": total["accepted"], "samples": samples, "line_kinds": kinds})
    run.assumptions += ["types reach the specification as ASTs built by the harness, which also renders them to text; the text parser of the library is the subject",
                        "malformed strings: totality only (an error or a column, no panic, return within 5 s)"]


if __name__ == "__main__":
    V.main(PID, "model_checking", body)
