#!/usr/bin/env python3
"""C05 — compressed frames round-trip and any corrupted frame is rejected.

design check : TLC on Frames.tla: every stream of up to 3 frames (payload 0..2) with any alteration class
               (checksum / method / payload / dataSize within or beyond the limit / rawSize / stream cut) under all
               sequences of up to 7 reads of size 1..2: OnlyVerified, Ordered, RoundTrip. With KeepBuffer = TRUE
               (the pinned reader) OnlyVerified fails - non-vacuity.
binding      : concrete streams are built with compress.Writer and with an independent frame builder (third-party
               lz4 / zstd / CityHash + the documented header), for every payload length up to the bound, every
               method, LZ4HC levels, compressible / incompressible / zero payloads, up to 3 frames; one byte is
               altered at every offset (several masks) or the stream is cut at every offset; reads of many sizes go
               on after errors; through compress.Reader and through proto.Reader with compression enabled. Every
               recorded Read (bytes returned, where in the payloads they occur, error class, both checksums
               present) is validated by TLC against Trace_Frames; the header of every frame produced by
               compress.Writer is validated against the documented layout."""
import json
import os
import random
import sys
sys.path.insert(0, os.path.join(os.path.dirname(os.path.abspath(__file__)), "..", "lib"))
import vlib as V

PID = "C05"
METHODS = ["none", "lz4", "lz4hc", "zstd"]


def fr(method, ln, kind="rand", builder="writer", level=0):
    return {"method": method, "len": ln, "kind": kind, "builder": builder, "level": level}


def cases(run):
    rng = random.Random(run.seed)
    T = run.thorough()
    out = []

    def add(frames, reads, nread, via="reader", alter=None, cut=-1, sweep="", stride=1):
        c = {"id": "c05-%d" % (len(out) + 1), "frames": frames, "cutAt": cut, "reads": reads, "nread": nread, "via": via}
        if alter:
            c["alter"] = alter
        if sweep:
            c.update({"sweep": sweep, "stride": stride, "phase": run.seed})
        out.append(c)

    # round trip: every payload length, every method, both builders, several read sizes
    maxlen = 4096 if T else 600
    step = 1 if T else 7
    for ln in list(range(0, 64)) + list(range(64 + run.seed % step, maxlen + 1, step)) + [127, 128, 129, 255, 256, 257, 4095, 4096, 4097]:
        m = METHODS[ln % 4] if not T else None
        for method in ([m] if m else METHODS):
            kind = ["rand", "text", "zero"][(ln // 4) % 3]
            rs = rng.choice([[1], [3], [7, 1, 64], [100], [4096], [ln + 1], [max(1, ln)]])
            n = (ln // min(rs)) + 4 if min(rs) > 0 else 8
            add([fr(method, ln, kind, rng.choice(["writer", "indep"]))], rs, min(n, 700), via=rng.choice(["reader", "proto"]))
    for lvl in range(1, 13):
        add([fr("lz4hc", 300 + lvl, "text", "writer", lvl), fr("lz4hc", 50, "rand", "writer", lvl)], [64], 10)
    # frame sequences with read sizes that straddle frame ends
    for i in range(400 if T else 60):
        frames = [fr(rng.choice(METHODS), rng.choice([0, 1, 2, 5, 17, 33, 64, 200]), rng.choice(["rand", "text"]),
                     rng.choice(["writer", "indep"])) for _ in range(rng.randrange(1, 5))]
        add(frames, [rng.randrange(1, 40) for _ in range(3)], 40, via=rng.choice(["reader", "proto"]))
    # every single-byte alteration at every offset of every frame, reads continuing after the error
    masks = [0x01, 0x80, 0xFF, 0x10] if T else [0x01, 0x80]
    shapes = [[fr("lz4", 20, "rand"), fr("none", 7, "text", "indep"), fr("zstd", 12, "rand")],
              [fr("none", 9, "rand"), fr("lz4hc", 30, "text"), fr("lz4", 3, "rand", "indep")],
              [fr("zstd", 40, "text"), fr("lz4", 0, "rand"), fr("none", 5, "rand")]]
    if T:
        shapes += [[fr("lz4", 256, "text"), fr("zstd", 100, "rand", "indep")], [fr("none", 64, "rand"), fr("none", 64, "text")]]
    for sh in shapes:
        for fi in range(1, len(sh) + 1):
            for mask in masks:
                for via in ("reader", "proto"):
                    add(sh, [rng.choice([1, 4, 16])], 30, via=via, alter={"frame": fi, "off": 0, "mask": mask}, sweep="alter",
                        stride=(1 if T else 2))
    # size fields beyond the limits (rejected before allocating): set the top byte of dataSize / rawSize
    for sh in shapes[:2]:
        for off in (20, 24, 19, 23):
            add(sh, [8], 12, alter={"frame": 1, "off": off, "mask": 0x7F})
            add(sh, [8], 12, alter={"frame": 2, "off": off, "mask": 0x40})
    # forged frames: dataSize changed and the checksum recomputed (it verifies; the size cannot match)
    for sh in shapes:
        for fi in range(1, len(sh) + 1):
            for off, mask in ((21, 0x01), (21, 0x02), (21, 0x40), (22, 0x01), (23, 0x01)):
                add(sh, [rng.choice([1, 4, 64])], 30, via=rng.choice(["reader", "proto"]),
                    alter={"frame": fi, "off": off, "mask": mask, "refix": True})
    # the stream cut at every offset
    for sh in shapes:
        for via in ("reader", "proto"):
            add(sh, [rng.choice([1, 5, 64])], 24, via=via, sweep="cut", stride=(1 if T else 2))
    # large payloads
    for ln in ([65536, 1 << 20, 3 << 20] if T else [65536, 300000]):
        for method in METHODS:
            add([fr(method, ln, "rand", "writer"), fr(method, 1000, "rand", "indep")], [65536, 4096, 64], 3 + ln // 1300 + 4)
    for method in METHODS:
        add([fr(method, 8192, "zero", "writer")], [1024], 12)
        add([fr(method, 60000, "text", "writer")], [4096], 20)
    return out


def body(run):
    d = V.stage_spec(V.workdir(PID, "mc"))
    r = V.tlc(d, "MC_Frames", "MC_Frames.cfg", workers=V.NCPU, timeout=1200)
    V.require_design_check(r, "MC_Frames", 1000)
    V.log("  design MC_Frames: %d distinct / %d generated states, %.1fs" % (r.distinct, r.generated, r.wall))
    r2 = V.tlc(d, "MC_Frames", "MC_Frames_keep.cfg", workers=8, timeout=600)
    if r2.violated_invariant != "OnlyVerified":
        raise V.Inconclusive("the model of the pinned reader (KeepBuffer) does not violate OnlyVerified: " + r2.summary())
    drv = V.go_build(PID, "drv")
    cs = cases(run)
    wd = V.workdir(PID, "frames")
    nproc = V.NCPU
    jobs = []
    for i in range(nproc):
        part = cs[i::nproc]
        if not part:
            continue
        fin, fout = os.path.join(wd, "c%02d.ndjson" % i), os.path.join(wd, "t%02d.ndjson" % i)
        with open(fin, "w") as f:
            for c in part:
                f.write(json.dumps(c) + "\n")
        jobs.append((fin, fout))
    import concurrent.futures as cf
    with cf.ThreadPoolExecutor(max_workers=len(jobs)) as ex:
        res = list(ex.map(lambda j: V.run_driver(drv, ["frames", "-in", j[0], "-out", j[1]], timeout=2400), jobs))
    lines, ncases = [], 0
    for (fin, fout), (rc, out, err, wall) in zip(jobs, res):
        if rc != 0:
            raise V.Inconclusive("frames driver failed rc=%d: %s" % (rc, (err or out)[-3000:]))
        ncases += json.loads(out.strip().splitlines()[-1])["cases"]
        lines += V.read_ndjson(fout)
    v = V.validate_traces(PID, "Trace_Frames", "Trace_Frames.cfg", lines, lambda l: '"ev":"Begin"' in l, timeout=2400)
    V.log("  %d cases, %d trace lines, %d accepted, %d rejected shards, validate %.1fs" % (ncases, v.lines, v.accepted_lines, len(v.rejections), v.wall))

    def key(rj):
        try:
            e = json.loads(rj["line"])
        except Exception:
            return "frames:?"
        if e.get("ev") == "Begin":
            return "frames:header"
        return "frames:Read:err=%s,%s" % (e.get("err"), "bytes" if e.get("k", 0) > 0 else "nobytes")

    def desc(rj):
        b = None
        try:
            sh = V.read_ndjson(rj["shard"])
            i = rj["line_no"] - 1
            while i >= 0 and '"ev":"Begin"' not in sh[i]:
                i -= 1
            b = json.loads(sh[i])
            rj["case_events"] = sh[i:rj["line_no"]]
        except Exception:
            pass
        return "case %s (alter=%s cut=%s via=%s): the specification rejects line %d (%s): %s" % (
            b.get("id") if b else "?", b.get("alter") if b else "?", b.get("cut") if b else "?", b.get("via") if b else "?",
            rj["line_no"], rj["why"], (rj["line"] or "")[:300])
    run.add_trace_rejections(v, key, desc)
    sample = []
    for l in lines:
        if '"ev":"Begin"' in l and sample:
            break
        sample.append(json.loads(l))
    run.coverage.update({
        "states": r.distinct, "transitions": r.generated, "traces_validated_against_impl": ncases,
        "trace_lines": v.lines, "trace_lines_accepted": v.accepted_lines, "samples": [sample[:8]],
        "non_vacuity": {"MC_Frames_keep.cfg": r2.violated_invariant},
    })
    run.assumptions += [
        "CityHash128, LZ4 and ZSTD are not specified in TLA+: the harness computes them with go-faster/city, pierrec/lz4 and klauspost/compress called directly",
        "where handed-out bytes come from is recognised by the harness by searching the known payloads; the specification decides whether that place is the right one",
    ]


if __name__ == "__main__":
    V.main(PID, "model_checking", body)
