#!/usr/bin/env python3
"""C15 — the pure-Go build and the default build of the codecs behave identically.

Both builds are bound to the same deterministic specification (Wire.tla) on the same inputs, and in addition
their transcripts are compared line by line.

binding      : the 35 column codecs that exist in two variants (the generated fixed-width columns, Bool, UUID,
               Date*, DateTime*) are driven by the same seeded generator in a `-tags verif` and a `-tags verif,purego`
               binary: blocks encoded by every path (EncodeBlock into empty / pre-filled buffer, WriteBlock+Flush),
               decoded into fresh and into used-then-reset targets; DecodeColumn on arbitrary bytes - EVERY byte
               value for the 8-bit kinds and every 16-bit value for the 16-bit kinds. Each build's trace is validated
               by TLC against Trace_Wire; then the two traces must be equal line by line (bytes, values, whether an
               error was returned)."""
import json
import os
import sys
sys.path.insert(0, os.path.join(os.path.dirname(os.path.abspath(__file__)), "..", "lib"))
import vlib as V
import wire as W

PID = "C15"


def norm(line):
    e = json.loads(line)
    # error texts may differ between the builds; whether there is an error may not
    for k in ("err", "reusedErr", "encodeErr"):
        if k in e:
            e[k] = bool(e[k])
    for k in ("typed", "reused", "auto"):
        if isinstance(e.get(k), dict):
            for kk in ("err", "reencode"):
                if kk in e[k]:
                    e[k][kk] = bool(e[k][kk])
    return e


def body(run):
    T = run.thorough()
    traces = {}
    total = {"lines": 0, "accepted": 0}
    for tags, label in ((("verif",), "default"), (("verif", "purego"), "purego")):
        drv = V.go_build(PID, "drv", tags=tags)
        lines, blocks, wall = W.run_codec(PID, drv, "dual-" + label, ["-mode", "dual", "-per", "12" if T else "4", "-revs",
                                                                "54460,54454,51902" if T else "54460,51902", "-seed", str(run.seed)], nshard=8)
        v = W.validate(PID, lines, "tv-" + label)
        V.log("  %s build: %d blocks/decodes, %d lines accepted of %d, %d rejected, validate %.1fs" % (label, blocks, v.accepted_lines, v.lines, len(v.rejections), v.wall))
        run.add_trace_rejections(v, lambda r, l=label: W.rejection_key(r) + ":" + l, W.describe)
        traces[label] = lines
        total["lines"] += v.lines
        total["accepted"] += v.accepted_lines
    a, b = traces["default"], traces["purego"]
    diffs = 0
    if len(a) != len(b):
        run.violation("c15:diff:length", "the two builds produced transcripts of different length (%d vs %d lines)" % (len(a), len(b)), {})
    for i, (x, y) in enumerate(zip(a, b)):
        if x == y:
            continue
        ex, ey = norm(x), norm(y)
        if ex != ey:
            diffs += 1
            if diffs <= 5:
                name = ex.get("tname") or "|".join(c["tname"] for c in ex.get("cols", []))
                run.violation("c15:diff:%s:%s" % (ex.get("ev"), name), "line %d differs between the builds for %s" % (i + 1, name),
                              {"default": x[:3000], "purego": y[:3000]})
    V.log("  transcripts: %d lines compared, %d differ" % (min(len(a), len(b)), diffs))
    run.coverage.update({
        "programs": 2, "disagreements_checked": min(len(a), len(b)), "samples": W.sample_of(a, 2),
        "trace_lines": total["lines"], "trace_lines_accepted": total["accepted"], "codecs": 35,
        "explanation": "two builds, one reference specification; transcripts also diffed",
    })
    run.assumptions += ["only inputs accepted by both builds and decoding into an empty (fresh or reset) column are in scope, as the property states",
                        "error messages are not compared, only whether an error is returned"]


if __name__ == "__main__":
    V.main(PID, "translation_validation", body)
