#!/usr/bin/env python3
"""C07 — a truncated block or message is never accepted.

design check : TLC on Wire.tla: PrefixFree - for every type and value sequence of the universe no proper prefix of
               the encoding decodes as the same number of rows (the format is self-delimiting); the same lemma for
               protocol messages is part of C17's design check, and for compressed frames of C05's.
binding      : for every block produced for C01 (all kinds to depth 2 / 3, several revisions, default and purego
               builds) EVERY proper prefix is decoded by the library - into typed targets, through inference, and
               inside a compressed frame read through proto.Reader (LZ4 / ZSTD / None / LZ4HC in turn); the cuts the
               library accepted are listed in the trace and TLC requires each of them to be a prefix the format
               itself cannot distinguish (the specification accepts it too); at random cuts the specification's own
               verdict is evaluated as well. Protocol messages: every proper prefix of every message of C17's
               driver."""
import os
import sys
sys.path.insert(0, os.path.join(os.path.dirname(os.path.abspath(__file__)), "..", "lib"))
import json
import vlib as V
import wire as W

PID = "C07"


def body(run):
    T = run.thorough()
    st = W.design(PID, "MC_Wire_thorough.cfg" if T else "MC_Wire.cfg")
    total = {"blocks": 0, "lines": 0, "accepted": 0, "prefixes": 0}
    samples = []
    for tags, label in ((("verif",), "default"), (("verif", "purego"), "purego")):
        drv = V.go_build(PID, "drv", tags=tags)
        lines, blocks, wall = W.run_codec(PID, drv, "prefix-" + label, ["-mode", "blocks", "-prefix", "-depth", "3" if T else "2", "-per", "3" if T else "2",
                                                                  "-revs", "54460,54453,51902" if T else "54460,51902", "-seed", str(run.seed)])
        # boundary blocks (dictionaries around the LowCardinality key-width boundaries, strings around the varint boundaries)
        l2, b2, w2 = W.run_codec(PID, drv, "prefix-special-" + label, ["-mode", "special", "-prefix", "-revs", "54460", "-seed", str(run.seed)])
        lines += l2
        wall += w2
        plines = [l for l in lines if '"ev":"Prefix"' in l]
        for l in plines:
            e = json.loads(l)
            total["prefixes"] += 2 * e["cuts"] + e["framedCuts"]
        v = W.validate(PID, plines, "tv-" + label)
        V.log("  %s build: %d encodings, every prefix decoded 3 ways; %d lines accepted of %d, %d rejected, drive %.1fs validate %.1fs" % (
            label, len(plines), v.accepted_lines, v.lines, len(v.rejections), wall, v.wall))
        run.add_trace_rejections(v, lambda r, l=label: W.rejection_key(r) + ("" if l == "default" else ":purego"),
                                 lambda r: "a proper prefix was accepted: " + (r["line"] or "")[:300])
        total["blocks"] += len(plines)
        total["lines"] += v.lines
        total["accepted"] += v.accepted_lines
        if plines:
            s = json.loads(plines[0])
            s["bytes"] = s["bytes"][:60]
            samples.append(s)
    # protocol messages: every proper prefix of every encoded message must be refused (the messages of C17's driver, at the
    # representative revisions; TLC's Trace_Messages demands prefixAccepted = <<>> - only that part is this property's)
    import concurrent.futures as cf
    sys.path.insert(0, os.path.dirname(os.path.abspath(__file__)))
    import c17
    drv = V.go_build(PID, "drv")
    wd = V.workdir(PID, "msg")
    revs = ",".join(str(x) for x in c17.representatives())
    jobs = [(i, os.path.join(wd, "t%02d.ndjson" % i)) for i in range(V.NCPU)]
    with cf.ThreadPoolExecutor(max_workers=V.NCPU) as ex:
        res = list(ex.map(lambda j: V.run_driver(drv, ["messages", "-out", j[1], "-revs", revs, "-per", "3" if T else "2", "-seed", str(run.seed + 5),
                                                   "-shard", str(j[0]), "-nshard", str(V.NCPU)], timeout=2400), jobs))
    mlines = []
    for (i, out), (rc, so, se, wall) in zip(jobs, res):
        if rc != 0:
            raise V.Inconclusive("messages driver failed rc=%d: %s" % (rc, (se or so)[-3000:]))
        mlines += V.read_ndjson(out)
    vm = V.validate_traces(PID, "Trace_Messages", "Trace_Messages.cfg", mlines, lambda l: True, timeout=2400, name="tv-msg")
    V.log("  messages: %d, %d accepted, %d rejected, validate %.1fs" % (vm.lines, vm.accepted_lines, len(vm.rejections), vm.wall))
    # (a message rejected for another reason - its layout, a decode error - is C17's business, not a truncation accepted)
    vm.rejections = [r for r in vm.rejections if r.get("line") and json.loads(r["line"]).get("prefixAccepted")]
    run.add_trace_rejections(vm, lambda r: "msg:%s:prefix-accepted" % json.loads(r["line"])["kind"],
                             lambda r: "a proper prefix of a message was accepted: %s at revision %s, prefixes of length %s" % (
                                 json.loads(r["line"])["kind"], json.loads(r["line"]).get("rev"), json.loads(r["line"])["prefixAccepted"][:8]))
    total["messages"] = len(mlines)
    run.coverage.update({
        "messages": len(mlines),
        "evaluations": total["prefixes"], "distinct_nontrivial": total["prefixes"],
        "rule": "every proper prefix (cut position 0..len-1) of every encoded block, decoded typed, inferred and inside a compressed frame; all cuts are distinct inputs; an evaluation is non-trivial when the prefix is non-empty",
        "states": st["states"], "transitions": st["transitions"], "encodings": total["blocks"],
        "traces_validated_against_impl": total["blocks"], "samples": samples, "exhaustive": True,
    })
    run.assumptions += ["blocks larger than 20000 bytes are not cut at every position", "frames longer than 600 bytes are cut at 600 evenly spaced positions"]


if __name__ == "__main__":
    V.main(PID, "fault_enumeration", body)
