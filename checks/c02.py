#!/usr/bin/env python3
"""C02 — everything the client writes for a query is a well-formed packet sequence.

design check : the field tables of Messages.tla (MC_Messages: the encoding changes only at feature thresholds) and the
               block decoder of Wire.tla (MC_Wire) are the specification the client's byte stream is parsed with.
binding      : real sessions (Dial + Do) over an in-memory connection against a scripted server at every
               representative negotiated revision 50000..54500 (below 54429 with a Query reader of the harness own) and
               every compression mode, with query ids / bodies
               (empty, long, non-UTF-8), 0..n connection-level and query-level settings with flags, parameters,
               secret, quota key, initial user, external data (named and default table), plain and streamed inserts
               of several rounds, and up to three further queries on the same connection (fields set by an earlier query
               and left empty by a later one). TLC parses ALL bytes written during Do: exactly one Query packet equal byte for
               byte to EncMsg(Query fields) - connection-level settings before query-level ones -, the external-data
               block with its table name and an empty terminator block, then the input blocks in order and an empty
               terminator; every block one Data packet, inside exactly one checksummed frame of the configured method
               iff compression is on (frame header fields and checksum verified, payload decoded with Wire.tla), and
               nothing else."""
import json
import os
import random
import sys
sys.path.insert(0, os.path.join(os.path.dirname(os.path.abspath(__file__)), "..", "lib"))
import vlib as V
import session as S

PID = "C02"
COMPS = ["disabled", "none", "lz4", "lz4hc", "zstd"]


def rstr(rng):
    return rng.choice(["", "a", "SELECT 1", "x" * 200, "üñî", "tab\tnew\nline", "\x00\x01\x7f", "q" * 16384])


def kvs(rng, n):
    return [{"k": rng.choice(["max_threads", "s%d" % i, "send_logs_level", "k" * 130]), "v": rstr(rng)[:300], "i": rng.random() < 0.5} for i in range(n)]


def body(run):
    T = run.thorough()
    rng = random.Random(run.seed)
    d = V.stage_spec(V.workdir(PID, "mc"))
    r = V.tlc(d, "MC_Messages", "MC_Messages.cfg", workers=V.NCPU, timeout=1200)
    V.require_design_check(r, "MC_Messages", 1000)
    revs = S.representatives()
    # (a third of the sessions below 54429, where the Query packet has its older layout)
    revs = revs + [x for x in revs if x >= 54429]
    sessions = []
    for i in range(6000 if T else 500):
        srev = rng.choice(revs)
        crev = rng.choice([0, 0, 0] + revs)
        scn = rng.choice(["select", "select", "insert", "stream"])
        nrev = min(crev or 54460, srev)
        def more(j):
            return {"scn": rng.choice(["select", "select", "insert", "stream"]), "queryID": "qid-%d-%d" % (i, j), "body": rstr(rng) or "SELECT 2",
                    "secret": rstr(rng)[:40], "qQuotaKey": rng.choice(["", "", rstr(rng)[:40]]), "initialUser": rng.choice(["", "", rstr(rng)[:40]]),
                    "settings": kvs(rng, rng.randrange(0, 3)),
                    "params": ([{"k": "p%d" % k, "v": rstr(rng)[:60]} for k in range(rng.randrange(0, 3))] if nrev >= 54459 else []),
                    "ext": rng.random() < 0.3, "extTable": rng.choice(["", "ext1"]), "rounds": rng.randrange(1, 4), "seed": rng.randrange(1000)}
        sessions.append({
            "id": "c02-%d" % (i + 1), "crev": crev, "srev": srev, "behaviour": "hello", "quotaKey": rstr(rng)[:50],
            "scn": scn, "compression": COMPS[i % 5], "queryID": rng.choice(["", "qid-%d" % i, "id ü", "i" * 140]) or "qid-%d" % i,
            "body": rstr(rng) or "SELECT 1", "secret": rstr(rng)[:40], "qQuotaKey": rstr(rng)[:40], "initialUser": rstr(rng)[:40],
            "connSettings": kvs(rng, rng.randrange(0, 3)), "settings": kvs(rng, rng.randrange(0, 4)),
            "params": ([{"k": "p%d" % j, "v": rstr(rng)[:60]} for j in range(rng.randrange(0, 3))] if nrev >= 54459 else []),
            "ext": rng.random() < 0.3, "extTable": rng.choice(["", "ext1", "tü"]), "rounds": rng.randrange(1, 5), "seed": rng.randrange(1000),
            # half of the sessions run further queries on the same connection: nothing of an earlier query may show in a later one
            "more": [more(j) for j in range(rng.choice([0, 0, 1, 2, 3]))]})
        if i % 25 == 7:
            # a block whose compressed frame exceeds 16 KiB (incompressible rows), followed by the next block before the flush
            sessions[-1].update({"bigRows": 2200, "ext": i % 50 == 7, "rounds": rng.choice([1, 2]), "more": sessions[-1]["more"][:1]})
    drv = V.go_build(PID, "drv")
    lines = S.run_sessions(PID, drv, sessions, "sessions", nproc=8, par=8)
    slines = [l for l in lines if '"ev":"ClientStream"' in l]
    v = S.validate(PID, slines, "tv")
    V.log("  %d client streams (of %d sessions), %d accepted, %d rejected, validate %.1fs" % (len(slines), len(sessions), v.accepted_lines, len(v.rejections), v.wall))
    if len(slines) < len(sessions) * 0.9:
        raise V.Inconclusive("only %d of %d sessions produced a client stream" % (len(slines), len(sessions)))

    def key(rj):
        try:
            e = json.loads(rj["line"])
            if rj.get("reason") == "settings-dropped":
                # everything else about the stream is right (TLC checked that): only the caller's settings are not in it
                return "stream:rev<54429:settings-dropped"
            return "stream:rev%s:%s" % ("<54429" if e["rev"] < 54429 else "<54459" if e["rev"] < 54459 else ">=54459", "compressed" if e["compressed"] else "plain")
        except Exception:
            return "stream:?"

    def desc(rj):
        e = json.loads(rj["line"])
        if rj.get("reason") == "settings-dropped":
            sets = [x for x in e["fields"] if x["n"] == "settings"][0]["b"]
            return "session %s at revision %s: the caller's %d settings are not in the Query packet (the rest of the stream is as specified)" % (e["id"], e["rev"], len(sets))
        return "session %s at revision %s (compressed=%s, err=%s): the %d bytes written during Do are not the expected packet sequence of %d packets" % (
            e["id"], e["rev"], e["compressed"], e["err"], len(e["stream"]), len(e["packets"]))
    run.add_trace_rejections(v, key, desc)
    s0 = json.loads(slines[0])
    s0["stream"] = s0["stream"][:80]
    run.coverage.update({"states": r.distinct, "transitions": r.generated, "traces_validated_against_impl": len(slines),
                         "trace_lines": v.lines, "trace_lines_accepted": v.accepted_lines, "samples": [s0], "revisions": len(revs)})
    run.assumptions += [
        "below revision 54429 the scripted server reads the Query packet with a field-by-field reader of its own (the library's decoder refuses those revisions); a packet with typed binary settings could not be parsed by it",
        "the values the library chooses itself (client name and version, local address, start time) are read back from the packet and only have to make the byte equation hold",
        "CityHash / LZ4 / ZSTD are computed by the harness with third-party libraries; TLC checks the frame header and decodes the decompressed payload",
    ]


if __name__ == "__main__":
    V.main(PID, "model_checking", body)
