#!/usr/bin/env python3
"""C08 — decoding is independent of how the transport segments the byte stream.

design check : TLC on Segmentation.tla: for every stream of the bounded universe and EVERY segmentation (Deliver of
               any size, Read returning any non-empty part, read time-outs while waiting for a packet code) the
               invariants NoGarbage (only complete packets are interpreted, in order), Prompt (whenever the reader
               goes back to the connection everything complete has been applied) and Exact (every packet applied
               once, exactly the stream consumed), the action property TimeoutIsStutter and the liveness property
               Finishes hold; the variant whose reader takes a short Read for a whole item (ShortRead = TRUE)
               violates NoGarbage.
binding      : response streams of C03's packet universe (header / data / totals blocks, progress, profile, logs,
               profile events, table columns; ending in end-of-stream, an exception chain, a cut, a truncated or
               malformed packet; plain, LZ4, ZSTD and None-framed) are delivered to a real client running Do over an
               in-memory connection whose feeder hands over the next piece only when the reader waits with nothing
               to read: in one piece, one byte at a time, cut in two at every offset (all offsets up to 600 bytes;
               packet edges + stride beyond; thorough: all offsets up to 4000), all 2^(n-1) splits of streams up to
               11 bytes, random splits, and packet-wise with 1-2 injected read time-outs in every gap.  Every
               connection Read (start, bytes or error), every callback (with the script item it reports) and the
               result are validated by TLC as a behaviour of Segmentation.tla: a Read starts only when the reader
               lacks bytes, a time-out only at a packet boundary and without effect, callbacks are those of the
               one-piece reference run, in order, each only after its packet arrived completely, the result (error
               class, exception chain, closed flag) is that of the reference run and exactly the stream is consumed."""
import json
import os
import sys
sys.path.insert(0, os.path.join(os.path.dirname(os.path.abspath(__file__)), "..", "lib"))
import vlib as V
import concurrent.futures as cf

PID = "C08"


def body(run):
    T = run.thorough()
    d = V.stage_spec(V.workdir(PID, "mc"))
    r = V.tlc(d, "MC_Segmentation", "MC_Segmentation.cfg", workers=V.NCPU, timeout=900)
    V.require_design_check(r, "MC_Segmentation", 500)
    r2 = V.tlc(d, "MC_Segmentation", "MC_Segmentation_short.cfg", workers=8, timeout=600)
    if r2.violated_invariant != "NoGarbage":
        raise V.Inconclusive("the short-read variant does not violate NoGarbage: " + r2.summary())
    V.log("  design Segmentation: %d distinct states, invariants + liveness hold; ShortRead variant violates NoGarbage as intended" % r.distinct)
    total = {"runs": 0, "lines": 0, "accepted": 0}
    plans = {}
    samples = []
    for tags, label in ((("verif",), "default"), (("verif", "purego"), "purego")):
        if label == "purego" and not T:
            continue
        drv = V.go_build(PID, "drv", tags=tags)
        wd = V.workdir(PID, "seg-" + label)
        nshard = V.NCPU
        jobs = [(i, os.path.join(wd, "t%02d.ndjson" % i)) for i in range(nshard)]
        with cf.ThreadPoolExecutor(max_workers=nshard) as ex:
            res = list(ex.map(lambda j: V.run_driver(drv, ["segments", "-out", j[1], "-scripts", "90" if T else "40", "-alltwo", "4000" if T else "600",
                                                       "-rand", "25" if T else "6", "-seed", str(run.seed), "-shard", str(j[0]), "-nshard", str(nshard)],
                                                      timeout=3000), jobs))
        lines = []
        for (i, out), (rc, so, se, wall) in zip(jobs, res):
            if rc != 0:
                raise V.Inconclusive("segments driver failed rc=%d: %s" % (rc, (se or so)[-3000:]))
            total["runs"] += json.loads(so.strip().splitlines()[-1])["blocks"]
            lines += V.read_ndjson(out)
        for x in lines:
            if '"ev":"Begin"' in x:
                e = json.loads(x)
                k = e["plan"].rstrip("0123456789").rstrip("@")
                plans[k] = plans.get(k, 0) + 1
                if e["plan"].startswith("gaps"):
                    plans["timeouts-injected"] = plans.get("timeouts-injected", 0) + e["injected"]
        v = V.validate_traces(PID, "Trace_Segmentation", "Trace_Segmentation.cfg", lines, lambda l: '"ev":"Begin"' in l, timeout=3000, dfs=True,
                              name="tv-" + label, nshards=max(V.NCPU, len(lines) // 40000))
        V.log("  %s build: %d runs, %d lines, %d accepted, %d rejected shards, validate %.1fs" % (label, total["runs"], v.lines, v.accepted_lines, len(v.rejections), v.wall))

        def key(rj):
            try:
                sh = V.read_ndjson(rj["shard"])
                i = min(rj["line_no"], len(sh)) - 1
                j = i
                while j >= 0 and '"ev":"Begin"' not in sh[j]:
                    j -= 1
                b = json.loads(sh[j])
                rj["begin"] = b
                rj["run"] = sh[j:i + 1]
                e = json.loads(rj["line"]) if rj.get("line") else {}
                return "seg:%s:%s:%s" % (b["items"][-1], b["plan"].rstrip("0123456789").rstrip("@"), e.get("ev", "?") + (":" + e["err"] if e.get("ev") in ("re", "ret") else ""))
            except Exception:
                return "seg:?"

        def desc(rj):
            b = rj.get("begin", {})
            return "script %s (%s), segmentation %s: event %s is not a step of Segmentation.tla after %s" % (
                b.get("items"), b.get("case"), b.get("plan"), (rj.get("line") or "")[:200], [json.loads(x).get("ev") for x in rj.get("run", [])][-8:])
        run.add_trace_rejections(v, key, desc)
        total["lines"] += v.lines
        total["accepted"] += v.accepted_lines
        samples += [json.loads(x) for x in lines[:6]]
    # read time-outs between packets while the sender is busy: the gaps (and the time-outs that expire in them) must not
    # touch the other direction - a sender blocked in a write stays in it. Scheduled runs of the whole client, validated
    # against QueryLifecycle.tla (a time-out is a stuttering step there).
    import ql as Q
    drv1 = V.go_build(PID, "drv")
    scs = []
    for scn, kw in (("insert", {"init_rows": 1}), ("stream", {"plan": [Q.Pl("append", "nil"), Q.Pl("reset", "eof")], "init_rows": 1})):
        for pre in ("", "S", "SS", "SSVR"):
            for gaps in ("RTRTRT", "RTVRTRT", "TRTVVRRTRT"):
                scs.append(Q.scenario("c08q-%d" % (len(scs) + 1), Q.cfg(scn, Q.S("hdr", "prog", "eos"), **kw), sched=pre + "Z" + "S" * 6 + gaps + "SS" + "C",
                                      compression=["disabled", "lz4"][len(scs) % 2]))
    qlines, qstats, qv = Q.check_and_report(run, PID, drv1, scs, "c08q", keyprefix="gap:")
    total["lines"] += qv.lines
    total["accepted"] += qv.accepted_lines
    plans["gaps-while-sending"] = len(scs)
    if plans.get("two", 0) < 500 or plans.get("bytes", 0) < 20 or plans.get("timeouts-injected", 0) < 50 or plans.get("mask", 0) < 100:
        raise V.Inconclusive("vacuous: %s" % plans)
    run.coverage.update({"states": r.distinct, "transitions": r.generated, "traces_validated_against_impl": total["runs"],
                         "trace_lines": total["lines"], "trace_lines_accepted": total["accepted"], "samples": samples, "segmentations": plans,
                         "non_vacuity": "MC_Segmentation_short.cfg violates NoGarbage"})
    run.assumptions += ["the in-memory connection stands for TCP: a Read returns what has been delivered, the feeder delivers the next piece only when the reader waits",
                        "read time-outs are injected while the reader waits (the library arms the deadline only while it reads a packet code); real timers are not used",
                        "a query that fails inside a malformed / truncated packet need not have read that packet to its end; how far it read is not compared",
                        "the reference for the callbacks is the run with one-piece delivery (what the callbacks must be is C03's subject)"]


if __name__ == "__main__":
    V.main(PID, "model_checking", body)
