#!/usr/bin/env python3
"""C10 — cancellation ends the query promptly, sends Cancel and closes the connection.

design check : TLC on QueryLifecycle.tla over the fault-free universe with CallerCancel / deadline expiry enabled in
               every state: CancelReturnsCtx, CancelCloses, CancelPacketOnce, NoOrphans, and the liveness property
               Returns under fairness of the goroutines, of the read time-out and of the caller's cancel.
binding      : phase 1 runs every scenario un-cancelled and records the schedule it executed; phase 2 replays each
               prefix of that schedule followed by a cancellation (and by a deadline expiry) - i.e. cancellation at
               every gate: before/after each client write, before/after each server packet, while the receiver is
               parked in Read, inside callbacks (plan op "cancel", rcancel); the bytes the cancel-watch writes are
               tokenised (exactly one Cancel packet), Close calls, the error (errors.Is against the context's error)
               and left-over library goroutines are recorded; TLC validates against Trace_QL.  The wall-clock half
               ("within the read timeout plus a bounded grace period") is checked on free-running runs: the server
               falls silent, the caller cancels 0.3 / 3 / 12 ms into the query, with and without a deadline an hour
               away on its context; Do must return the context's error with the client closed within ReadTimeout (2 ms)
               + 4 s (Trace_Prompt.tla: the fairness assumption of the liveness proof, as an obligation of the code).
               Cancellation during the handshake (Handshake!CancelEndsIt): real Dial runs cancelled while the client
               waits for the server's hello and while its addendum write is blocked by a server that stopped reading
               must return the context's error with the connection closed within the read time-out + 300 ms."""
import json
import os
import random
import sys
sys.path.insert(0, os.path.join(os.path.dirname(os.path.abspath(__file__)), "..", "lib"))
import vlib as V
import ql as Q

PID = "C10"


def baselines(run, rng):
    T = run.thorough()
    out = []

    def add(c, **kw):
        out.append(Q.scenario("c10b-%d" % (len(out) + 1), c, **kw))
    comps = Q.COMPRESSIONS if T else ["disabled", "lz4"]
    for comp in comps:
        for s in (Q.SELECT_OK if T else Q.SELECT_OK[:6] + Q.SELECT_OK[-1:]):
            add(Q.cfg("select", s), compression=comp)
            add(Q.cfg("select", s), compression=comp, sched="SSVRVRVR")
        for s in (Q.INSERT_OK if T else Q.INSERT_OK[:4]):
            add(Q.cfg("insert", s, init_rows=1), compression=comp)
            add(Q.cfg("insert", s, init_rows=1, need_info=False), compression=comp, sched="VSVSRR")
            for pl in (Q.PLANS_OK if T else Q.PLANS_OK[:6]):
                add(Q.cfg("stream", s, plan=pl, init_rows=rng.choice([0, 1])), compression=comp,
                    sched=rng.choice(["", "SSVRRS", "RVRSSSS", "SSRVTR"]))
    return out


def body(run):
    rng = random.Random(run.seed)
    T = run.thorough()
    # (MC_QL_live_excstall.cfg: the model of the current code does not satisfy Returns once a server exception meets a
    #  blocked write - known finding F-29; the run is kept as the model-level reproduction of it)
    st = Q.design(PID, ["MC_QL_stall.cfg", "MC_QL_live.cfg", "MC_QL_half.cfg"] + (["MC_QL_select.cfg", "MC_QL_live_stall.cfg"] if T else []),
                  nonvac=[("MC_QL_live_excstall.cfg", "Returns"), ("MC_QL_live_half.cfg", "Returns")])
    drv = V.go_build(PID, "drv")
    base = baselines(run, rng)
    blines, bstats = Q.run_scenarios(PID, drv, base, name="c10-base")
    runs = Q.split_runs(blines)
    scs = []
    for r in runs:
        begin = json.loads(r[0])
        ex = Q.executed_sched(r[1:])
        # strip the drain's final give-up cancel, if any
        ex = ex.rstrip("C")
        c = dict(begin["cfg"])
        c.pop("wbreak", None)
        step = 1 if T or len(ex) < 14 else 2
        for p in range(0, len(ex) + 1, step):
            how = "C" if (p + len(scs)) % 3 else "D"
            scs.append(Q.scenario("c10-%d" % (len(scs) + 1), c, sched=ex[:p] + how, compression=begin["compression"], rev=begin["rev"]))
    gates = len(scs)
    # cancellation from inside callbacks
    long = Q.S("hdr", "data", "prog", Q.P("log", 2), "profile", "data", "eos")
    for j in range(1, 10):
        scs.append(Q.scenario("c10-%d" % (len(scs) + 1), Q.cfg("select", long, rcancel=j), compression=rng.choice(["disabled", "lz4"])))
    for pl in Q.PLANS_CANCEL:
        for ir in (0, 1):
            for comp in ("disabled", "lz4"):
                scs.append(Q.scenario("c10-%d" % (len(scs) + 1), Q.cfg("stream", Q.S("hdr", "eos"), plan=pl, init_rows=ir), compression=comp))
    # the peer stops reading (writes block) before a cancellation: the cancel-watch must still get the sender out
    for r in runs[:: (1 if T else 3)]:
        begin = json.loads(r[0])
        ex = Q.executed_sched(r[1:]).rstrip("C")
        c = dict(begin["cfg"])
        c.pop("wbreak", None)
        for p in range(0, min(len(ex), 12) + 1, 2):
            scs.append(Q.scenario("c10-%d" % (len(scs) + 1), c, sched=ex[:p] + "Z" + "SSSS" + "C", compression=begin["compression"], rev=begin["rev"]))
            scs.append(Q.scenario("c10-%d" % (len(scs) + 1), c, sched="Z" + ex[:p] + "C" + "SS", compression=begin["compression"], rev=begin["rev"]))
    # the server has answered with an exception while the sender is still blocked in a write (the server does not read the
    # rest of the INSERT); then the caller cancels: the call must still end
    for scn, kw in (("insert", {"init_rows": 1}), ("stream", {"plan": [Q.Pl("append", "nil"), Q.Pl("reset", "eof")], "init_rows": 1})):
        for s in ((Q.S("exc"),) if scn == "insert" else (Q.S("hdr", "exc"),)):
            for how in ("C", "D", "DT"):
                scs.append(Q.scenario("c10-%d" % (len(scs) + 1), Q.cfg(scn, s, **kw), sched="Z" + "S" * 8 + "V" * len(s) + "RRRR" + "WW" + how + "SSWW",
                                      compression=rng.choice(["disabled", "lz4"])))
    # the server falls silent inside a packet; then the caller cancels (or its deadline passes): the call must still end
    for scn, s, kw in (("select", Q.S("hdr", "half"), {}), ("select", Q.S("hdr", "data", "prog", "half"), {})):
        for how in ("C", "D"):
            scs.append(Q.scenario("c10-%d" % (len(scs) + 1), Q.cfg(scn, s, **kw), sched="SSSS" + "VV" + "RRR" + how + "WWSS",
                                  compression="disabled"))
    behs, _ = Q.tlc_behaviours(PID, "Gen_QL_stall.cfg", 3000 if T else 300, run.seed + 7)
    for c, sched in behs:
        scs.append(Q.scenario("c10-%d" % (len(scs) + 1), Q.from_tlc_cfg(c), sched=sched, compression=rng.choice(["disabled", "lz4"])))
    # model-generated behaviours with cancellation
    behs, _ = Q.tlc_behaviours(PID, "Gen_QL_cancel.cfg", 4000 if T else 500, run.seed)
    for c, sched in behs:
        scs.append(Q.scenario("c10-%d" % (len(scs) + 1), Q.from_tlc_cfg(c), sched=sched, compression=rng.choice(["disabled", "lz4"])))
    # random schedules with cancel / deadline
    for i in range(3000 if T else 300):
        scn = rng.choice(["select", "insert", "stream"])
        c = (Q.cfg("select", rng.choice(Q.SELECT_OK)) if scn == "select" else
             Q.cfg(scn, rng.choice(Q.INSERT_OK), plan=rng.choice(Q.PLANS_OK + Q.PLANS_CANCEL), init_rows=1 if scn == "insert" else rng.choice([0, 1])))
        scs.append(Q.scenario("c10-%d" % (len(scs) + 1), c, sched=Q.random_sched(rng, rng.randrange(1, 30), letters="SSSRRRWVVVCDT", p_cancel=1.0),
                              compression=rng.choice(Q.COMPRESSIONS), rev=rng.choice(Q.REVS)))
    lines, stats, v = Q.check_and_report(run, PID, drv, scs, "c10")
    Q.fill_coverage(run, st, stats, v, lines, len(scs))
    run.coverage["baseline_runs"] = len(runs)
    run.coverage["cancel_at_gate_scenarios"] = gates
    prompt(run, drv, rng)
    import session as S
    S.handshake_cancellation(run, PID, drv, rng, 20 if T else 6)


def prompt(run, drv, rng):
    """The wall-clock half of the property, on free-running runs: the server falls silent, the caller cancels (with and
    without a far-away deadline on its context), Do must return the context's error within ReadTimeout + grace."""
    T = run.thorough()
    cases = []
    quiet_select = [Q.S("hdr"), Q.S("hdr", "data"), Q.S("prog"), Q.S("hdr", "prog", "data", Q.P("log", 1))]
    quiet_insert = [Q.S("hdr"), Q.S("hdr", "prog")]          # the data is taken, no end of stream follows
    for far in (False, True):
        for at in (300, 3000, 12000):        # before, around and well after the first read time-out (2 ms)
            for s in quiet_select:
                cases.append((Q.cfg("select", s), far, at))
            for s in quiet_insert:
                cases.append((Q.cfg("insert", s, init_rows=1), far, at))
                cases.append((Q.cfg("stream", s, plan=Q.PLANS_OK[2], init_rows=1), far, at))
    items = []
    for i, (c, far, at) in enumerate(cases):
        items.append({"scenario": Q.scenario("c10p-%d" % (i + 1), c, compression=rng.choice(["disabled", "lz4"])), "foreignClose": False, "cancel": True,
                      "farDeadline": far, "cancelAtUs": at, "seed": run.seed * 1000 + i, "repeat": 6 if T else 2})
    wd = V.workdir(PID, "prompt")
    fin, fout = os.path.join(wd, "in.ndjson"), os.path.join(wd, "out.ndjson")
    with open(fin, "w") as f:
        f.write("\n".join(json.dumps(x) for x in items) + "\n")
    rc, so, se, wall = V.run_driver(drv, ["free", "-in", fin, "-out", fout, "-par", "4"], timeout=1800)
    if rc != 0:
        raise V.Inconclusive("free driver failed rc=%d: %s" % (rc, (se or so)[-2000:]))
    lines = V.read_ndjson(fout)
    v = V.validate_traces(PID, "Trace_Prompt", "Trace_Prompt.cfg", lines, lambda l: True, timeout=600, name="tv-prompt", nshards=2)
    worst = max([json.loads(x).get("afterCancelMs", -1) for x in lines] + [-1])
    V.log("  promptness: %d free-running cancelled runs on a silent server (half with a deadline an hour away), slowest return %d ms after the cancellation; %d rejected" % (
        len(lines), worst, len(v.rejections)))

    def key(rj):
        try:
            e = json.loads(rj["line"])
            return "prompt:%s:%s" % ("far-deadline" if e["farDeadline"] else "no-deadline", "stuck" if e["stuck"] else ("late" if e["err"] == "ctx" else "err=" + e["err"]))
        except Exception:
            return "prompt:?"

    def desc(rj):
        e = json.loads(rj["line"])
        return "scenario %s (%s, script %s, context %s): cancelled while the server was silent; Do returned err=%s closed=%s %s ms after the cancellation%s (read time-out %s ms)" % (
            e["id"], e["cfg"]["scn"], [i["k"] for i in e["cfg"]["script"]], "with a deadline an hour away" if e["farDeadline"] else "without a deadline",
            e["err"], e["closed"], e["afterCancelMs"], " - " + e["stuck"] if e["stuck"] else "", e["readTimeoutMs"])
    run.add_trace_rejections(v, key, desc)
    if len(lines) < 30:
        raise V.Inconclusive("promptness runs missing: %d" % len(lines))
    run.coverage["prompt_runs"] = len(lines)
    run.coverage["prompt_slowest_ms"] = worst
    run.assumptions.append("promptness is measured with real time on free-running runs (read time-out 2 ms, grace 4 s): a loaded machine can only make the check slower, not fail, unless a return takes more than 4 s")


if __name__ == "__main__":
    V.main(PID, "model_checking", body)
