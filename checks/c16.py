#!/usr/bin/env python3
"""C16 — reused columns carry nothing over: reset+decode and re-encode are exact.

design check : TLC on ColumnHistory.tla (list-of-values model with the dictionary an encode builds): every history up
               to 7 operations over Append / Reset / Encode / DecodeOK / DecodeFail satisfies EncodeReflects; the
               variant that keeps dictionary state across encodes (the pinned LowCardinality.Prepare) violates it.
binding      : for 24 column kinds (all those with hidden state - LowCardinality, Array, Map, Nullable, String,
               Tuple and nestings - plus representatives of the plain ones) EVERY history of length 3 (quick) / 4
               (thorough) over 10 operations (append one of three values, append two, Reset, Prepare, encode as a raw
               block, write through the vectored writer, decode valid data, failed decode), every placement of one bulk
               operation (append / decode 260 distinct values - enough to leave one-byte LowCardinality keys) among
               every 4-sequence (LowCardinality kinds; 2-sequence for the rest) of append / Reset / encode / decode,
               and random histories up to 45 operations are executed on one real column object; TLC replays the history in the model and decodes
               every encode output with Wire.tla: it must be exactly the current contents."""
import json
import os
import sys
sys.path.insert(0, os.path.join(os.path.dirname(os.path.abspath(__file__)), "..", "lib"))
import vlib as V
import concurrent.futures as cf

PID = "C16"


def body(run):
    T = run.thorough()
    d = V.stage_spec(V.workdir(PID, "mc"))
    r = V.tlc(d, "ColumnHistory", "MC_ColumnHistory.cfg", workers=V.NCPU, timeout=900)
    V.require_design_check(r, "ColumnHistory", 1000)
    r2 = V.tlc(d, "ColumnHistory", "MC_ColumnHistory_stale.cfg", workers=8, timeout=600)
    if not r2.violated_action_prop:
        raise V.Inconclusive("the stale-dictionary variant does not violate EncodeReflects: " + r2.summary())
    V.log("  design ColumnHistory: %d distinct states; stale-dictionary variant violates EncodeReflects as intended" % r.distinct)
    total = {"hist": 0, "lines": 0, "accepted": 0}
    samples = []
    for tags, label in ((("verif",), "default"), (("verif", "purego"), "purego")):
        drv = V.go_build(PID, "drv", tags=tags)
        wd = V.workdir(PID, "hist-" + label)
        nshard = 12
        jobs = [(i, os.path.join(wd, "t%02d.ndjson" % i)) for i in range(nshard)]
        depth = "4" if T else "3"
        with cf.ThreadPoolExecutor(max_workers=nshard) as ex:
            res = list(ex.map(lambda j: V.run_driver(drv, ["history", "-out", j[1], "-depth", depth, "-rand", "600" if T else "150", "-seed", str(run.seed),
                                                       "-wide", "8" if T else "2", "-shard", str(j[0]), "-nshard", str(nshard)], timeout=2400), jobs))
        lines = []
        for (i, out), (rc, so, se, wall) in zip(jobs, res):
            if rc != 0:
                raise V.Inconclusive("history driver failed rc=%d: %s" % (rc, (se or so)[-3000:]))
            total["hist"] += json.loads(so.strip().splitlines()[-1])["blocks"]
            lines += V.read_ndjson(out)
        v = V.validate_traces(PID, "Trace_ColumnHistory", "Trace_ColumnHistory.cfg", lines, lambda l: '"ev":"HBegin"' in l, timeout=2400,
                              name="tv-" + label, xss="256m")
        V.log("  %s build: %d trace lines, %d accepted, %d rejected shards, validate %.1fs" % (label, v.lines, v.accepted_lines, len(v.rejections), v.wall))

        def key(rj, label=label):
            tn = "?"
            try:
                sh = V.read_ndjson(rj["shard"])
                i = rj["line_no"] - 1
                while i >= 0 and '"ev":"HBegin"' not in sh[i]:
                    i -= 1
                tn = json.loads(sh[i])["tname"]
                rj["history"] = sh[i:rj["line_no"]]
                e = json.loads(rj["line"])
                return "hist:%s:%s" % (tn.split("(")[0], e.get("ev"))
            except Exception:
                return "hist:?"

        def desc(rj):
            return "history on %s rejected at line %d: %s ; history so far: %s" % (
                json.loads(rj["history"][0])["tname"] if rj.get("history") else "?", rj["line_no"], (rj["line"] or "")[:200],
                [json.loads(x).get("ev") for x in rj.get("history", [])][-12:])
        run.add_trace_rejections(v, key, desc)
        total["lines"] += v.lines
        total["accepted"] += v.accepted_lines
        samples.append([json.loads(x) for x in lines[:6]])
    run.coverage.update({"states": r.distinct, "transitions": r.generated, "traces_validated_against_impl": total["hist"],
                         "trace_lines": total["lines"], "trace_lines_accepted": total["accepted"], "samples": samples,
                         "non_vacuity": "MC_ColumnHistory_stale.cfg violates EncodeReflects"})
    run.assumptions += ["decoding is only exercised into an empty (fresh or reset) column, as Results.DecodeResult guarantees",
                        "after a failed decode the contents are unspecified until Reset"]


if __name__ == "__main__":
    V.main(PID, "model_checking", body)
