#!/usr/bin/env python3
"""C14 — the vectored writer emits exactly what was chained, once, in order.

1. design check: TLC on Writer.tla (explicit backing arrays / views) — Exact, Once,
   PendingIsExpected over every operation sequence of bounded length; two disabled
   variants (no cut before ChainWrite; keep the vector after a failed flush) must FAIL,
   which shows the invariants are not vacuous.
2. binding: the driver runs every operation sequence of length N (and long random ones)
   on the real proto.Writer from /repo and records what each Flush delivered; TLC validates
   the trace against Trace_Writer (spec actions + logged observations).
3. path equivalence (WriteColumn/WriteBlock == EncodeColumn/EncodeBlock) for the column
   universe of the codec driver, validated by the same trace spec."""
import json
import os
import sys
sys.path.insert(0, os.path.join(os.path.dirname(os.path.abspath(__file__)), "..", "lib"))
import vlib as V

PID = "C14"


def body(run):
    d = V.stage_spec(V.workdir(PID, "mc"))
    cfg = "MC_Writer_thorough.cfg" if run.thorough() else "MC_Writer.cfg"
    res = V.tlc(d, "MC_Writer", cfg, workers=V.NCPU, timeout=1500, coverage=False)
    V.require_design_check(res, "Writer " + cfg, 1000)
    V.log("  design check %s: %d generated / %d distinct states, depth %d, %.1fs" % (cfg, res.generated, res.distinct, res.depth, res.wall))
    nonvac = {}
    for variant, inv in (("MC_Writer_nocut.cfg", "PendingIsExpected"), ("MC_Writer_keep.cfg", "Once")):
        r2 = V.tlc(d, "MC_Writer", variant, workers=4, timeout=300)
        if r2.violated_invariant is None:
            raise V.Inconclusive("non-vacuity variant %s did not violate anything: %s" % (variant, r2.summary()))
        nonvac[variant] = r2.violated_invariant

    drv = V.go_build(PID, "drv")
    tdir = V.workdir(PID, "trace")
    tf = os.path.join(tdir, "writer.ndjson")
    depth = 5 if run.thorough() else 4
    nrand = 3000 if run.thorough() else 300
    rc, out, err, wall = V.run_driver(drv, ["writer", "-out", tf, "-depth", str(depth), "-rand", str(nrand),
                                            "-randlen", "80", "-seed", str(run.seed)], timeout=1200)
    if rc != 0:
        raise V.Inconclusive("writer driver failed rc=%d: %s" % (rc, err[-2000:]))
    stats = json.loads(out.strip().splitlines()[-1])
    lines = V.read_ndjson(tf)
    if len(lines) != stats["lines"] or stats["sequences"] < 100:
        raise V.Inconclusive("writer driver produced an unexpected trace: %s, %d lines" % (stats, len(lines)))
    v = V.validate_traces(PID, "Trace_Writer", "Trace_Writer.cfg", lines, lambda l: l.startswith('{"ev":"Reset"'),
                          timeout=1500)
    V.log("  trace validation: %d lines in %d shards, %d accepted, %d rejections, %.1fs" % (
        v.lines, v.shards, v.accepted_lines, len(v.rejections), v.wall))

    def key(r):
        try:
            ev = json.loads(r["line"])["ev"]
        except Exception:
            ev = "?"
        return "writer-trace:" + ev
    run.add_trace_rejections(v, key)

    # path equivalence: writing a column or a block through the vectored writer produces the same bytes as encoding
    # it into a buffer - every column kind of the codec universe, validated against Wire.tla (the same trace
    # lines as C01: "alts" = WriteBlock+Flush with an empty and a pre-filled staging buffer)
    import wire as W
    clines, cblocks, cwall = W.run_codec(PID, drv, "paths", ["-mode", "blocks", "-depth", "3" if run.thorough() else "2", "-per", "2",
                                                           "-revs", "54460,51902", "-seed", str(run.seed)])
    slines, sblocks, _ = W.run_codec(PID, drv, "paths-special", ["-mode", "special", "-revs", "54460"], nshard=8)
    clines += slines
    cblocks += sblocks
    cv = W.validate(PID, clines, "tv-paths", big=True)
    V.log("  path equivalence: %d blocks of every column kind, %d accepted, %d rejected" % (cblocks, cv.accepted_lines, len(cv.rejections)))
    run.add_trace_rejections(cv, W.rejection_key, W.describe)
    run.coverage["path_equivalence_blocks"] = cblocks

    sample = []
    for l in lines:
        if l.startswith('{"ev":"Reset"') and sample:
            break
        sample.append(json.loads(l))
    run.coverage.update({
        "states": res.distinct, "transitions": res.generated,
        "traces_validated_against_impl": stats["sequences"],
        "samples": [sample, [json.loads(x) for x in lines[-6:]]],
        "trace_lines": v.lines, "trace_lines_accepted": v.accepted_lines, "trace_states": v.states,
        "exhaustive_depth": depth, "random_sequences": nrand,
        "design_check_cfg": cfg, "non_vacuity": nonvac,
        "exhaustive": False,
        "explanation": "TLC checked Writer.tla exhaustively at the bound; every operation sequence of length %d over the 12-operation alphabet plus %d random long sequences was executed on the real proto.Writer and each recorded step was accepted by TLC as a step of Writer.tla with the observed flush output." % (depth, nrand),
    })
    run.assumptions += [
        "the io.Writer under proto.Writer follows the io.Writer contract (returns an error when it accepts fewer bytes than given)",
        "TLC 1.8.0 evaluates the specification correctly",
    ]


if __name__ == "__main__":
    V.main(PID, "model_checking", body)
