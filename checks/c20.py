#!/usr/bin/env python3
"""C20 — scalar conversions are exact over each type's whole documented range.

design check : TLC evaluates the lemmas of MC_Calendar.tla on Calendar.tla (the proleptic Gregorian calendar written
               from its definition): day number <-> calendar date invert each other for EVERY day 1900-01-01 ..
               2299-12-31, consecutive days are consecutive dates, known dates, instants <-> civil times invert
               each other in every zone, quarter = 3 months, year = 4 quarters, tick arithmetic.
binding      : the library's conversions are called and every call is one trace line judged by TLC with
               Calendar.tla: ToDate / Date.Time for every day 0..65535 and ToDate32 / Date32.Time for every day
               1900-01-01..2299-12-31 (each with a time of day and a fixed-offset zone -12h..+14h; thorough: 8
               variants per day); ToDateTime / DateTime.Time over boundary and random seconds of the 32-bit range;
               ToDateTime64 / DateTime64.Time at every precision 0..9 over the ends of the documented range, the
               epoch, the ends of 64-bit nanoseconds and random instants with boundary fractions; raw DateTime64
               values to times; Append+Row through ColDate, ColDate32, ColDateTime, ColDateTime64 with a location;
               Interval.Add for every scale with boundary and random counts from month ends, leap days, year ends;
               Int128/UInt128/Int256/UInt256 constructors and column encodings (sign / zero extension, low bytes
               back); IPv4 / IPv6 to netip and back.  The value is split into [days, second of day, fraction] by
               the harness with 64-bit floor division (TLC integers are 32 bits wide)."""
import json
import os
import sys
sys.path.insert(0, os.path.join(os.path.dirname(os.path.abspath(__file__)), "..", "lib"))
import vlib as V
import concurrent.futures as cf

PID = "C20"


def quarter_factor(e):
    """how many months per quarter the observed result corresponds to (names the known finding precisely)"""
    import datetime
    c, b = e["c"], e["back"]
    for f in (4, 3, 1, 2, 5, 6, 12):
        mm = c["y"] * 12 + c["m"] - 1 + f * e["n"]
        try:
            want = datetime.date(mm // 12, mm % 12 + 1, 1) + datetime.timedelta(days=c["d"] - 1)
        except (ValueError, OverflowError):
            continue
        if (want.year, want.month, want.day, c["h"], c["mi"], c["s"], c["ns"]) == (b["y"], b["m"], b["d"], b["h"], b["mi"], b["s"], b["ns"]):
            return "%d-months-per-unit" % f
    return "other"


def body(run):
    T = run.thorough()
    d = V.stage_spec(V.workdir(PID, "mc"))
    r = V.tlc(d, "MC_Calendar", "MC_Calendar.cfg", workers=4, timeout=1200)
    V.require_design_check(r, "MC_Calendar", 1)
    V.log("  design MC_Calendar (calendar lemmas over all 146 097 days): ok, %.1fs" % r.wall)
    total = {"n": 0, "lines": 0, "accepted": 0}
    kinds = {}
    samples = []
    for tags, label in ((("verif",), "default"), (("verif", "purego"), "purego")):
        if label == "purego" and not T:
            continue
        drv = V.go_build(PID, "drv", tags=tags)
        wd = V.workdir(PID, "cal-" + label)
        nshard = V.NCPU
        jobs = [(i, os.path.join(wd, "t%02d.ndjson" % i)) for i in range(nshard)]
        with cf.ThreadPoolExecutor(max_workers=nshard) as ex:
            res = list(ex.map(lambda j: V.run_driver(drv, ["calendar", "-out", j[1], "-mult", "8" if T else "1", "-seed", str(run.seed),
                                                       "-shard", str(j[0]), "-nshard", str(nshard)], timeout=3000), jobs))
        lines = []
        for (i, out), (rc, so, se, wall) in zip(jobs, res):
            if rc != 0:
                raise V.Inconclusive("calendar driver failed rc=%d: %s" % (rc, (se or so)[-3000:]))
            total["n"] += json.loads(so.strip().splitlines()[-1])["blocks"]
            lines += V.read_ndjson(out)
        for x in lines:
            k = x[x.index('"ev":"') + 6:]
            k = k[:k.index('"')]
            kinds[k] = kinds.get(k, 0) + 1
        v = V.validate_traces(PID, "Trace_Calendar", "Trace_Calendar.cfg", lines, lambda l: True, timeout=3000, name="tv-" + label,
                              nshards=max(V.NCPU, len(lines) // 60000))
        V.log("  %s build: %d lines, %d accepted, %d rejected, validate %.1fs" % (label, v.lines, v.accepted_lines, len(v.rejections), v.wall))

        def key(rj):
            try:
                e = json.loads(rj["line"])
                k = "cal:" + e["ev"]
                if e["ev"] == "Interval":
                    k += ":" + e["scale"]
                    if e["scale"] == "quarter" and not e["panic"]:
                        k += ":" + quarter_factor(e)
                if e["ev"] == "IntervalZone":
                    k += ":" + e["scale"]
                if e["ev"] in ("ToDate32", "ColDate32", "ToDate", "ColDate"):
                    k += ":before-1970" if (e["c"]["y"] < 1970) else ":from-1970"
                if e["ev"] in ("ToDateTime64", "FromDateTime64", "ColInstant"):
                    y = e["c"]["y"] if "c" in e else None
                    if y is None:
                        dd = e["v"]["days"]
                        y = 2263 if dd > 106751 else (1969 if dd < 0 else 2000)
                    k += ":after-2262" if y >= 2262 else (":before-1970" if y < 1970 else ":1970-2262")
                if e["ev"] == "Widen":
                    k += ":" + e["fn"]
                return k
            except Exception:
                return "cal:?"

        def desc(rj):
            return "conversion rejected by Calendar.tla: %s" % (rj["line"] or "")[:400]
        run.add_trace_rejections(v, key, desc)
        total["lines"] += v.lines
        total["accepted"] += v.accepted_lines
        samples += [json.loads(x) for x in lines[:2]]
    need = ["ToDate", "ToDate32", "ToDateTime", "ToDateTime64", "FromDateTime64", "ColInstant", "Interval", "IntervalZone", "Widen", "IPv4", "IPv6", "ColDate", "ColDate32"]
    if any(kinds.get(k, 0) < 100 for k in need) or kinds.get("panic"):
        if kinds.get("panic"):
            pass  # a panic line is rejected by the trace specification (OTHER -> FALSE)
        else:
            raise V.Inconclusive("vacuous: %s" % kinds)
    run.coverage.update({"states": r.distinct, "transitions": r.generated, "traces_validated_against_impl": total["n"],
                         "trace_lines": total["lines"], "trace_lines_accepted": total["accepted"], "samples": samples, "line_kinds": kinds,
                         "exhaustive": False, "exhaustive_parts": "Date: all 65 536 days; Date32: all 146 097 days; the rest boundary + random"})
    run.assumptions += ["Go's time package turns the civil fields chosen by the harness into a time.Time and reads the civil fields of results; Calendar.tla recomputes both independently",
                        "64-bit values are split into [days, second, fraction] by the harness (floor division)",
                        "DateTime: all 2^32 seconds and IPv4: all 2^32 values are sampled (boundary + random), not enumerated: one TLC line per call does not scale to 4*10^9 lines",
                        "values outside a type's documented range are unspecified"]


if __name__ == "__main__":
    V.main(PID, "model_checking", body)
