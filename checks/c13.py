#!/usr/bin/env python3
"""C13 — handshake negotiates min(client, server) revision and fails cleanly.

design check : TLC on Handshake.tla for client/server revision pairs on both sides of the addendum revision and every
               server behaviour (hello, late hello, exception, other packet, cut, stall): Negotiated, AddendumIff,
               FailsCleanly, LateHelloAccepted, ExceptionCarried, termination. The variants that model the pinned
               code (one read attempt; Dial not closing) violate LateHelloAccepted / FailsCleanly.
binding      : ch.Dial with a harness Dialer (so that Close on the connection the library opened is observable)
               against a scripted server, for client x server revisions over one representative of every interval
               between feature revisions and both neighbours of each, x behaviours {hello, hello delayed beyond the
               read time-out but within the handshake time-out, exception, other packet, garbage, cut, truncated hello,
               stall} x credential strings; TLC validates the bytes written (ClientHello = EncMsg of Messages.tla, the
               addendum exactly when min(client, server) has it), the reported server identity, the error (carrying
               the exception), that no client is returned and the dialed connection is closed on failure. Every
               successful handshake is followed by one query whose bytes must parse at min(client, server) (as C02)."""
import json
import os
import random
import sys
sys.path.insert(0, os.path.join(os.path.dirname(os.path.abspath(__file__)), "..", "lib"))
import vlib as V
import session as S

PID = "C13"
BEHAVIOURS = ["hello", "late", "exception", "other", "garbage", "cut", "truncated", "stall"]


def body(run):
    T = run.thorough()
    rng = random.Random(run.seed)
    d = V.stage_spec(V.workdir(PID, "mc"))
    states = 0
    cfgs = sorted(f for f in os.listdir(d) if f.startswith("MC_Handshake_") and f.endswith(".cfg") and "pinned" not in f)
    for c in cfgs:
        r = V.tlc(d, "Handshake", c, workers=2, timeout=300)
        if not r.ok():
            raise V.Inconclusive("design check %s failed: %s\n%s" % (c, r.summary(), r.out[-1500:]))
        states += r.distinct
    for c, inv in (("MC_Handshake_pinned_late.cfg", "LateHelloAccepted"), ("MC_Handshake_pinned_leak.cfg", "FailsCleanly")):
        r = V.tlc(d, "Handshake", c, workers=2, timeout=300)
        if r.violated_invariant != inv:
            raise V.Inconclusive("non-vacuity config %s did not violate %s: %s" % (c, inv, r.summary()))
    V.log("  design Handshake: %d configurations, %d states; pinned variants violate LateHelloAccepted / FailsCleanly as intended" % (len(cfgs), states))
    reps = S.representatives()
    sessions = []
    strs = ["", "default", "db-ü", "x" * 130, "p@ss w\x00rd"]

    def add(crev, srev, beh, scn=""):
        s = {"id": "c13-%d" % (len(sessions) + 1), "crev": crev, "srev": srev, "behaviour": beh, "delayMs": 110 if beh == "late" else 0,
             "database": rng.choice(strs), "user": rng.choice(strs), "password": rng.choice(strs), "quotaKey": rng.choice(strs),
             "scn": scn, "compression": rng.choice(["disabled", "lz4"]), "queryID": "q-%d" % len(sessions), "body": "SELECT 1", "rounds": 2,
             "seed": rng.randrange(100)}
        sessions.append(s)
    # every revision pair where min(client, server) changes class: representatives x representatives (quick: a diagonal band and a sample)
    pairs = [(c, s) for c in reps for s in reps] if T else \
            [(c, c) for c in reps] + [(c, reps[min(len(reps) - 1, i + 1)]) for i, c in enumerate(reps)] + \
            [(reps[min(len(reps) - 1, i + 1)], c) for i, c in enumerate(reps)] + [(rng.choice(reps), rng.choice(reps)) for _ in range(60)]
    for c, s in pairs:
        # a query at the negotiated revision follows (below 54429 the scripted server reads it with a reader of its own)
        scn = rng.choice(["select", "insert", "stream"])
        add(c, s, "hello", scn)
    for beh in BEHAVIOURS[1:]:
        for c, s in (pairs if T else rng.sample(pairs, 24)):
            if beh in ("late", "stall") and not T and rng.random() < 0.5:
                continue
            add(c, s, beh)
    add(0, 54460, "hello", "select")
    add(0, 60000, "hello", "stream")
    # cancellation during the handshake (while waiting for the hello; while the addendum write is blocked because the
    # server stopped reading) and a blocked addendum write without cancellation
    for c, s in rng.sample(pairs, 30 if T else 10) + [(54460, 54460), (0, 54458), (54457, 54460)]:
        for beh, cancel in (("stall", 30), ("stall", 150), ("blockw", 30), ("blockw", 150), ("late", 50), ("late", 400)):
            add(c, s, beh)
            sessions[-1]["cancelMs"] = cancel
    for c, s in [(54460, 54460), (54457, 54460)] + (rng.sample(pairs, 6) if T else []):
        add(c, s, "blockw")
    drv = V.go_build(PID, "drv")
    lines = S.run_sessions(PID, drv, sessions, "sessions", nproc=8, par=12)
    v = S.validate(PID, lines, "tv")
    nh = sum(1 for l in lines if '"ev":"Handshake"' in l)
    V.log("  %d handshakes (%d trace lines), %d accepted, %d rejected, validate %.1fs" % (nh, v.lines, v.accepted_lines, len(v.rejections), v.wall))

    def key(rj):
        try:
            e = json.loads(rj["line"])
            if e["ev"] == "Handshake":
                return "hs:%s:result=%s,closed=%s" % (e["behaviour"], e["result"], e["connClosed"])
            return "hs:stream"
        except Exception:
            return "hs:?"

    def desc(rj):
        e = json.loads(rj["line"])
        if e["ev"] == "Handshake":
            return "handshake client=%s server=%s behaviour=%s delay=%sms: result=%s usable=%s connClosed=%s elapsed=%sms written=%d bytes" % (
                e["crevEff"], e["srev"], e["behaviour"], e["delayMs"], e["result"], e["usable"], e["connClosed"], e["elapsedMs"], len(e["written"]))
        return "query after handshake at revision %s: client stream does not parse (err=%s)" % (e["rev"], e["err"])
    run.add_trace_rejections(v, key, desc)
    sample = json.loads(lines[0])
    run.coverage.update({"states": states, "transitions": states, "traces_validated_against_impl": nh, "trace_lines": v.lines,
                         "trace_lines_accepted": v.accepted_lines, "samples": [sample], "revision_pairs": len(pairs)})
    run.assumptions += ["time-outs are real but short (read 40 ms, handshake 600 ms); a late hello is delayed 110 ms",
                        "the server lays out its hello's optional fields by the client's announced revision, as ClickHouse does"]


if __name__ == "__main__":
    V.main(PID, "model_checking", body)
