#!/usr/bin/env python3
"""C09 — streamed INSERT sends one faithful block per input round, then a terminator.

design check : TLC on QueryLifecycle.tla (stream universe): OneTerminator, TailSent, Faithful, plus the C04 family.
binding      : every OnInput history up to the bound (operations keep / append / reset / reset+append / overwrite in
               place on a zero-copy UInt64 column and a String column; returns nil / io.EOF / wrapped io.EOF / error;
               initial rows zero or not) x every compression mode is executed by the real Do; the harness snapshots
               the columns inside the callback, and each Data block on the wire is decoded and identified with the
               snapshot it equals; TLC validates that block k carries the contents of round k (Trace_QL)."""
import itertools
import os
import random
import sys
sys.path.insert(0, os.path.join(os.path.dirname(os.path.abspath(__file__)), "..", "lib"))
import vlib as V
import ql as Q

PID = "C09"
OPS = ["keep", "append", "reset", "reappend", "overwrite"]
TERM = ["eof", "weof", "err"]


def histories(maxnil):
    for k in range(0, maxnil + 1):
        for pre in itertools.product(OPS, repeat=k):
            for last in OPS:
                for ret in TERM:
                    yield [Q.Pl(o, "nil") for o in pre] + [Q.Pl(last, ret)]


def scenarios(run):
    rng = random.Random(run.seed)
    T = run.thorough()
    out = []

    def add(c, **kw):
        out.append(Q.scenario("c09-%d" % (len(out) + 1), c, **kw))

    behs, _ = Q.tlc_behaviours(PID, "Gen_QL_stream.cfg", 4000 if T else 300, run.seed)
    for c, sched in behs:
        add(Q.from_tlc_cfg(c), sched=sched, break_at=(rng.randrange(0, 600) if c["wbreak"] >= 0 else -1),
            compression=rng.choice(Q.COMPRESSIONS))
    run.coverage["tlc_behaviours"] = len(out)
    comps = Q.COMPRESSIONS if T else ["disabled", "lz4"]
    nh = 0
    for h in histories(3 if T else 2):
        nh += 1
        for ir in (0, 1):
            for comp in comps:
                add(Q.cfg("stream", Q.S("hdr", "eos"), plan=h, init_rows=ir), compression=comp)
            # blocks big enough for the zero-copy path to matter (a column chunk of several hundred bytes)
            add(Q.cfg("stream", Q.S("hdr", "eos"), plan=h, init_rows=ir), compression="disabled", rows_per=[24, 40, 130, 17][nh % 4])
        if nh % 3 == run.seed % 3:
            add(Q.cfg("stream", Q.S("hdr", "prog", "eos"), plan=h, init_rows=rng.choice([0, 1]), need_info=False),
                compression=rng.choice(Q.COMPRESSIONS), sched=Q.random_sched(rng, 12, letters="SSSRRVVT", p_cancel=0))
    run.coverage["callback_histories"] = nh
    # long random histories
    for i in range(3000 if T else 300):
        n = rng.randrange(3, 13)
        h = [Q.Pl(rng.choice(OPS), "nil") for _ in range(n)] + [Q.Pl(rng.choice(OPS), rng.choice(TERM))]
        add(Q.cfg("stream", rng.choice(Q.INSERT_OK), plan=h, init_rows=rng.choice([0, 1]), need_info=rng.random() < 0.8),
            compression=rng.choice(Q.COMPRESSIONS + ["disabled"] * 3), rev=rng.choice(Q.REVS), rows_per=rng.choice([0, 0, 17, 64, 300, 600]),
            sched=("" if rng.random() < 0.5 else Q.random_sched(rng, rng.randrange(1, 30), letters="SSSSRRWVVT", p_cancel=0)))
    # plain (non-streamed) insert, with and without schema exchange
    for comp in Q.COMPRESSIONS:
        for ni in (True, False):
            add(Q.cfg("insert", Q.S("hdr", "eos"), init_rows=1, need_info=ni), compression=comp)
    # blocks whose compressed frame exceeds 64 KiB (12 000 incompressible rows), last before the terminator and in the middle
    for comp in ["lz4", "zstd", "none", "disabled"]:
        add(Q.cfg("insert", Q.S("hdr", "eos"), init_rows=1), compression=comp, rows_per=12000)
        for h in ([Q.Pl("append", "eof")], [Q.Pl("keep", "weof")], [Q.Pl("reappend", "nil"), Q.Pl("reset", "eof")],
                  [Q.Pl("append", "nil"), Q.Pl("overwrite", "nil"), Q.Pl("append", "eof")]):
            add(Q.cfg("stream", Q.S("hdr", "eos"), plan=h, init_rows=1), compression=comp, rows_per=12000)
    # a round whose encoded block exceeds 1 MiB (90 000 incompressible rows), between smaller rounds
    for comp in ["lz4", "zstd", "none", "disabled"]:
        add(Q.cfg("stream", Q.S("hdr", "eos"), plan=[Q.Pl("reappend", "nil"), Q.Pl("overwrite", "nil"), Q.Pl("reappend", "eof")], init_rows=1), compression=comp, rows_per=90000)
    # write segmentations: the connection breaks inside every round
    for h in ([Q.Pl("append", "nil"), Q.Pl("overwrite", "nil"), Q.Pl("reappend", "eof")], [Q.Pl("append", "eof")]):
        for comp in ["disabled", "lz4"]:
            add(Q.cfg("stream", Q.S("hdr", "eos"), plan=h, init_rows=1), compression=comp, sweep="break",
                stride=(1 if T else 11), phase=run.seed)
    return out


def body(run):
    st = Q.design(PID, ["MC_QL_qstream.cfg"] + (["MC_QL_stream.cfg"] if run.thorough() else []),
                  nonvac=[("MC_QL_unfixed_stream.cfg", "PacketBoundary")] if run.thorough() else [])
    drv = V.go_build(PID, "drv")
    scs = scenarios(run)
    lines, stats, v = Q.check_and_report(run, PID, drv, scs, "c09")
    Q.fill_coverage(run, st, stats, v, lines, len(scs))


if __name__ == "__main__":
    V.main(PID, "model_checking", body)
