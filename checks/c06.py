#!/usr/bin/env python3
"""C06 — hostile or corrupted input yields an error, never a crash or bad column.

design check : the prefix-freeness / round-trip lemmas of Wire.tla (MC_Wire) - the reference decoder every accepted
               mutant is compared with.
binding      : valid encodings of ~170 (quick) / ~460 (thorough) column types (blocks of 1 and 3 rows) and of the nine
               protocol messages at two revisions are mutated systematically - EVERY byte replaced by boundary values
               and +-1, EVERY 8-byte window overwritten as a little-endian count/offset with 0, +-1, +256 and
               boundary / huge values, EVERY 4-byte window with boundary values, EVERY byte replaced by a forged
               multi-byte varint (128 .. 2^64-1), every byte deleted / doubled, splices between encodings, random bit
               flips and noise (~5 000 mutants per encoding, ~2 million decodes quick) - and decoded by the real
               library through typed targets (Block.DecodeBlock + Row(i) for every row), through automatic inference
               (+ re-encoding the result) and through the message decoders, in a child process with an 8 GiB address
               space limit and a watchdog.  A mutant on which the child aborts (out of memory) or hangs is found
               through the progress file, re-run alone to confirm and recorded; scanning resumes after it.  Every
               panic, abort, hang and inconsistent result is a trace line TLC rejects; a sample of the ACCEPTED
               mutants of every target is decoded by the specification (Wire.tla) and must carry the values the
               specification decodes whenever it accepts the same bytes; per-target counts are validated too."""
import json
import os
import struct
import sys
sys.path.insert(0, os.path.join(os.path.dirname(os.path.abspath(__file__)), "..", "lib"))
import vlib as V
import wire as W
import concurrent.futures as cf

PID = "C06"
AS_LIMIT_KB = 8 * 1024 * 1024
CONFIRM_LIMIT_KB = 40 * 1024 * 1024
MAX_ABORTS_PER_SHARD = 40
import threading
CONFIRM_LOCK = threading.Lock()


def scan_shard(drv, wd, shard, nshard, args):
    """Run one shard to completion, restarting after every abort / hang. Returns (lines, aborts, truncated)."""
    lines, aborts = [], []
    start, seg = 0, 0
    prog = os.path.join(wd, "p%02d.bin" % shard)
    while True:
        out = os.path.join(wd, "t%02d-%03d.ndjson" % (shard, seg))
        seg += 1
        if os.path.exists(prog):
            os.remove(prog)
        rc, so, se, wall = V.run_driver(drv, ["hostile", "-out", out, "-progress", prog, "-from", str(start), "-shard", str(shard), "-nshard", str(nshard)] + args,
                                        timeout=3000, ulimit_v_kb=AS_LIMIT_KB, env={"GOTRACEBACK": "none"})
        if os.path.exists(out):
            lines += V.read_ndjson(out)
        if rc == 0:
            return lines, aborts, False
        if not os.path.exists(prog):
            raise V.Inconclusive("hostile driver died without progress information rc=%d: %s" % (rc, (se or so)[-2000:]))
        k = struct.unpack("<Q", open(prog, "rb").read(8))[0]
        why = "hang" if rc == 97 else ("out of memory" if "out of memory" in se or "cannot allocate" in se else "abort rc=%d: %s" % (rc, se.strip().splitlines()[0][:200] if se.strip() else ""))
        # confirm by running the mutant alone
        # ... alone, one at a time, under a limit that admits what the library's own caps allow (10^8 rows x 127 bytes,
        # twice): an abort that remains is a request beyond the caps
        with CONFIRM_LOCK:
            rc2, so2, se2, _ = V.run_driver(drv, ["hostile", "-out", out + ".only", "-only", str(k), "-heavy", "-shard", str(shard), "-nshard", str(nshard)] + args,
                                            timeout=900, ulimit_v_kb=CONFIRM_LIMIT_KB, env={"GOTRACEBACK": "none"})
        rc3, so3, se3, _ = V.run_driver(drv, ["hostile", "-out", out + ".desc", "-only", str(k), "-describe", "-shard", str(shard), "-nshard", str(nshard)] + args, timeout=600)
        if rc3 != 0:
            raise V.Inconclusive("cannot describe mutant %d of shard %d: %s" % (k, shard, se3[-1000:]))
        d = json.loads(V.read_ndjson(out + ".desc")[0])
        d["shard"] = shard
        if rc2 == 0:
            # not reproducible alone: the abort depended on the process' earlier allocations; record as such
            d["abort"] = ""
            d["flaky_abort"] = why
        else:
            d["abort"] = why
            d["hang"] = rc2 == 97
            aborts.append(d)
            lines.append(json.dumps(d))
        start = k + 1
        if len(aborts) >= MAX_ABORTS_PER_SHARD:
            return lines, aborts, True


def body(run):
    T = run.thorough()
    st = W.design(PID, "MC_Wire.cfg")
    drv = V.go_build(PID, "drv", tags=("verif",))
    wd = V.workdir(PID, "hostile")
    nshard = V.NCPU
    args = ["-depth", "3" if T else "2", "-rand", "120" if T else "40", "-acc", "30" if T else "12", "-seed", str(run.seed)]
    with cf.ThreadPoolExecutor(max_workers=nshard) as ex:
        res = list(ex.map(lambda i: scan_shard(drv, wd, i, nshard, args), range(nshard)))
    lines, aborts, truncated = [], [], 0
    for ls, ab, tr in res:
        lines += ls
        aborts += ab
        truncated += 1 if tr else 0
    aggs = [json.loads(x) for x in lines if '"ev":"HostileAgg"' in x]
    tot = {k: sum(a.get(k, 0) for a in aggs) for k in ("mutants", "rejected", "accepted", "panics", "inconsistent", "skippedWithinCap")}
    V.log("  %d targets, %d mutants decoded: %d rejected, %d accepted, %d panics, %d inconsistent results, %d aborts/hangs%s" % (
        len({a["target"] for a in aggs}), tot["mutants"], tot["rejected"], tot["accepted"], tot["panics"], tot["inconsistent"], len(aborts),
        " (%d shards stopped after %d aborts each)" % (truncated, MAX_ABORTS_PER_SHARD) if truncated else ""))
    v = W.validate(PID, lines, "tv")
    V.log("  %d trace lines (bad mutants, accepted samples, per-target counts): %d accepted, %d rejected, validate %.1fs" % (v.lines, v.accepted_lines, len(v.rejections), v.wall))

    def klass(mut):
        return mut.split("@")[0].split("#")[0]

    def key(rj):
        try:
            e = json.loads(rj["line"])
            if e["ev"] == "HostileAgg":
                return "hostile:agg:" + e["target"].split("(")[0]
            what = "abort" if e["abort"] else "hang" if e["hang"] else "panic" if e["panic"] else "inconsistent" if e["inconsistent"] else "values"
            fam = e["target"].split(":")[0] + ":" + e["target"].split(":", 1)[1].split("(")[0].split("@")[0]
            return "hostile:%s:%s" % (what, fam)
        except Exception:
            return "hostile:?"

    def desc(rj):
        e = json.loads(rj["line"])
        if e["ev"] == "HostileAgg":
            return "target %s: %d panics, %d inconsistent results among %d mutants" % (e["target"], e["panics"], e["inconsistent"], e["mutants"])
        return "%s, mutation %s (%d bytes): abort=%r hang=%s panic=%r inconsistent=%r err=%r rows=%s" % (
            e["target"], e["mut"], len(e["bytes"]), e["abort"], e["hang"], e["panic"][:150], e["inconsistent"][:150], e["err"][:80], e["rows"])
    # one violation per class (the first mutant of the class is the replay artefact)
    seen = set()
    uniq = []
    for rj in v.rejections:
        k = key(rj)
        if k not in seen:
            seen.add(k)
            uniq.append(rj)
    dropped = len(v.rejections) - len(uniq)
    v.rejections = uniq
    run.add_trace_rejections(v, key, desc)
    if dropped:
        V.log("  (%d further rejected lines fall into the classes above)" % dropped)
    if truncated:
        run.assumptions.append("%d shards stopped scanning after %d aborts each: the mutants behind them were not decoded in this run" % (truncated, MAX_ABORTS_PER_SHARD))
    if tot["mutants"] < 100000 or tot["accepted"] < 1000 or tot["rejected"] < 10000:
        if not aborts:
            raise V.Inconclusive("vacuous: %s" % tot)
    big = sorted(aggs, key=lambda a: -a["maxAllocMiB"])[:5]
    run.coverage.update({"evaluations": tot["mutants"], "distinct_nontrivial": tot["mutants"],
                         "rule": "one evaluation = one mutated encoding decoded by the library (typed targets, inference or a message decoder); every mutant differs from the valid encoding, mutants of one encoding are pairwise distinct by construction (position x value)",
                         "states": st["states"], "transitions": st["transitions"], "totals": tot, "aborts": len(aborts), "targets": len({a["target"] for a in aggs}),
                         "traces_validated_against_impl": v.lines, "largest_allocations_MiB": [[a["target"], a["maxAllocAt"], a["maxAllocMiB"]] for a in big],
                         "samples": [json.loads(x) for x in lines[:2]]})
    run.assumptions += ["an abort is what happens under an 8 GiB address-space limit (RLIMIT_AS); allocations that fit are not counted, also when they are large (the library's own caps allow 10^8 rows)",
                        "mutants in which some 8-byte window reads as a count between 4*10^6 and the library's cap of 10^8 are skipped (counted in skippedWithinCap): the caps admit them and the library then allocates up to gigabytes by design before noticing that the data is missing",
                        "an abort found during scanning (8 GiB limit) counts only if the mutant also aborts alone under a 40 GiB limit",
                        "only a sample of the accepted mutants per target is decoded by the specification (TLC decodes ~10^3 blocks per second)"]


if __name__ == "__main__":
    V.main(PID, "fault_enumeration", body)
