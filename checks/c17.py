#!/usr/bin/env python3
"""C17 — protocol messages encode and decode symmetrically at every revision.

design check : TLC on Messages.tla / Features.tla: for every message kind and every revision 50000..54500 the
               encoding of a sample message changes only when one of the feature thresholds is crossed, grows
               then, and field presence is monotone.
binding      : ClientHello, ServerHello, ClientInfo, Query (settings, parameters, secret, OpenTelemetry context,
               quota key, parallel replicas), ClientData header, Progress, Profile, Exception, TableColumns with
               random field values (empty / long / non-UTF-8 strings, 0 / max integers, every enum member, valid
               trace contexts) are encoded by the library at every representative revision (quick: every threshold
               and its neighbours; thorough: literally every revision 50000..54500); the harness lists the field
               values in wire form with encoding/binary only; TLC requires the bytes to be EXACTLY EncMsg of the
               field tables in Messages.tla (independent feature thresholds), the decoder to hand back every field
               present at that revision consuming exactly the encoding, and every proper prefix to be refused."""
import json
import os
import sys
sys.path.insert(0, os.path.join(os.path.dirname(os.path.abspath(__file__)), "..", "lib"))
import vlib as V
import concurrent.futures as cf

PID = "C17"
THRESHOLDS = [50264, 51903, 54058, 54060, 54372, 54401, 54406, 54410, 54420, 54429, 54441, 54442, 54443, 54447, 54448, 54449, 54451,
              54453, 54454, 54458, 54459, 54460, 54475]


def representatives():
    rs = {50000, 54500}
    ts = sorted(THRESHOLDS)
    for i, t in enumerate(ts):
        rs.update({t - 1, t, t + 1})
        if i + 1 < len(ts):
            rs.add((t + ts[i + 1]) // 2)
    return sorted(rs)


def body(run):
    T = run.thorough()
    d = V.stage_spec(V.workdir(PID, "mc"))
    r = V.tlc(d, "MC_Messages", "MC_Messages.cfg", workers=V.NCPU, timeout=1200)
    V.require_design_check(r, "MC_Messages", 1000)
    V.log("  design MC_Messages: %d (kind, revision) states, %.1fs" % (r.distinct, r.wall))
    total = {"msgs": 0, "lines": 0, "accepted": 0}
    samples = []
    for tags, label in ((("verif",), "default"), (("verif", "purego"), "purego")):
        if label == "purego" and not T:
            continue
        drv = V.go_build(PID, "drv", tags=tags)
        wd = V.workdir(PID, "msg-" + label)
        nshard = V.NCPU
        revs = "50000-54500" if T else ",".join(str(x) for x in representatives())
        jobs = [(i, os.path.join(wd, "t%02d.ndjson" % i)) for i in range(nshard)]
        with cf.ThreadPoolExecutor(max_workers=nshard) as ex:
            res = list(ex.map(lambda j: V.run_driver(drv, ["messages", "-out", j[1], "-revs", revs, "-per", "2" if T else "6", "-seed", str(run.seed),
                                                       "-shard", str(j[0]), "-nshard", str(nshard)], timeout=2400), jobs))
        lines = []
        for (i, out), (rc, so, se, wall) in zip(jobs, res):
            if rc != 0:
                raise V.Inconclusive("messages driver failed rc=%d: %s" % (rc, (se or so)[-3000:]))
            total["msgs"] += json.loads(so.strip().splitlines()[-1])["blocks"]
            lines += V.read_ndjson(out)
        v = V.validate_traces(PID, "Trace_Messages", "Trace_Messages.cfg", lines, lambda l: True, timeout=2400, name="tv-" + label)
        V.log("  %s build: %d messages, %d accepted, %d rejected, validate %.1fs" % (label, v.lines, v.accepted_lines, len(v.rejections), v.wall))

        def key(rj):
            try:
                e = json.loads(rj["line"])
                what = "layout"
                if e.get("prefixAccepted"):
                    what = "prefix-accepted"
                elif e.get("decErr"):
                    what = "decode-error"
                return "msg:%s:%s" % (e["kind"], what)
            except Exception:
                return "msg:?"

        def desc(rj):
            e = json.loads(rj["line"])
            return "%s at revision %d: bytes %s..., decErr=%r leftover=%s prefixAccepted=%s" % (e["kind"], e["rev"], e["bytes"][:24], e["decErr"], e["leftover"], e["prefixAccepted"][:5])
        run.add_trace_rejections(v, key, desc)
        total["lines"] += v.lines
        total["accepted"] += v.accepted_lines
        samples.append(json.loads(lines[0]))
    run.coverage.update({"states": r.distinct, "transitions": r.generated, "traces_validated_against_impl": total["msgs"],
                         "trace_lines": total["lines"], "trace_lines_accepted": total["accepted"], "samples": samples,
                         "revisions": "50000..54500 (all)" if T else "%d representatives" % len(representatives()), "exhaustive": T})
    run.assumptions += ["integers reach the specification already in wire form (LEB128 / little-endian produced with encoding/binary)",
                        "Query.DecodeAware below revision 54429 and ClientInfo with a non-TCP interface are refused by the library by design; only their encode half is checked"]


if __name__ == "__main__":
    V.main(PID, "model_checking", body)
