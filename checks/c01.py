#!/usr/bin/env python3
"""C01 — block encode→decode is the identity for every column type and nesting.

design check : TLC on Wire.tla: for every type of a universe up to depth 3 and every value sequence up to the
               bound, the decoder of the specification inverts its (independently written) encoder, consumes
               exactly the encoding and rejects every proper prefix.
binding      : every column kind the harness can build (29 base kinds x Array / Nullable / LowCardinality / Map /
               Tuple compositions to depth 2 (quick) / 3 (thorough), ~170 / ~460 types), random value sequences
               with boundary values, several protocol revisions on both sides of the block-affecting features,
               default and purego builds: the block is encoded by every path (EncodeBlock into an empty and a
               pre-filled buffer, WriteBlock+Flush, twice from the same objects), the bytes are decoded BY THE
               SPECIFICATION (TLC) and must be exactly the logical contents; typed decode (fresh and reused
               targets) and inferred decode of the real library must agree with the specification's decode.
               Boundary blocks: strings of 127/128/16383/16384 bytes, dictionaries of 254..257 and 65534..65537
               distinct values."""
import os
import sys
sys.path.insert(0, os.path.join(os.path.dirname(os.path.abspath(__file__)), "..", "lib"))
import vlib as V
import wire as W

PID = "C01"


def body(run):
    T = run.thorough()
    st = W.design(PID, "MC_Wire_thorough.cfg" if T else "MC_Wire.cfg")
    total = {"blocks": 0, "lines": 0, "accepted": 0}
    samples = []
    for tags, label in ((("verif",), "default"), (("verif", "purego"), "purego")):
        drv = V.go_build(PID, "drv", tags=tags)
        depth = "3" if T else "2"
        per = "4" if T else "2"
        revs = "54460,54459,54454,54453,51903,51902" if T else "54460,54454,54453,51903,51902"
        lines, blocks, wall = W.run_codec(PID, drv, "blocks-" + label, ["-mode", "blocks", "-depth", depth, "-per", per, "-revs", revs,
                                                                  "-seed", str(run.seed)])
        v = W.validate(PID, lines, "tv-" + label)
        V.log("  %s build: %d blocks/decodes, %d lines accepted of %d, %d rejected, drive %.1fs validate %.1fs" % (
            label, blocks, v.accepted_lines, v.lines, len(v.rejections), wall, v.wall))
        run.add_trace_rejections(v, lambda r, l=label: W.rejection_key(r) + ("" if l == "default" else ":purego"), W.describe)
        total["blocks"] += blocks
        total["lines"] += v.lines
        total["accepted"] += v.accepted_lines
        samples += W.sample_of(lines, 1)
        # boundary blocks
        sl, sb, swall = W.run_codec(PID, drv, "special-" + label, ["-mode", "special", "-revs", "54460"], nshard=8)
        sv = W.validate(PID, sl, "tv-special-" + label, big=True)
        V.log("  %s build, boundary blocks: %d, accepted %d, rejected %d, validate %.1fs" % (label, sb, sv.accepted_lines, len(sv.rejections), sv.wall))
        run.add_trace_rejections(sv, lambda r, l=label: W.rejection_key(r) + ":boundary" + ("" if l == "default" else ":purego"), W.describe)
        total["blocks"] += sb
        total["lines"] += sv.lines
        total["accepted"] += sv.accepted_lines
    run.coverage.update({
        "states": st["states"], "transitions": st["transitions"], "design_cfg": st["cfg"],
        "traces_validated_against_impl": total["blocks"], "trace_lines": total["lines"], "trace_lines_accepted": total["accepted"],
        "samples": samples,
    })
    run.assumptions += [
        "Go values are converted to raw bytes with encoding/binary (never with ch-go); scalar values are compared as raw bytes",
        "the inferred decode is compared by re-encoding its columns and comparing bytes (the encoder itself is validated against the specification)",
        "TLC 1.8.0 evaluates the specification correctly",
    ]


if __name__ == "__main__":
    V.main(PID, "model_checking", body)
