#!/usr/bin/env python3
"""C11 — a pooled connection has one holder; dead or expired ones are never reissued.

design check : TLC on Pool.tla (chpool over an abstract puddle: permits, idle set, asynchronous destroy, health
               check, MinConns, pool close; handles that can be released again): OneHolder, MaxConns, NoDeadIdle,
               NoPanic, HeldIsAcquired, PermitsSane, AllClosedAfterClose, ReleaseIdempotent. The model of the pinned
               Release (Fixed = FALSE) must violate them (non-vacuity).
binding      : operation histories - every sequence up to the bound, TLC-generated behaviours (Gen_Pool), random
               ones, with real (short) lifetimes and idle times - are replayed on a real chpool.Pool whose dialer
               hands out in-memory connections served by scripted servers; after every operation the harness records
               which connection the handle got, which connection served the request, errors, panics, puddle's Stat(),
               which dialed connections are closed, ages and idle times; TLC validates each history against
               Trace_Pool, inferring puddle's unobservable asynchronous steps."""
import itertools
import json
import os
import random
import sys
sys.path.insert(0, os.path.join(os.path.dirname(os.path.abspath(__file__)), "..", "lib"))
import vlib as V

PID = "C11"
LIFE, IDLE = 100, 60


def op(o, u=None, how=None, k=None):
    d = {"op": o}
    if u:
        d["u"] = u
    if how:
        d["how"] = how
    if k is not None:
        d["k"] = k
    return d


def alphabet(users):
    a = []
    for u in users:
        a += [op("Acquire", u), op("Use", u, "ping"), op("Use", u, "exc"), op("Use", u, "transport"), op("Release", u),
              op("StaleRelease", u, k=0)]
    a += [op("HC"), op("Close")]
    return a


def tlc_histories(pid, cfgfile, num, seed):
    d = V.stage_spec(V.workdir(pid, "gen-" + cfgfile.replace(".cfg", "")))
    res = V.tlc(d, "Gen_Pool", cfgfile, workers=4, timeout=600, simulate="num=%d" % max(1, num // 4), depth=60, seed=seed)
    out = []
    for line in res.out.splitlines():
        if line.startswith('"{'):
            try:
                rec = json.loads(json.loads(line))
            except Exception:
                continue
            if rec.get("tag") == "BEH":
                out.append(rec["hist"])
    if not out:
        raise V.Inconclusive("Gen_Pool produced no behaviours: %s\n%s" % (res.summary(), res.out[-1500:]))
    return out


def histories(run):
    rng = random.Random(run.seed)
    T = run.thorough()
    hs = []

    def add(ops, users, mx, minc):
        hs.append({"id": "c11-%d" % (len(hs) + 1), "users": users, "max": mx, "minc": minc, "lifeMs": LIFE, "idleMs": IDLE, "ops": ops})
    # every operation sequence up to the bound (two users, one connection: the sharpest configuration)
    u2 = ["u1", "u2"]
    al = alphabet(u2)
    depth = 4 if T else 3
    n_exh = 0
    for seq in itertools.product(range(len(al)), repeat=depth):
        ops = [al[i] for i in seq]
        # prune sequences whose first operation cannot do anything
        if ops[0]["op"] in ("Use", "Release", "StaleRelease", "HC"):
            continue
        add(ops, u2, 1, 0)
        n_exh += 1
    run.coverage["exhaustive_depth"] = depth
    run.coverage["exhaustive_histories"] = n_exh
    # model-generated behaviours
    n0 = len(hs)
    for cfgfile, users, mx, minc, num in (("Gen_Pool.cfg", u2, 1, 0, 3000 if T else 400), ("Gen_Pool_2_1.cfg", ["u1", "u2", "u3"], 2, 1, 3000 if T else 400)):
        for h in tlc_histories(PID, cfgfile, num, run.seed):
            add(h, users, mx, minc)
    run.coverage["tlc_behaviours"] = len(hs) - n0
    # long-lived connections: one connection handed out 62..130 times (handles are recycled in slabs of 64), a handle of the
    # very first holder released again while a late holder has the connection
    for rounds in ([62, 63, 64, 65, 66, 127, 128, 129] if T else [63, 64, 65, 128]):
        for hold_first in (False, True):
            ops = [op("Acquire", "u1"), op("Release", "u1")]
            for _ in range(rounds):
                ops += [op("Acquire", "u2"), op("Release", "u2")]
            ops += [op("Acquire", "u2"), op("StaleRelease", "u1", k=0), op("Acquire", "u1"), op("Use", "u2", "ok"), op("Release", "u2"),
                    op("StaleRelease", "u2", k=0), op("Acquire", "u2")]
            if hold_first:
                ops = [op("Acquire", "u2"), op("Release", "u2")] + ops
            hs.append({"id": "c11-%d" % (len(hs) + 1), "users": u2, "max": 1, "minc": 0, "lifeMs": 60000, "idleMs": 60000, "ops": ops})
    run.coverage["long_lived_histories"] = True
    # idle time against the rounds of the health check: rounds that see the connection while it is still within its idle
    # time, then rounds after it has been unused for longer (the connection's lifetime is far away)
    for mx, minc, users in ((1, 0, u2), (2, 0, ["u1", "u2", "u3"])):
        for early in (0, 1, 2, 3):
            for first_sleep in (0, 20):
                ops = [op("Acquire", "u1"), op("Use", "u1", "ok"), op("Release", "u1")]
                if mx == 2:
                    ops = [op("Acquire", "u2")] + ops
                if first_sleep:
                    ops.append(op("Sleep", k=first_sleep))
                for _ in range(early):
                    ops += [op("HC"), op("Sleep", k=25)]
                # (rounds less than the idle time apart: each of them finds the connection unused for longer)
                ops += [op("Sleep", k=40), op("HC")] * 4 + [op("Acquire", "u1"), op("Use", "u1", "ping"), op("Release", "u1")]
                hs.append({"id": "c11-%d" % (len(hs) + 1), "users": users, "max": mx, "minc": minc, "lifeMs": 5000, "idleMs": 60, "ops": ops})
    # Pool.Do / Pool.Ping around the lifetime of a connection: the release inside them applies the same rules
    for how2 in ("ok", "ping", "exc"):
        for sleep in (40, 130):
            for tail in ([op("Acquire", "u2"), op("Use", "u2", "ok"), op("Release", "u2")], [op("PoolDo", "u2", "ok")], [op("HC"), op("Acquire", "u1")]):
                hs.append({"id": "c11-%d" % (len(hs) + 1), "users": u2, "max": 1, "minc": 0, "lifeMs": LIFE, "idleMs": 60000,
                           "ops": [op("PoolDo", "u1", "ok"), op("Sleep", k=sleep), op("PoolDo", "u1", how2)] + tail})
    # random longer histories with time passing
    u3 = ["u1", "u2", "u3"]
    for i in range(3000 if T else 400):
        users, mx, minc = rng.choice([(u2, 1, 0), (u3, 2, 1), (u3, 2, 0), (u3, 3, 2)])
        al = alphabet(users) + [op("Use", u, "ok") for u in users] + [op("Use", u, "cancelled") for u in users[:1]] + \
            [op("PoolDo", u, h) for u in users for h in ("ok", "ping", "exc")]
        ops = []
        for _ in range(rng.randrange(4, 16)):
            r = rng.random()
            if r < 0.07:
                ops.append(op("Sleep", k=rng.choice([40, 85, 130])))
            elif r < 0.10:
                ops.append(op("FailNextDial"))
            else:
                o = dict(rng.choice(al))
                if o["op"] == "Close" and rng.random() < 0.7:
                    continue
                if o["op"] == "StaleRelease":
                    o["k"] = rng.randrange(0, 3)
                ops.append(o)
        add(ops, users, mx, minc)
    return hs


def run_chunk(drv, wd, name, hs, par):
    fin, fout = os.path.join(wd, name + ".h.ndjson"), os.path.join(wd, name + ".t.ndjson")
    with open(fin, "w") as f:
        for h in hs:
            f.write(json.dumps(h) + "\n")
    rc, out, err, wall = V.run_driver(drv, ["pool", "-in", fin, "-out", fout, "-par", str(par)], timeout=1200)
    if rc == 0:
        return V.read_ndjson(fout), None
    return None, (err or out)[-2500:]


def run_histories(drv, hs):
    """Replay histories in chunks (one process each). A history that kills the process (a panic in a goroutine of
    the pool cannot be recovered) is isolated by re-running its chunk one history per process and is reported as a
    Crash event, which no step of the specification matches."""
    import concurrent.futures as cf
    import time
    wd = V.workdir(PID, "pool")
    t0 = time.time()
    nchunks = max(1, min(64, len(hs) // 40))
    chunks = [hs[i::nchunks] for i in range(nchunks)]
    lines, crashed = [], 0
    with cf.ThreadPoolExecutor(max_workers=V.NCPU) as ex:
        res = list(ex.map(lambda ic: run_chunk(drv, wd, "c%03d" % ic[0], ic[1], 8), enumerate(chunks)))
        retry = []
        for (ls, err), ch in zip(res, chunks):
            if ls is not None:
                lines += ls
            else:
                retry += ch
        if retry:
            res2 = list(ex.map(lambda ih: run_chunk(drv, wd, "r%05d" % ih[0], [ih[1]], 1), enumerate(retry)))
            for (ls, err), h in zip(res2, retry):
                if ls is not None:
                    lines += ls
                else:
                    crashed += 1
                    lines.append(json.dumps({"ev": "Begin", "id": h["id"], "users": h["users"], "max": h["max"], "minc": h["minc"],
                                             "lifeMs": h["lifeMs"], "idleMs": h["idleMs"], "ops": h["ops"]}))
                    lines.append(json.dumps({"ev": "Crash", "stderr": err[-1500:]}))
    return lines, {"histories": len(hs), "crashed": crashed}, time.time() - t0


def body(run):
    d = V.stage_spec(V.workdir(PID, "mc"))
    st = {"states": 0, "transitions": 0, "cfgs": {}}
    for c in ["MC_Pool_q1.cfg"] + (["MC_Pool_q2.cfg", "MC_Pool_t3.cfg"] if run.thorough() else []):
        r = V.tlc(d, "MC_Pool", c, workers=V.NCPU, timeout=3000, heap="12g")
        V.require_design_check(r, c, 1000)
        st["states"] += r.distinct
        st["transitions"] += r.generated
        st["cfgs"][c] = {"distinct": r.distinct, "generated": r.generated, "depth": r.depth}
        V.log("  design %s: %d distinct / %d generated states, %.1fs" % (c, r.distinct, r.generated, r.wall))
    r = V.tlc(d, "MC_Pool", "MC_Pool_unfixed.cfg", workers=8, timeout=600)
    if not (r.violated_invariant or r.violated_action_prop):
        raise V.Inconclusive("the model of the pinned Release does not violate anything: " + r.summary())
    st["cfgs"]["MC_Pool_unfixed.cfg"] = {"violates_as_intended": r.violated_invariant or "ReleaseIdempotent"}

    drv = V.go_build(PID, "drv")
    hs = histories(run)
    by_id = {h["id"]: h for h in hs}
    lines, stats, wall = run_histories(drv, hs)
    V.log("  replayed %d histories (%d trace lines, %d crashed the process) in %.1fs" % (stats["histories"], len(lines), stats["crashed"], wall))
    # group by pool configuration: Max / MinConns are constants of the specification
    groups = {}
    cur = None
    for l in lines:
        if '"ev":"Begin"' in l:
            b = json.loads(l)
            cur = (b["max"], b["minc"], b.get("lifeMs", LIFE), b.get("idleMs", IDLE))
        groups.setdefault(cur, []).append(l)
    tmpl = open(os.path.join(V.SPEC, "Trace_Pool.cfg.tmpl")).read()
    total = {"lines": 0, "accepted": 0, "states": 0}
    for (mx, minc, life, idle), ls in sorted(groups.items()):
        cfgname = "Trace_Pool_%d_%d_%d_%d.cfg" % (mx, minc, life, idle)
        cfgtext = tmpl.replace("@MAX@", str(mx)).replace("@MINC@", str(minc)).replace("@LIFE@", str(life)).replace("@IDLE@", str(idle))
        v = V.validate_traces(PID, "Trace_Pool", cfgname, ls, lambda l: '"ev":"Begin"' in l, timeout=2400, dfs=True,
                              name="tv-%d-%d-%d" % (mx, minc, life), extra_files={cfgname: cfgtext})
        V.log("  trace validation Max=%d MinConns=%d: %d lines, %d accepted, %d rejected shards, %.1fs" % (
            mx, minc, v.lines, v.accepted_lines, len(v.rejections), v.wall))
        total["lines"] += v.lines
        total["accepted"] += v.accepted_lines
        total["states"] += v.states

        def key(r):
            try:
                e = json.loads(r["line"])
            except Exception:
                return "pool:?"
            k = "pool:%s" % e.get("ev")
            if e.get("ev") == "StaleRelease":
                k += ":panic" if e.get("panic") else ":effect"
            if e.get("ev") == "Acquire":
                k += ":" + str(e.get("res"))
            if e.get("ev") == "Use":
                k += ":" + str(e.get("how"))
            return k

        def desc(r):
            b = None
            try:
                sh = V.read_ndjson(r["shard"])
                i = r["line_no"] - 1
                while i >= 0 and '"ev":"Begin"' not in sh[i]:
                    i -= 1
                b = json.loads(sh[i])
                r["history_events"] = sh[i:r["line_no"]]
            except Exception:
                pass
            return "history %s (Max=%d, MinConns=%d): the specification rejects line %d (%s): %s" % (
                b.get("id") if b else "?", mx, minc, r["line_no"], r["why"], (r["line"] or "")[:400])
        # A history runs on real timers and goroutines: a rejection is a verdict only if the history is rejected again
        # when it is replayed by itself (five times, one after the other); otherwise it is kept as a note.
        kept = []
        for r in v.rejections:
            hid = None
            try:
                sh = V.read_ndjson(r["shard"])
                i = r["line_no"] - 1
                while i >= 0 and '"ev":"Begin"' not in sh[i]:
                    i -= 1
                hid = json.loads(sh[i])["id"]
            except Exception:
                pass
            h = by_id.get(hid)
            if h is None or r.get("line") is None:
                kept.append(r)
                continue
            again = None
            crashed = '"Crash"' in (r.get("line") or "")
            if crashed:
                # a Crash line exists only when the history killed its process twice: in its chunk and again when it was run
                # by itself (run_histories). That is the replay; what remains to be told apart is whose code panicked.
                try:
                    stderr = json.loads(r["line"]).get("stderr", "")
                except Exception:
                    stderr = ""
                top = ""
                if "[running]:" in stderr:
                    after = stderr.split("[running]:", 1)[1].strip().splitlines()
                    top = after[0].strip() if after else ""
                if top.startswith("verifharness/") or top.startswith("main."):
                    raise V.Inconclusive("the pool driver itself panicked (not a verdict on the library): " + stderr[:1500])
                kept.append(r)
                continue
            for k in range(5):
                ls2, err2 = run_chunk(drv, V.workdir(PID, "pool-rerun", clean=False), "rr-%s-%d" % (hid, k), [h], 1)
                if ls2 is None:
                    ls2 = [json.dumps({"ev": "Begin", "id": h["id"], "users": h["users"], "max": h["max"], "minc": h["minc"],
                                       "lifeMs": h["lifeMs"], "idleMs": h["idleMs"]}), json.dumps({"ev": "Crash", "stderr": (err2 or "")[-1500:]})]
                v2 = V.validate_traces(PID, "Trace_Pool", cfgname, ls2, lambda l: '"ev":"Begin"' in l, timeout=600, dfs=True,
                                       name="tv-rerun-%s-%d" % (hid, k), extra_files={cfgname: cfgtext})
                if v2.rejections:
                    again = v2.rejections[0]
                    break
            if again is None:
                run.notes.append("rejection of history %s not reproduced in 5 replays of the history by itself: %s" % (hid, (r["line"] or "")[:200]))
                V.log("  NOTE: the rejection of history %s was not reproduced in 5 replays; not a verdict: %s" % (hid, (r["line"] or "")[:300]))
            else:
                kept.append(again)
        v.rejections = kept
        run.add_trace_rejections(v, key, desc)
    sample = []
    for l in lines:
        if '"ev":"Begin"' in l and sample:
            break
        sample.append(json.loads(l))
    run.coverage.update({
        "states": st["states"], "transitions": st["transitions"], "design_configs": st["cfgs"],
        "traces_validated_against_impl": stats["histories"], "trace_lines": total["lines"],
        "trace_lines_accepted": total["accepted"], "trace_states": total["states"],
        "samples": [sample],
    })
    run.assumptions += [
        "operations of one history run one after the other (interleaving at operation granularity); concurrent use is exercised by C12's driver under the race detector",
        "ages and idle times are measured by the harness; within 15 ms of MaxConnLifetime / MaxConnIdleTime either decision is accepted",
        "puddle's asynchronous steps are inferred by TLC, not observed",
    ]


if __name__ == "__main__":
    V.main(PID, "model_checking", body)
