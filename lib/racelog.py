"""Parse Go race detector logs: one record per report with the two access stacks."""
import glob
import os
import re


def parse(paths):
    reps = []
    for p in paths:
        txt = open(p, errors="replace").read()
        for blk in txt.split("WARNING: DATA RACE")[1:]:
            blk = blk.split("==================")[0]
            secs = re.split(r"\n\n", blk.strip())
            acc = []
            for s in secs[:2]:
                lines = s.strip().splitlines()
                if not lines:
                    continue
                head = lines[0].strip()
                frames = []
                for i in range(1, len(lines) - 1, 2):
                    fn = lines[i].strip()
                    loc = lines[i + 1].strip().split(" ")[0]
                    frames.append((fn, loc))
                acc.append({"head": re.sub(r"0x[0-9a-f]+", "ADDR", re.sub(r"goroutine \d+", "goroutine N", head)), "frames": frames})
            if len(acc) == 2:
                reps.append({"a": acc[0], "b": acc[1], "text": blk.strip()[:4000]})
    return reps


def lib_frame(frames, repo=None):
    repo = repo or (os.environ.get("VERIF_REPO", "/repo").rstrip("/") + "/")
    """innermost frame that is library code"""
    for fn, loc in frames:
        if loc.startswith(repo):
            return fn, loc
    return None


def classify(rep, repo=None):
    repo = repo or (os.environ.get("VERIF_REPO", "/repo").rstrip("/") + "/")
    root = os.path.dirname(os.path.dirname(os.path.abspath(__file__))) + "/"
    """-> (kind, key): kind 'library' when both accesses are made by library code (innermost frame inside the
    repository, or a callee that the library called without harness code in between)"""
    def side(acc):
        for fn, loc in acc["frames"]:
            if loc.startswith(root):
                return "harness", fn
            if loc.startswith(repo):
                return "library", fn
        return "other", acc["frames"][0][0] if acc["frames"] else "?"
    ka, fa = side(rep["a"])
    kb, fb = side(rep["b"])
    short = lambda f: f.replace("github.com/ClickHouse/ch-go", "ch").replace("()", "")
    key = "race:" + "|".join(sorted([short(fa), short(fb)]))
    if ka == "library" and kb == "library":
        return "library", key
    return "harness", key
