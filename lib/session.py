"""Shared driver for the session-based checks (C02 client byte stream, C13 handshake)."""
import json
import os
import concurrent.futures as cf

import vlib as V

THRESHOLDS = [50264, 51903, 54058, 54060, 54372, 54401, 54406, 54410, 54420, 54429, 54441, 54442, 54443, 54447, 54448, 54449, 54451,
              54453, 54454, 54458, 54459, 54460]


def representatives():
    rs = {50000, 54500}
    ts = sorted(THRESHOLDS)
    for i, t in enumerate(ts):
        rs.update({t - 1, t, t + 1})
        if i + 1 < len(ts):
            rs.add((t + ts[i + 1]) // 2)
    return sorted(rs)


def run_sessions(pid, drv, sessions, name, nproc=8, par=8, timeout=2400):
    wd = V.workdir(pid, name)
    chunks = [sessions[i::nproc] for i in range(nproc)]
    jobs = []
    for i, ch in enumerate(chunks):
        if not ch:
            continue
        fin, fout = os.path.join(wd, "s%02d.ndjson" % i), os.path.join(wd, "t%02d.ndjson" % i)
        with open(fin, "w") as f:
            for s in ch:
                f.write(json.dumps(s) + "\n")
        jobs.append((fin, fout))
    with cf.ThreadPoolExecutor(max_workers=len(jobs)) as ex:
        res = list(ex.map(lambda j: V.run_driver(drv, ["session", "-in", j[0], "-out", j[1], "-par", str(par)], timeout=timeout), jobs))
    lines = []
    for (fin, fout), (rc, so, se, wall) in zip(jobs, res):
        if rc != 0:
            raise V.Inconclusive("session driver failed rc=%d: %s" % (rc, (se or so)[-3000:]))
        lines += V.read_ndjson(fout)
    return lines


def validate(pid, lines, name):
    return V.validate_traces(pid, "Trace_Session", "Trace_Session.cfg", lines, lambda l: True, timeout=2400, name=name, xss="256m")


def handshake_cancellation(run, pid, drv, rng, npairs):
    """Cancellation during the handshake (C10's last sentence; Handshake!CancelEndsIt): the caller cancels while the
    client waits for the server's hello, or while its addendum write is blocked because the server stopped reading."""
    reps = representatives()
    pairs = [(54460, 54460), (0, 54458), (54457, 54460), (54458, 54458)] + [(rng.choice(reps), rng.choice(reps)) for _ in range(npairs)]
    sessions = []
    for c, s in pairs:
        for beh, cancel in (("stall", 30), ("stall", 150), ("blockw", 30), ("blockw", 150), ("late", 50)):
            sessions.append({"id": "hc-%d" % (len(sessions) + 1), "crev": c, "srev": s, "behaviour": beh, "delayMs": 110 if beh == "late" else 0,
                             "cancelMs": cancel, "database": "", "user": "u", "password": "", "quotaKey": rng.choice(["", "k", "quota-key"]),
                             "scn": "", "compression": "disabled", "queryID": "q", "body": "SELECT 1", "rounds": 1, "seed": 1})
    lines = run_sessions(pid, drv, sessions, "hs-cancel", nproc=4, par=8)
    v = validate(pid, lines, "tv-hs-cancel")
    V.log("  handshake cancellation: %d dials cancelled while waiting for the hello / blocked in the addendum write, %d accepted, %d rejected" % (
        v.lines, v.accepted_lines, len(v.rejections)))

    def key(rj):
        try:
            e = json.loads(rj["line"])
            return "hs-cancel:%s:result=%s,closed=%s" % (e["behaviour"], e["result"], e["connClosed"])
        except Exception:
            return "hs-cancel:?"

    def desc(rj):
        e = json.loads(rj["line"])
        return "handshake client=%s server=%s behaviour=%s, cancelled after %s ms: result=%s usable=%s connClosed=%s elapsed=%sms" % (
            e["crevEff"], e["srev"], e["behaviour"], e["cancelMs"], e["result"], e["usable"], e["connClosed"], e["elapsedMs"])
    run.add_trace_rejections(v, key, desc)
    run.coverage["handshake_cancellations"] = v.lines
