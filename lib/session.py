"""Shared driver for the session-based checks (C02 client byte stream, C13 handshake)."""
import json
import os
import concurrent.futures as cf

import vlib as V

THRESHOLDS = [50264, 51903, 54058, 54060, 54372, 54401, 54406, 54410, 54420, 54429, 54441, 54442, 54443, 54447, 54448, 54449, 54451,
              54453, 54454, 54458, 54459, 54460]


def representatives():
    rs = {50000, 54500}
    ts = sorted(THRESHOLDS)
    for i, t in enumerate(ts):
        rs.update({t - 1, t, t + 1})
        if i + 1 < len(ts):
            rs.add((t + ts[i + 1]) // 2)
    return sorted(rs)


def run_sessions(pid, drv, sessions, name, nproc=8, par=8, timeout=2400):
    wd = V.workdir(pid, name)
    chunks = [sessions[i::nproc] for i in range(nproc)]
    jobs = []
    for i, ch in enumerate(chunks):
        if not ch:
            continue
        fin, fout = os.path.join(wd, "s%02d.ndjson" % i), os.path.join(wd, "t%02d.ndjson" % i)
        with open(fin, "w") as f:
            for s in ch:
                f.write(json.dumps(s) + "\n")
        jobs.append((fin, fout))
    with cf.ThreadPoolExecutor(max_workers=len(jobs)) as ex:
        res = list(ex.map(lambda j: V.run_driver(drv, ["session", "-in", j[0], "-out", j[1], "-par", str(par)], timeout=timeout), jobs))
    lines = []
    for (fin, fout), (rc, so, se, wall) in zip(jobs, res):
        if rc != 0:
            raise V.Inconclusive("session driver failed rc=%d: %s" % (rc, (se or so)[-3000:]))
        lines += V.read_ndjson(fout)
    return lines


def validate(pid, lines, name):
    return V.validate_traces(pid, "Trace_Session", "Trace_Session.cfg", lines, lambda l: True, timeout=2400, name=name, xss="256m")
