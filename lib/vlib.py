"""Shared machinery of the /verif checks: TLC runs, trace validation, Go harness
builds, evidence files, known findings, verdicts.

Exit codes of a check: 0 = property held on everything explored (KNOWN-FINDING
lines may have been printed); 1 = VIOLATION (reproduced, real-code behaviour);
2 = inconclusive (tool failure, time-out, dead driver, vacuous run)."""
import json
import uuid
import os
import re
import shutil
import subprocess
import sys
import time
import concurrent.futures as cf

ROOT = os.path.dirname(os.path.dirname(os.path.abspath(__file__)))
SPEC = os.path.join(ROOT, "spec")
HARNESS = os.path.join(ROOT, "harness")
BUILD = os.path.join(ROOT, "build")
EVIDENCE = os.path.join(ROOT, "evidence")
REPO = os.environ.get("VERIF_REPO", "/repo")
NCPU = os.cpu_count() or 4

GOENV = {
    "GOFLAGS": "-mod=mod",
    "GOPROXY": "off",
    "GOSUMDB": "off",
    "GOTOOLCHAIN": "local",
}


class Inconclusive(Exception):
    pass


def log(*a):
    print(*a, flush=True)


def env_with(extra=None):
    e = dict(os.environ)
    e.update(GOENV)
    if os.environ.get("VERIF_COVER"):
        e["GOCOVERDIR"] = os.environ["VERIF_COVER"]
    if extra:
        e.update(extra)
    return e


# --------------------------------------------------------------------------
# scratch directories


TIER_SUB = ""     # set by Run: the quick and the thorough run of one property never share a working directory


def workdir(pid, name=None, clean=True):
    base = os.path.join(BUILD, pid, TIER_SUB) if TIER_SUB else os.path.join(BUILD, pid)
    d = base if name is None else os.path.join(base, name)
    if clean and os.path.isdir(d) and name is not None:
        shutil.rmtree(d, ignore_errors=True)
    os.makedirs(d, exist_ok=True)
    return d


def stage_spec(dst):
    """TLC litters its working directory; give every run a private copy of spec/."""
    os.makedirs(dst, exist_ok=True)
    for f in os.listdir(SPEC):
        if f.endswith((".tla", ".cfg")):
            shutil.copy(os.path.join(SPEC, f), os.path.join(dst, f))
    return dst


# --------------------------------------------------------------------------
# TLC

_RE_STATES = re.compile(r"(\d+) states generated, (\d+) distinct states found, (\d+) states left on queue")
_RE_DEPTH = re.compile(r"The depth of the complete state graph search is (\d+)")
_RE_HWM = re.compile(r'"HWM", (\d+)')
_RE_REJECT = re.compile(r'"REJECT", (\d+)(?:, "([^"]*)")?')
_RE_COV = re.compile(r"^<(\w+) line (\d+), col (\d+) to line (\d+), col (\d+) of module (\w+)>: (\d+):(\d+)", re.M)


class TlcResult:
    def __init__(self, rc, out, wall):
        self.rc = rc
        self.out = out
        self.wall = wall
        m = None
        for m in _RE_STATES.finditer(out):
            pass
        self.generated = int(m.group(1)) if m else 0
        self.distinct = int(m.group(2)) if m else 0
        self.queue = int(m.group(3)) if m else 0
        d = _RE_DEPTH.search(out)
        self.depth = int(d.group(1)) if d else 0
        self.completed = "Model checking completed. No error has been found." in out
        self.violated_invariant = None
        mi = re.search(r"Error: Invariant (\S+) is violated", out)
        if mi:
            self.violated_invariant = mi.group(1)
        self.violated_action_prop = re.search(r"Error: Action property (\S+) is violated", out) is not None
        self.violated_temporal = "Temporal properties were violated" in out or re.search(r"Temporal property \S+ was violated", out) is not None
        mt = re.search(r"Temporal property (\S+) was violated", out)
        self.violated_temporal_name = mt.group(1) if mt else None
        self.postcondition_false = "postcondition" in out.lower() and ("violated" in out.lower() or "false" in out.lower()) and not self.completed
        self.deadlock = "Error: Deadlock reached" in out
        h = None
        for h in _RE_HWM.finditer(out):
            pass
        self.hwm = int(h.group(1)) if h else None
        # an invariant violated while replaying a trace: the counterexample's last state gives
        # the position; the line consumed to reach it is l - 1
        self.trace_l = None
        if self.violated_invariant or self.violated_action_prop:
            ls = re.findall(r"^/\\ l = (\d+)", out, re.M)
            if ls:
                self.trace_l = int(ls[-1])
        rj = _RE_REJECT.findall(out)
        self.rejected_lines = sorted(set(int(x) for x, _ in rj))
        self.reject_reasons = {int(x): why for x, why in rj if why}     # a trace spec may say why (<<"REJECT", n, "reason">>)
        self.java_error = ("java.lang." in out and "Error" in out) or "Exception in thread" in out
        self.tlc_error = None
        me = re.search(r"^Error: (.*)$", out, re.M)
        if me:
            self.tlc_error = me.group(1)

    def action_coverage(self):
        """per-action (taken, distinct) counts from `-coverage`; keeps the last report."""
        cov = {}
        for m in _RE_COV.finditer(self.out):
            cov[m.group(1)] = (int(m.group(7)), int(m.group(8)))
        return cov

    def ok(self):
        return self.rc == 0 and self.completed

    def summary(self):
        return "rc=%d completed=%s generated=%d distinct=%d depth=%d err=%s" % (
            self.rc, self.completed, self.generated, self.distinct, self.depth, self.tlc_error)


def tlc(cwd, module, cfg, workers=None, timeout=600, simulate=None, depth=None, seed=None,
        dfs=False, coverage=False, extra_args=(), env=None, xss=None, heap=None, dump_dot=None):
    """Run TLC in `cwd` (a staged copy of spec/). Returns TlcResult. Never raises on a TLC
    'error' (that is data); raises Inconclusive on time-out."""
    meta = os.path.join(cwd, "meta-%s-%d-%s" % (module, int(time.time() * 1000) % 10**9, uuid.uuid4().hex[:8]))
    # TLC unpacks the standard modules into java.io.tmpdir on every run and leaves them there: it gets a directory of its
    # own, removed with the run's state directory
    jtmp = meta + "-tmp"
    os.makedirs(jtmp, exist_ok=True)
    args = ["java", "-XX:+UseParallelGC", "-Djava.io.tmpdir=" + jtmp]
    if heap:
        args.append("-Xmx" + heap)
    if xss:
        args.append("-Xss" + xss)
    if dfs:
        args.append("-Dtlc2.tool.queue.IStateQueue=StateDeque")
    args += ["-cp", "/opt/veriftools/tla/tla2tools.jar:/opt/veriftools/tla/CommunityModules-deps.jar", "tlc2.TLC"]
    args += ["-metadir", meta, "-config", cfg]
    args += ["-workers", str(workers if workers else "auto")]
    if simulate is not None:
        args += ["-simulate", simulate]
    if depth is not None:
        args += ["-depth", str(depth)]
    if seed is not None:
        args += ["-seed", str(seed)]
    if coverage:
        args += ["-coverage", "1"]
    if dump_dot:
        args += ["-dump", "dot,actionlabels", dump_dot]
    args += list(extra_args)
    args.append(module)
    t0 = time.time()
    e = dict(os.environ)
    e.pop("JAVA_TOOL_OPTIONS", None)
    if env:
        e.update(env)
    try:
        p = subprocess.run(args, cwd=cwd, env=e, stdout=subprocess.PIPE, stderr=subprocess.STDOUT,
                           timeout=timeout, text=True, errors="replace")
    except subprocess.TimeoutExpired:
        subprocess.run(["pkill", "-f", meta], check=False)
        raise Inconclusive("TLC timed out after %ds: %s %s" % (timeout, module, cfg))
    finally:
        shutil.rmtree(meta, ignore_errors=True)
        shutil.rmtree(jtmp, ignore_errors=True)
    return TlcResult(p.returncode, p.stdout, time.time() - t0)


def sany(cwd, module):
    p = subprocess.run(["java", "-cp", "/opt/veriftools/tla/tla2tools.jar:/opt/veriftools/tla/CommunityModules-deps.jar",
                        "tla2sany.SANY", module], cwd=cwd, stdout=subprocess.PIPE, stderr=subprocess.STDOUT, text=True)
    ok = p.returncode == 0 and "error" not in p.stdout.lower().replace("semantic errors: 0", "")
    return ok, p.stdout


def require_design_check(res, what, min_distinct=2):
    """A design check (TLC on the model alone) must complete without error; anything else
    is a specification problem -> inconclusive, never a verdict on the code."""
    if not res.ok():
        raise Inconclusive("design check %s did not pass: %s\n%s" % (what, res.summary(), res.out[-3000:]))
    if res.distinct < min_distinct:
        raise Inconclusive("design check %s is vacuous (%d distinct states)" % (what, res.distinct))


def require_no_zero_actions(res, what, allow=()):
    cov = res.action_coverage()
    zero = [a for a, (n, _d) in cov.items() if n == 0 and a not in allow]
    if zero:
        raise Inconclusive("design check %s: actions never taken (vacuous): %s" % (what, zero))
    return cov


# --------------------------------------------------------------------------
# trace validation: shards of ndjson validated by independent TLC processes


def split_trace(lines, nshards, reset_pred):
    """Split a list of ndjson lines into <= nshards lists, cutting only in front of lines for
    which reset_pred(line) holds (trace boundaries)."""
    starts = [i for i, l in enumerate(lines) if reset_pred(l)]
    if not starts or starts[0] != 0:
        starts = [0] + starts
    if len(starts) <= 1 or nshards <= 1:
        return [lines]
    per = max(1, len(lines) // nshards)
    shards, cur_start, nxt = [], 0, per
    for s in starts[1:]:
        if s >= nxt:
            shards.append(lines[cur_start:s])
            cur_start = s
            nxt = s + per
    shards.append(lines[cur_start:])
    return [s for s in shards if s]


class TraceVerdict:
    def __init__(self):
        self.lines = 0
        self.accepted_lines = 0
        self.shards = 0
        self.rejections = []   # dicts: shard file, line index in shard, line text, tlc tail
        self.states = 0
        self.wall = 0.0
        self.errors = []       # tool-level problems (inconclusive)


def validate_traces(pid, module, cfg, lines, reset_pred, nshards=None, timeout=900, dfs=False, xss="64m",
                    heap="3g", name="tv", extra_files=None):
    """Validate ndjson `lines` against trace spec `module` (which reads the file named by the
    TRACE environment variable, keeps the high-water mark of consumed lines in TLC register 1 and
    prints <<"HWM", n>> from its POSTCONDITION). Returns TraceVerdict."""
    v = TraceVerdict()
    v.lines = len(lines)
    if not lines:
        return v
    nshards = nshards or NCPU
    shards = split_trace(lines, nshards, reset_pred)
    v.shards = len(shards)
    base = workdir(pid, name)
    jobs = []
    for i, sh in enumerate(shards):
        d = stage_spec(os.path.join(base, "s%03d" % i))
        for fn, content in (extra_files or {}).items():
            with open(os.path.join(d, fn), "w") as f:
                f.write(content)
        tf = os.path.join(d, "trace.ndjson")
        with open(tf, "w") as f:
            f.write("\n".join(sh))
            f.write("\n")
        jobs.append((i, d, tf, sh))

    def run(job):
        i, d, tf, sh = job
        try:
            r = tlc(d, module, cfg, workers=1, timeout=timeout, dfs=dfs, xss=xss, heap=heap,
                    env={"TRACE": tf})
        except Inconclusive as ex:
            return (job, None, str(ex))
        return (job, r, None)

    t0 = time.time()
    with cf.ThreadPoolExecutor(max_workers=min(NCPU, len(jobs))) as ex:
        results = list(ex.map(run, jobs))
    v.wall = time.time() - t0
    for (i, d, tf, sh), r, err in results:
        if err:
            v.errors.append(err)
            continue
        v.states += r.distinct
        # stateless trace specs flag a failing line (<<"REJECT", n>>) and go on, so that every line is examined
        for n in r.rejected_lines:
            v.rejections.append({"shard": tf, "line_no": n, "why": "the line does not satisfy the specification",
                                 "reason": r.reject_reasons.get(n, ""),
                                 "line": sh[n - 1] if 0 < n <= len(sh) else None, "prev": [], "tlc_tail": ""})
        if r.ok() and (r.hwm is None or r.hwm >= len(sh) + 1):
            v.accepted_lines += len(sh) - len(r.rejected_lines)
            if not r.rejected_lines:
                shutil.rmtree(d, ignore_errors=True)
            continue
        if (r.violated_invariant or r.violated_action_prop) and r.trace_l:
            bad = r.trace_l - 1
            why = "invariant %s violated after this line" % (r.violated_invariant or "(action property)")
        elif r.hwm is None or r.java_error or (r.tlc_error and "postcondition" not in r.out.lower()):
            v.errors.append("trace validation shard %d: TLC failed: %s\n%s" % (i, r.summary(), r.out[-2500:]))
            continue
        else:
            bad = r.hwm  # 1-based index of the first line that could not be consumed
            why = "no spec step matches this line"
        v.accepted_lines += max(0, bad - 1)
        v.rejections.append({
            "shard": tf, "line_no": bad, "why": why,
            "line": sh[bad - 1] if 0 < bad <= len(sh) else None,
            "prev": sh[max(0, bad - 4):max(0, bad - 1)],
            "tlc_tail": r.out[-1500:],
        })
    return v


# --------------------------------------------------------------------------
# Go harness


def go_build(pid, cmd_pkg, tags=("verif",), race=False, out_name=None, timeout=900):
    """Build harness/cmd/<cmd_pkg> against the current /repo working tree."""
    sync_gosum()
    out_name = out_name or (cmd_pkg + ("-race" if race else "") + ("-" + "-".join(t for t in tags if t != "verif") if len(tags) > 1 else ""))
    out = os.path.join(workdir(pid, None, clean=False), out_name)
    args = ["go", "build", "-tags", ",".join(tags), "-o", out]
    if race:
        args.append("-race")
    if os.environ.get("VERIF_COVER"):
        # development aid (never set by registered commands): statement coverage of the library by the drivers,
        # written to the directory named by VERIF_COVER; read with `go tool covdata func -i=<dir>`
        args += ["-cover", "-coverpkg=all"]
    args.append("./cmd/" + cmd_pkg)
    t0 = time.time()
    p = subprocess.run(args, cwd=HARNESS, env=env_with(), stdout=subprocess.PIPE, stderr=subprocess.STDOUT, text=True,
                       timeout=timeout)
    if p.returncode != 0:
        raise Inconclusive("go build failed (%s):\n%s" % (" ".join(args), p.stdout[-4000:]))
    log("  built %s in %.1fs" % (out_name, time.time() - t0))
    return out


def sync_gosum():
    """harness/go.sum = /repo/go.sum + the cached harness-only modules (rapid)."""
    src = os.path.join(REPO, "go.sum")
    extra = os.path.join(HARNESS, "go.sum.extra")
    dst = os.path.join(HARNESS, "go.sum")
    want = open(src).read()
    if os.path.exists(extra):
        want += open(extra).read()
    if not os.path.exists(dst) or open(dst).read() != want:
        with open(dst, "w") as f:
            f.write(want)


def run_driver(binary, args, timeout=900, env=None, stdin=None, ulimit_v_kb=None):
    cmd = [binary] + list(args)
    pre = None
    if ulimit_v_kb:
        import resource

        def pre():
            resource.setrlimit(resource.RLIMIT_AS, (ulimit_v_kb * 1024, ulimit_v_kb * 1024))
    t0 = time.time()
    try:
        p = subprocess.run(cmd, cwd=HARNESS, env=env_with(env), stdout=subprocess.PIPE, stderr=subprocess.PIPE, text=True,
                           timeout=timeout, input=stdin, preexec_fn=pre, errors="replace")
    except subprocess.TimeoutExpired:
        raise Inconclusive("driver timed out after %ds: %s" % (timeout, " ".join(cmd)))
    return p.returncode, p.stdout, p.stderr, time.time() - t0


def read_ndjson(path):
    with open(path) as f:
        return [l.rstrip("\n") for l in f if l.strip()]


# --------------------------------------------------------------------------
# known findings


def load_known_findings(pid):
    out = {}
    p = os.path.join(ROOT, "known_findings.txt")
    if not os.path.exists(p):
        return out
    for l in open(p):
        l = l.strip()
        if not l.startswith("finding:"):
            continue
        m = re.match(r"finding:\s+property=(\S+)\s+key=(\S+)\s+(.*)$", l)
        if m and m.group(1) == pid:
            out[m.group(2)] = m.group(3)
    return out


# --------------------------------------------------------------------------
# verdicts and evidence


class Run:
    """Bookkeeping of one check run."""

    def __init__(self, pid, level, argv=None):
        import argparse
        ap = argparse.ArgumentParser()
        ap.add_argument("--tier", default=os.environ.get("VERIF_TIER", "quick"), choices=["quick", "thorough"])
        ap.add_argument("--seed", type=int, default=int(os.environ.get("VERIF_SEED", "1") or 1))
        ap.add_argument("--replay", default=None)
        ap.add_argument("--keep", action="store_true")
        a = ap.parse_args(argv)
        self.pid, self.level, self.tier, self.seed, self.replay = pid, level, a.tier, a.seed, a.replay
        self.t0 = time.time()
        self.violations = []   # dict(key, desc, replay)
        self.coverage = {}
        self.assumptions = []
        self.notes = []
        global TIER_SUB
        TIER_SUB = self.tier
        self.dir = workdir(pid, None, clean=False)
        for f in os.listdir(self.dir):
            if f.startswith("replay-%s-" % self.tier):
                os.unlink(os.path.join(self.dir, f))
        os.makedirs(EVIDENCE, exist_ok=True)

    def thorough(self):
        return self.tier == "thorough"

    def violation(self, key, desc, artefact):
        """Record a reproduced real-code violation. `artefact` (json-able) is saved as the replay file."""
        n = len(self.violations)
        path = os.path.join(self.dir, "replay-%s-%d.json" % (self.tier, n))
        with open(path, "w") as f:
            json.dump({"property": self.pid, "key": key, "desc": desc, "artefact": artefact}, f, indent=1, default=str)
        self.violations.append({"key": key, "desc": desc, "replay": path})

    def add_trace_rejections(self, v, keyfn, descfn=None):
        for r in v.rejections:
            key = keyfn(r)
            desc = (descfn(r) if descfn else None) or ("trace rejected by the specification at line %d (%s): %s" % (
                r["line_no"], r["why"], (r["line"] or "")[:300]))
            self.violation(key, desc, r)
        if v.errors:
            raise Inconclusive("trace validation had tool errors:\n" + "\n".join(v.errors)[:4000])

    def finish(self):
        known = load_known_findings(self.pid)
        new, old = [], []
        for v in self.violations:
            (old if v["key"] in known else new).append(v)
        seen = set()
        for v in old:
            if v["key"] in seen:
                continue
            seen.add(v["key"])
            log("KNOWN-FINDING: property=%s %s" % (self.pid, known[v["key"]]))
        ev = {
            "property_id": self.pid,
            "tier": self.tier,
            "seed": self.seed,
            "level": self.level,
            "coverage": self.coverage,
            "assumptions": self.assumptions,
            "wall_s": round(time.time() - self.t0, 2),
            "violations": len(new),
        }
        if old:
            ev["coverage"]["known_findings_observed"] = sorted(seen)
        if self.notes:
            ev["coverage"]["notes"] = list(self.notes)
        with open(os.path.join(EVIDENCE, self.pid + ".json"), "w") as f:
            json.dump(ev, f, indent=1, default=str)
        if new:
            shown = set()
            for v in new:
                if v["key"] in shown:
                    continue
                shown.add(v["key"])
                log("  violation [%s]: %s" % (v["key"], v["desc"][:600]))
                log("VIOLATION property=%s replay=%s" % (self.pid, v["replay"]))
            return 1
        log("OK property=%s tier=%s seed=%d wall=%.1fs" % (self.pid, self.tier, self.seed, time.time() - self.t0))
        return 0


def main(pid, level, body):
    """Entry point used by checks/<id>.py: runs body(run) and maps outcomes to exit codes."""
    run = Run(pid, level)
    try:
        body(run)
        rc = run.finish()
    except Inconclusive as ex:
        log("INCONCLUSIVE property=%s: %s" % (pid, ex))
        rc = 2
    sys.exit(rc)
