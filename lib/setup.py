#!/usr/bin/env python3
"""bin/setup: offline setup - tools present, every spec module parses, the harness compiles against /repo."""
import os, subprocess, sys, shutil
sys.path.insert(0, os.path.dirname(os.path.abspath(__file__)))
import vlib as V

def main():
    for tool in ("java", "go", "python3"):
        if not shutil.which(tool):
            print("missing tool", tool); sys.exit(1)
    for f in ("/opt/veriftools/tla/tla2tools.jar", "/opt/veriftools/tla/CommunityModules-deps.jar"):
        if not os.path.exists(f):
            print("missing", f); sys.exit(1)
    d = V.stage_spec(V.workdir("SETUP", "sany"))
    bad = 0
    for f in sorted(os.listdir(d)):
        if f.endswith(".tla"):
            ok, out = V.sany(d, f)
            if not ok:
                bad += 1
                print("SANY failed for", f); print(out[-1500:])
    if bad:
        sys.exit(1)
    V.sync_gosum()
    for tags in ("verif", "verif,purego"):
        p = subprocess.run(["go", "build", "-tags", tags, "-o", os.path.join(V.BUILD, "SETUP", "drv"), "./cmd/drv"],
                           cwd=V.HARNESS, env=V.env_with(), stdout=subprocess.PIPE, stderr=subprocess.STDOUT, text=True)
        if p.returncode != 0:
            print("harness does not build with -tags", tags); print(p.stdout[-3000:]); sys.exit(1)
    print("setup ok")

if __name__ == "__main__":
    main()
