"""Shared driver of the QueryLifecycle-based checks (C03, C04, C09, C10, C12): scenario
universe, behaviour generation with TLC, replay on the real client, trace validation."""
import json
import os
import random
import subprocess
import concurrent.futures as cf
import time

import vlib as V

ALL_CBS = ["result", "progress", "profile", "logs", "log", "pevents", "pevent"]
COMPRESSIONS = ["disabled", "lz4", "zstd", "none", "lz4hc"]
REVS = [54460, 54458, 54453, 54451, 54441, 54429,      # server revisions (negotiated = min(client 54460, server))
        54428, 54420, 54405, 54060, 54032, 54031, 51903, 51302, 50264, 50000]   # below 54429 the harness tokenises Query packets with a reader of its own


def P(k, n=0):
    return {"k": k, "n": n}


def S(*ks):
    return [P(k) if isinstance(k, str) else k for k in ks]


SELECT_OK = [S("eos"), S("hdr", "eos"), S("hdr", "data", "end", "eos"), S("hdr", "data", "data", "eos"),
             S("data", "totals", "end", "eos"), S("prog", "eos"), S("prog", "profile", "tcols", "eos"),
             S(P("log", 2), "eos"), S("hdr", P("pevents", 2), "data", "eos"),
             S("hdr", "prog", "data", P("log", 1), "prog", "data", "totals", "end", "profile", "eos")]
# Progress packets of every shape (N: 1 write-side counters only, 2 elapsed time only, 3 all zero)
SELECT_OK += [S("hdr", P("prog", 1), "data", P("prog", 3), P("prog", 2), "eos"), S(P("prog", 3), P("prog", 3), "eos"),
              S(P("prog", 2), "hdr", "prog", P("prog", 1), "eos")]
SELECT_EXC = [S("exc"), S("hdr", "exc"), S("hdr", "prog", "exc"), S("hdr", "data", "exc"), S("prog", "data", "exc")]
SELECT_FAULT = [S(), S("bad"), S("pong"), S("cut"), S("hdr", "trunc"), S("hdr", "garbage"), S("data", "cut"),
                S("eosEarly"), S("hdr", "data", "bad"), S("prog", "pong")]
INSERT_OK = [S("eos"), S("hdr", "eos"), S("hdr", "prog", "end", "eos"), S("prog", "hdr", "eos"), S("hdr", P("log", 1), "eos"),
             S("tcols", "hdr", "eos"), S("hdr", "prog", "profile", "eos"),
             # a server that repeats the header block: the column info arrives again while the sender uses the first
             S("hdr", "hdr", "eos"), S("hdr", "hdr", "hdr", "prog", "eos")]
INSERT_EXC = [S("exc"), S("hdr", "exc"), S("hdr", "prog", "exc")]
INSERT_FAULT = [S(), S("bad"), S("hdr", "pong"), S("cut"), S("hdr", "cut"), S("hdr", "trunc"), S("eosEarly"),
                S("hdr", "eosEarly")]


def Pl(op, ret):
    return {"op": op, "ret": ret}


PLANS_OK = [[], [Pl("keep", "eof")], [Pl("append", "eof")], [Pl("append", "nil"), Pl("reset", "eof")],
            [Pl("append", "nil"), Pl("reappend", "nil"), Pl("reset", "eof")],
            [Pl("append", "nil"), Pl("overwrite", "weof")], [Pl("reset", "nil"), Pl("append", "eof")],
            [Pl("append", "nil"), Pl("append", "nil"), Pl("overwrite", "nil"), Pl("reappend", "eof")],
            [Pl("reappend", "nil"), Pl("overwrite", "nil"), Pl("reset", "nil"), Pl("append", "weof")],
            [Pl("append", "nil"), Pl("keep", "nil"), Pl("keep", "eof")]]
PLANS_ERR = [[Pl("append", "err")], [Pl("reappend", "nil"), Pl("keep", "err")], [Pl("keep", "err")]]
PLANS_CANCEL = [[Pl("cancel", "nil"), Pl("keep", "eof")], [Pl("append", "nil"), Pl("cancel", "nil"), Pl("reset", "eof")],
                [Pl("append", "nil"), Pl("cancel", "eof")]]


def cfg(scn, script, plan=(), present=ALL_CBS, rfail=0, rcancel=0, init_rows=0, need_info=None, ext=False):
    if need_info is None:
        need_info = scn != "select"
    # ext: False | True (external data under a table name of the caller's) | "blank" (ExternalTable left to the library's default)
    return {"scn": scn, "needInfo": need_info, "ext": bool(ext), "extBlank": ext == "blank", "script": list(script), "plan": list(plan),
            "present": list(present), "rfail": rfail, "rcancel": rcancel, "initRows": init_rows}


def rand_ext(rng, p):
    return rng.choice([True, "blank"]) if rng.random() < p else False


def scenario(sid, c, sched="", break_at=-1, rev=54460, compression="disabled", otel=False, sweep="", stride=1, phase=0, rows_per=0):
    if c.get("ext") and rev < 50264:
        rev = 50264     # no table names (hence no external tables) in the protocol before that revision
    d = {"id": sid, "cfg": c, "breakAt": break_at, "sched": sched, "rev": rev, "compression": compression, "otel": otel}
    if rows_per:
        d["rowsPer"] = rows_per
    if sweep:
        d.update({"sweep": sweep, "stride": stride, "phase": phase})
    return d


# --------------------------------------------------------------------------------------
# behaviours from TLC


def tlc_behaviours(pid, cfgfile, num, seed, depth=90, workers=4):
    """Simulate MC_QL under Gen config `cfgfile`; returns list of (cfg, sched string)."""
    d = V.stage_spec(V.workdir(pid, "gen-" + cfgfile.replace(".cfg", "")))
    per = max(1, num // workers)
    res = V.tlc(d, "MC_QL", cfgfile, workers=workers, timeout=600, simulate="num=%d" % per, depth=depth, seed=seed)
    out = []
    for line in res.out.splitlines():
        if line.startswith('"{'):
            try:
                rec = json.loads(json.loads(line))
            except Exception:
                continue
            if rec.get("tag") != "BEH":
                continue
            sched = "".join(x for x in rec["hist"] if len(x) == 1)
            out.append((rec["cfg"], sched))
    if not out:
        raise V.Inconclusive("TLC produced no behaviours (%s): %s\n%s" % (cfgfile, res.summary(), res.out[-1500:]))
    return out, res


def from_tlc_cfg(c):
    """cfg record printed by TLC -> harness cfg (the abstract wbreak is refined by the caller)."""
    return {"scn": c["scn"], "needInfo": c["needInfo"], "ext": c["ext"], "script": c["script"], "plan": c["plan"],
            "present": sorted(c["present"]), "rfail": c["rfail"], "rcancel": c["rcancel"], "initRows": c["initRows"]}


# --------------------------------------------------------------------------------------
# schedules


def random_sched(rng, n, letters="SSSRRRWVVCT", p_cancel=0.3):
    ls = letters if rng.random() < p_cancel else letters.replace("C", "").replace("D", "")
    return "".join(rng.choice(ls) for _ in range(n))


# --------------------------------------------------------------------------------------
# running scenarios on the real client and validating the traces


def run_scenarios(pid, drv, scenarios, name="ql", nproc=None, timeout=1200, env=None):
    """Run scenarios through `drv lifecycle` in parallel processes; returns (trace lines, stats)."""
    nproc = nproc or V.NCPU
    d = V.workdir(pid, name)
    chunks = [scenarios[i::nproc] for i in range(nproc)]
    chunks = [c for c in chunks if c]
    jobs = []
    for i, ch in enumerate(chunks):
        fin = os.path.join(d, "sc%02d.ndjson" % i)
        fout = os.path.join(d, "tr%02d.ndjson" % i)
        with open(fin, "w") as f:
            for s in ch:
                f.write(json.dumps(s) + "\n")
        jobs.append((fin, fout))

    def one(job):
        fin, fout = job
        return V.run_driver(drv, ["lifecycle", "-in", fin, "-out", fout], timeout=timeout, env=env)

    t0 = time.time()
    with cf.ThreadPoolExecutor(max_workers=len(jobs)) as ex:
        results = list(ex.map(one, jobs))
    lines, stats = [], {"scenarios": 0, "lines": 0, "stuck": 0, "stderr": []}
    for (fin, fout), (rc, out, err, wall) in zip(jobs, results):
        if rc != 0:
            raise V.Inconclusive("lifecycle driver failed rc=%d: %s" % (rc, (err or out)[-3000:]))
        st = json.loads(out.strip().splitlines()[-1])
        for k in ("scenarios", "lines", "stuck"):
            stats[k] += st[k]
        if err.strip():
            stats["stderr"].append(err[-4000:])
        lines += V.read_ndjson(fout)
    stats["wall"] = time.time() - t0
    return lines, stats


def is_begin(line):
    return '"ev":"Begin"' in line[:4000] and line.find('"ev":"Begin"') >= 0 and json.loads(line).get("ev") == "Begin"


def fast_is_begin(line):
    # "ev":"Begin" only occurs in Begin lines; avoid json parsing of every line
    return '"ev":"Begin"' in line


def validate(pid, lines, name="tv", cfgfile="Trace_QL.cfg"):
    return V.validate_traces(pid, "Trace_QL", cfgfile, lines, fast_is_begin, timeout=1500, dfs=True, name=name)


def rejection_key(r, lines_of_shard=None):
    """Stable key of a rejected trace line: the kind of event and the role / observation it concerns."""
    try:
        ev = json.loads(r["line"])
    except Exception:
        return "ql:unparsable"
    k = ev.get("ev", "?")
    if k == "Move":
        return "ql:Move:%s:%s->%s" % (ev.get("role"), ev.get("from"), ev.get("to"))
    if k == "Next":
        return "ql:Next:" + ",".join(t["k"] for t in ev.get("wire", []))
    if k == "DoReturn":
        return "ql:DoReturn:err=%s,closed=%s" % (ev.get("err"), ev.get("closed"))
    if k == "Stuck" and "s" in ev:
        return "ql:Stuck:S=%s,R=%s,W=%s%s" % (ev.get("s"), ev.get("r"), ev.get("w"), ",cancelled" if ev.get("callerCancelled") else "")
    return "ql:" + k


def scenario_of_rejection(r):
    """Find the Begin line of the trace the rejected line belongs to (for the replay artefact)."""
    try:
        sh = V.read_ndjson(r["shard"])
    except Exception:
        return None
    i = r["line_no"] - 1
    while i >= 0:
        if fast_is_begin(sh[i]):
            return json.loads(sh[i])
        i -= 1
    return None


def replay_scenario(begin):
    """Scenario that reproduces a recorded run (used to re-run a rejected trace)."""
    c = dict(begin["cfg"])
    c.pop("wbreak", None)
    return {"id": begin["id"] + "#re", "cfg": c, "breakAt": begin.get("breakAt", -1), "sched": begin.get("sched", ""),
            "rev": begin.get("rev", 54460), "compression": begin.get("compression", "disabled"), "rowsPer": begin.get("rowsPer", 0),
            "breakBytes": begin.get("breakBytes", 0), "drainBreak": begin.get("drainBreak", False), "closeErr": begin.get("closeErr", False)}


def check_and_report(run, pid, drv, scenarios, name, keyprefix=""):
    """Run + validate; every rejection is re-run once from its recorded scenario and only reported
    when the re-run is rejected too. Returns (stats, verdict)."""
    lines, stats = run_scenarios(pid, drv, scenarios, name=name)
    v = validate(pid, lines, name="tv-" + name)
    V.log("  %s: %d scenarios, %d trace lines, %d accepted, %d rejected shards, drive %.1fs, validate %.1fs" % (
        name, stats["scenarios"], v.lines, v.accepted_lines, len(v.rejections), stats["wall"], v.wall))
    if v.errors:
        raise V.Inconclusive("trace validation tool errors:\n" + "\n".join(v.errors)[:3000])
    for r in v.rejections:
        begin = scenario_of_rejection(r)
        if begin is None:
            raise V.Inconclusive("cannot locate the scenario of a rejected line")
        # the scheduler makes a run deterministic up to what the goroutines do between two gates; a rejection is a
        # verdict only if the scenario is rejected again - it is re-run ten times
        sc = replay_scenario(begin)
        reps = []
        for k in range(10):
            t = dict(sc)
            t["id"] = "%s~%d" % (sc.get("id"), k)
            reps.append(t)
        # (two first: a deterministic rejection shows at once; the other eight only if those two were accepted)
        re_lines, _ = run_scenarios(pid, drv, reps[:2], name=name + "-rerun", nproc=1)
        v2 = validate(pid, re_lines, name="tv-" + name + "-rerun")
        if not v2.errors and not v2.rejections:
            re_lines, _ = run_scenarios(pid, drv, reps[2:], name=name + "-rerun", nproc=1)
            v2 = validate(pid, re_lines, name="tv-" + name + "-rerun")
        if v2.errors:
            raise V.Inconclusive("re-run validation tool errors: " + "\n".join(v2.errors)[:2000])
        if not v2.rejections:
            # not reproduced in ten re-runs: kept (with its trace) in the evidence, not a verdict on the code
            try:
                sh = V.read_ndjson(r["shard"])
                i = r["line_no"] - 1
                j = i
                while j > 0 and not is_begin(sh[j]):
                    j -= 1
                k = i
                while k + 1 < len(sh) and not is_begin(sh[k + 1]):
                    k += 1
                saved = os.path.join(V.workdir(pid, None, clean=False), "unreproduced-%s.ndjson" % begin.get("id"))
                with open(saved, "w") as f:
                    f.write("\n".join(sh[j:k + 1]) + "\n")
            except Exception:
                saved = "?"
            run.notes.append("rejection not reproduced in 10 re-runs of scenario %s (trace kept in %s): %s" % (begin.get("id"), saved, (r["line"] or "")[:200]))
            V.log("  NOTE: the rejection of scenario %s was not reproduced in 10 re-runs; its trace is kept in %s" % (begin.get("id"), saved))
            continue
        r2 = v2.rejections[0]
        key = keyprefix + rejection_key(r2)
        desc = "scenario %s (sched=%r, breakAt=%s, compression=%s): the specification rejects line %d (%s): %s" % (
            begin.get("id"), begin.get("sched"), begin.get("breakAt"), begin.get("compression"), r2["line_no"], r2["why"],
            (r2["line"] or "")[:400])
        run.violation(key, desc, {"scenario": replay_scenario(begin), "trace": re_lines, "rejected_line": r2["line"],
                                  "line_no": r2["line_no"], "why": r2["why"], "tlc_tail": r2["tlc_tail"]})
    return lines, stats, v


# --------------------------------------------------------------------------------------
# design checks shared by the QueryLifecycle properties


def design(pid, cfgs, nonvac=(), liveness=False):
    """Run TLC on MC_QL under each cfg (must pass); `nonvac` lists (cfg, property) pairs that must FAIL
    with exactly that invariant or temporal property (the model with the repairs switched off)."""
    d = V.stage_spec(V.workdir(pid, "mc"))
    st = {"states": 0, "transitions": 0, "cfgs": {}}
    for c in cfgs:
        r = V.tlc(d, "MC_QL", c, workers=V.NCPU, timeout=3000, heap="12g")
        V.require_design_check(r, c, 1000)
        st["states"] += r.distinct
        st["transitions"] += r.generated
        st["cfgs"][c] = {"distinct": r.distinct, "generated": r.generated, "depth": r.depth, "wall_s": round(r.wall, 1)}
        V.log("  design %s: %d distinct / %d generated states, depth %d, %.1fs" % (c, r.distinct, r.generated, r.depth, r.wall))
    for c, inv in nonvac:
        r = V.tlc(d, "MC_QL", c, workers=V.NCPU, timeout=1200, heap="8g")
        if r.violated_invariant != inv and r.violated_temporal_name != inv:
            raise V.Inconclusive("non-vacuity config %s did not violate %s: %s" % (c, inv, r.summary()))
        st["cfgs"][c] = {"violates_as_intended": inv}
    return st


def executed_sched(run_lines):
    """The schedule a recorded run actually executed (roles, time-outs, environment moves)."""
    out = []
    for l in run_lines:
        e = json.loads(l) if isinstance(l, str) else l
        if e.get("ev") == "Move":
            out.append("T" if e.get("timeout") else e["role"])
        elif e.get("ev") == "Env":
            out.append(e["a"])
    return "".join(out)


def split_runs(lines):
    runs, cur = [], []
    for l in lines:
        if fast_is_begin(l) and cur:
            runs.append(cur)
            cur = []
        cur.append(l)
    if cur:
        runs.append(cur)
    return runs


def first_sample(lines):
    sample = []
    for l in lines:
        if fast_is_begin(l) and sample:
            break
        sample.append(json.loads(l))
    return sample


def fill_coverage(run, st, stats, v, lines, families):
    run.coverage.update({
        "states": st["states"], "transitions": st["transitions"], "design_configs": st["cfgs"],
        "traces_validated_against_impl": stats["scenarios"],
        "trace_lines": v.lines, "trace_lines_accepted": v.accepted_lines,
        "scenarios_submitted": families,
        "samples": [first_sample(lines)],
    })
    run.assumptions += [
        "goroutines are observed at the verif hook points and at Read calls of the in-memory connection; code between two gates is one atomic step of the model",
        "the in-memory connection stands for TCP: a broken write direction accepts a prefix and then fails every write; a locally closed connection fails reads",
        "client packets are tokenised with ch-go's own decoders (their exact layout is the subject of C02)",
        "TLC 1.8.0 evaluates the specification correctly",
    ]


# --------------------------------------------------------------------------------------
# free-running runs (no gates, no hooks): outcomes must be reachable in the model


def outcome_reachability(pid, outcomes, name="outcome"):
    """For every distinct (configuration, outcome) TLC searches QueryLifecycle.tla (Outcome_QL.tla) for a returned
    state with the observed error class, closed flag, callback log (and wire, when recorded).
    Returns (number of distinct pairs, list of (event, verdict) that are not reachable)."""
    distinct = {}
    for e in outcomes:
        if e.get("startClosed"):
            continue   # judged by Trace_SessionSeq: nothing of the model runs
        k = json.dumps([e["cfg"], e["err"], e["closed"], e["cbs"], e.get("wire"), e["foreignCloseAsked"], e["cancelAsked"]], sort_keys=True)
        distinct.setdefault(k, e)
    d = V.stage_spec(V.workdir(pid, name))

    def reach(item):
        i, e = item
        if e["stuck"]:
            return e, "stuck"
        tf = os.path.join(d, "o%05d.ndjson" % i)
        with open(tf, "w") as f:
            f.write(json.dumps(e) + "\n")
        cancel = e["cancelAsked"] or e["cfg"]["rcancel"] or any(p["op"] == "cancel" for p in e["cfg"]["plan"])
        cfgf = "Outcome_QL_c%s_f%s.cfg" % ("TRUE" if cancel else "FALSE", "TRUE" if e["foreignCloseAsked"] else "FALSE")
        r = V.tlc(d, "Outcome_QL", cfgf, workers=1, timeout=900, env={"TRACE": tf})
        if r.violated_invariant == "NotObserved":
            return e, "reachable"
        if r.completed:
            return e, "unreachable"
        return e, "tlc: " + r.summary()
    with cf.ThreadPoolExecutor(max_workers=V.NCPU) as ex:
        verdicts = list(ex.map(reach, enumerate(distinct.values())))
    bad = []
    for e, vd in verdicts:
        if vd == "reachable":
            continue
        if vd.startswith("tlc"):
            raise V.Inconclusive("outcome reachability search failed: %s" % vd)
        bad.append((e, vd))
    return len(distinct), bad


def free_sessions(run, pid, drv, sessions, name="sessions"):
    """Several requests on one client, free-running (lib: RunFreeSession): per request the outcome and the packets it
    wrote must be reachable in QueryLifecycle.tla from a fresh query state; the chain of requests is validated by
    Trace_SessionSeq.tla."""
    wd = V.workdir(pid, name)
    nproc = 4
    jobs = []
    for i in range(nproc):
        part = sessions[i::nproc]
        if not part:
            continue
        fin = os.path.join(wd, "in%02d.ndjson" % i)
        with open(fin, "w") as f:
            f.write("\n".join(json.dumps(c) for c in part) + "\n")
        jobs.append((fin, os.path.join(wd, "out%02d.ndjson" % i)))
    with cf.ThreadPoolExecutor(max_workers=len(jobs)) as ex:
        res = list(ex.map(lambda j: V.run_driver(drv, ["free", "-in", j[0], "-out", j[1], "-par", "4"], timeout=2400), jobs))
    lines = []
    for j, (rc, so, se, wall) in zip(jobs, res):
        if rc != 0:
            raise V.Inconclusive("free driver failed rc=%d: %s" % (rc, (se or so)[-3000:]))
        lines += V.read_ndjson(j[1])
    outs = [json.loads(x) for x in lines]
    ndist, bad = outcome_reachability(pid, outs, name=name + "-reach")
    for e, vd in bad:
        key = "session:%s:%s:%s" % (e["cfg"]["scn"], e["err"], "closed" if e["closed"] else "open")
        run.violation(key, "request %d of session %s (script %s, cancel=%s, foreignClose=%s) ended in err=%s closed=%s callbacks=%s wire=%s%s - QueryLifecycle.tla cannot reach that from an open client at a packet boundary" % (
            e["seq"], e.get("session"), [i["k"] for i in e["cfg"]["script"]], e["cancelAsked"], e["foreignCloseAsked"], e["err"], e["closed"],
            [(c["cb"], c["id"]) for c in e["cbs"]], [t["k"] for t in e.get("wire", [])], " (stuck: %s)" % e["stuck"] if e["stuck"] else ""), e)
    # the chain: lines of one session are consecutive, in order
    v = V.validate_traces(pid, "Trace_SessionSeq", "Trace_SessionSeq.cfg", lines, lambda l: '"seq":1,' in l or l.rstrip().endswith('"seq":1}'), timeout=900,
                          name="tv-" + name, nshards=4)
    run.add_trace_rejections(v, lambda rj: "session:chain", lambda rj: "requests of one session do not chain (a request on a closed client must fail with the closed error, run no callback and write nothing): %s" % (rj["line"] or "")[:300])
    V.log("  %d free-running sessions, %d requests, %d distinct (configuration, outcome, wire) triples: %d not reachable; chain: %d lines, %d rejected" % (
        len(sessions), len(outs), ndist, len(bad), v.lines, len(v.rejections)))
    return outs
