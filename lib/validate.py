#!/usr/bin/env python3
"""Validate MANIFEST.json and evidence/*.json against the schemas (needs python3-vt's jsonschema)."""
import json, sys, glob, jsonschema
jsonschema.validate(json.load(open('/verif/MANIFEST.json')), json.load(open('/root/.vp/MANIFEST.schema.json')))
es = json.load(open('/root/.vp/EVIDENCE.schema.json'))
for f in sorted(glob.glob('/verif/evidence/*.json')):
    jsonschema.validate(json.load(open(f)), es)
    print('ok', f)
print('manifest ok')
