"""Shared driver of the codec checks (C01, C07, C15, C16, C14 path equivalence): runs `drv codec` shards in
parallel against the current /repo tree (default or purego build) and validates the traces with Trace_Wire."""
import json
import os
import concurrent.futures as cf
import time

import vlib as V


def design(pid, cfg="MC_Wire.cfg", timeout=3000):
    d = V.stage_spec(V.workdir(pid, "mc"))
    r = V.tlc(d, "MC_Wire", cfg, workers=V.NCPU, timeout=timeout, heap="8g", xss="256m")
    V.require_design_check(r, "Wire lemma " + cfg, 50)
    V.log("  design %s (RoundTrip + PrefixFree of the format): %d cases, %.1fs" % (cfg, r.distinct, r.wall))
    return {"states": r.distinct, "transitions": r.generated, "cfg": cfg}


def run_codec(pid, drv, name, args, nshard=None, timeout=1800):
    nshard = nshard or V.NCPU
    wd = V.workdir(pid, name)
    jobs = [(i, os.path.join(wd, "t%02d.ndjson" % i)) for i in range(nshard)]

    def one(job):
        i, out = job
        return V.run_driver(drv, ["codec", "-out", out, "-shard", str(i), "-nshard", str(nshard)] + args, timeout=timeout)
    t0 = time.time()
    with cf.ThreadPoolExecutor(max_workers=nshard) as ex:
        res = list(ex.map(one, jobs))
    lines, blocks = [], 0
    for (i, out), (rc, so, se, wall) in zip(jobs, res):
        if rc != 0:
            raise V.Inconclusive("codec driver failed rc=%d: %s" % (rc, (se or so)[-3000:]))
        blocks += json.loads(so.strip().splitlines()[-1])["blocks"]
        lines += V.read_ndjson(out)
    return lines, blocks, time.time() - t0


def validate(pid, lines, name, big=False):
    return V.validate_traces(pid, "Trace_Wire", "Trace_Wire.cfg", lines, lambda l: True, timeout=2400, name=name,
                             xss="1g" if big else "256m", heap="6g" if big else "3g")


def rejection_key(r):
    try:
        e = json.loads(r["line"])
    except Exception:
        return "wire:?"
    ev = e.get("ev")
    if ev == "Block":
        if e.get("encodeErr"):
            return "wire:encode-error:" + e["cols"][0]["tname"].split("(")[0]
        names = "|".join(c["tname"] for c in e["cols"])
        what = []
        if e["typed"].get("err"):
            what.append("typed-decode-error")
        if e.get("reused", {}).get("err"):
            what.append("reused-decode-error")
        if any(not a["equal"] or not a["prefixKept"] for a in e.get("alts", [])):
            what.append("paths-differ:" + ",".join(a["mode"] for a in e["alts"] if not a["equal"] or not a["prefixKept"]))
        au = e.get("auto", {})
        if not au.get("inferError") and (au.get("err") or au.get("reencode") or au.get("reencodeEqual") is False):
            what.append("auto-decode")
        return "wire:Block:%s:%s" % (names[:80], ";".join(what) or "values")
    if ev == "Decode":
        return "wire:Decode:%s" % e.get("tname")
    if ev == "Prefix":
        return "wire:Prefix:%s" % e.get("tname", "?")
    if ev == "BigColumn":
        return "wire:BigColumn:%s" % e.get("tname", "?")
    return "wire:" + str(ev)


def describe(r):
    try:
        e = json.loads(r["line"])
    except Exception:
        return None
    if e.get("ev") == "Block":
        return "block of %s (%d rows, revision %s): encodeErr=%r typedErr=%r paths=%s auto=%s" % (
            [c["tname"] for c in e["cols"]], e["rows"], e["rev"], e.get("encodeErr"), e["typed"].get("err"),
            [(a["mode"], a["equal"]) for a in e.get("alts", [])], {k: v for k, v in e.get("auto", {}).items() if k in ("err", "inferError", "reencodeEqual")})
    if e.get("ev") == "BigColumn":
        return "column %s of %d rows (%d bytes) decoded and encoded again: err=%r rows read %s, digests %s -> %s (rows %s -> %s)" % (
            e.get("tname"), e.get("rows"), e.get("bytes"), e.get("err"), e.get("rowsOut"), e.get("inSum"), e.get("outSum"), e.get("rowsSumIn"), e.get("rowsSumOut"))
    if e.get("ev") == "Decode":
        return "DecodeColumn(%s, %d rows) of bytes %s...: err=%r reusedErr=%r" % (e.get("tname"), e.get("rows"), e.get("bytes", [])[:12], e.get("err"), e.get("reusedErr"))
    return None


def sample_of(lines, n=2):
    out = []
    for l in lines[:n]:
        e = json.loads(l)
        if "bytes" in e and len(e["bytes"]) > 80:
            e["bytes"] = e["bytes"][:80] + ["..."]
        out.append(e)
    return out
