#!/usr/bin/env python3
"""Regenerates /verif/MANIFEST.json from the table below (single source of truth for the interface)."""
import json, os, subprocess
ROOT = os.path.dirname(os.path.dirname(os.path.abspath(__file__)))
props = [json.loads(l) for l in open(os.path.join(ROOT, "properties.jsonl"))]

HOOK_COMMITS = ["cbbf2a7", "00ee6c3", "aa3601d"]

CHECKS = {
 "C04": dict(engine="QueryLifecycle", category="model_checking", design_ref="DESIGN.md §5 C04",
   technique="TLA+ model of Do (TLC exhaustive at bounded scripts) + deterministic gate-by-gate replay of TLC-generated and enumerated schedules on the real client, each recorded step validated by TLC (trace validation)",
   text="TLC checks PacketBoundary / NoStaleOutput / CleanSuccess on every interleaving of sender, receiver and cancel-watch for the bounded script universe; the real client is then driven through model-generated schedules, exceptions before/after every client step, write breaks and server cuts at every byte offset, failing callbacks, and every recorded step must be a step of the specification with the observed wire tokens, closed flag and next-request bytes. In addition 160 (quick) / 1200 (thorough) free-running sessions of 2-4 requests on one client (results, exceptions, inserts, faults that close it, cancellation, a foreign Close, the same result columns bound again): TLC searches the model for every request's outcome and the packets it wrote (Outcome_QL.tla) and validates the chain of requests (Trace_SessionSeq.tla: a closed client stays closed and refuses without writing).",
   note="Trusted: TLC; the gate scheduler (verif hooks are the only interleaving points observed); the in-memory connection as a stand-in for TCP; ch-go's own decoders used to tokenise client output."),
 "C01": dict(engine="Wire", category="model_checking", design_ref="DESIGN.md §5 C01",
   technique="TLA+ functional specification of the native column/block format used as the independent reference decoder: TLC decodes the bytes the real encoders produced and compares with the logical contents and with what the real decoders returned (trace validation); design lemma (decoder inverts an independently written encoder, prefix-freeness) model-checked on a type universe to depth 3",
   text="~190 (quick) / ~500 (thorough) column types - 32 base kinds (incl. the inferring enum column and JSON-as-string) under Array / Nullable / LowCardinality / Map / Tuple to depth 2 / 3 - with random and boundary values, 5-6 protocol revisions around the block-affecting features, default and purego builds, every encoding path (EncodeBlock into empty and pre-filled buffers, WriteBlock+Flush, encoding the same objects twice), typed decode into fresh and reused targets and inferred decode; boundary blocks (strings of 127..16385 bytes, dictionaries of 254..257 and 65534..65537 values). Every block is one trace line validated by TLC against Wire.tla.",
   note="Trusted: TLC; the harness' Go-value <-> raw-bytes conversion (encoding/binary); scalar values are opaque byte strings for the specification (their meaning is C20's subject); compositions the Go generics cannot express (Array(Tuple), LowCardinality(Nullable)) are not built."),
 "C02": dict(engine="Messages", category="model_checking", design_ref="DESIGN.md §5 C02",
   technique="the client's whole byte stream of a query parsed by TLC with the TLA+ field tables (Messages.tla: Query packet byte-exact) and the Wire.tla block decoder (Data packets, frames), recorded from real Dial+Do sessions (trace validation)",
   text="500 (quick) / 6000 (thorough) sessions over every representative negotiated revision 50000..54500 and all five compression settings with varied ids, bodies, connection- and query-level settings, parameters, secret, quota key, external data and 1-4 input rounds: TLC requires the bytes to be exactly one Query packet (= EncMsg of the caller's fields), the external block and a terminator, the input blocks in order and a terminator, each block one Data packet in one verified frame iff compression is on, and nothing else.",
   note="Trusted: TLC; third-party CityHash/LZ4/ZSTD in the harness; library-chosen ClientInfo values (name, version, address, start time) are read back from the packet; below revision 54429 the scripted server reads Query packets with a reader of the harness's own (the library's decoder refuses them)."),
 "C03": dict(engine="QueryLifecycle", category="model_checking", design_ref="DESIGN.md §5 C03",
   technique="TLA+ model of Do's receive loop (TLC exhaustive over bounded scripts) + scripted server streams replayed on the real client, callbacks and returned exception chain validated step by step by TLC (trace validation)",
   text="TLC checks Delivered (callback log = exactly the callbacks the consumed packets call for, in order), NilOnlyAfterEos and ExcReturned on the model; random well-formed scripts up to length 12 (quick) / 30 (thorough), every callback present or absent, a failing callback at every position, all compression modes and several revisions run on the real client; each receiver step's callbacks (with the script item whose rows the bound columns hold), the error class, the recovered exception chain and errors.Is for every code are validated against the specification.",
   note="Trusted: TLC; the scripted server encodes packets with ch-go's own encoders (their layout is C17's subject); recording callbacks identify a block by its rows."),
 "C05": dict(engine="Frames", category="model_checking", design_ref="DESIGN.md §5 C05",
   technique="TLA+ model of the compressed-frame reader over abstract streams with classified alterations (TLC exhaustive) + concrete streams (every payload length, method, builder; every single-byte alteration and every cut offset; forged size fields) read back through compress.Reader / proto.Reader, every Read validated by TLC (trace validation)",
   text="TLC checks OnlyVerified, Ordered and RoundTrip over all streams of up to 3 frames with any alteration class and all read-size sequences; on the real reader every payload length up to 600 (quick) / 4096 (thorough) plus MiB payloads, all methods and LZ4HC levels, frames built by compress.Writer and by an independent builder, every single-byte alteration at every offset (2-4 masks), every cut position and forged size fields are read with many read sizes, continuing after errors; each Read's byte count, origin of the bytes and error class (CorruptedDataErr with both checksums when the lengths are intact) is validated, as is the header of every frame compress.Writer produces.",
   note="Trusted: TLC; go-faster/city, pierrec/lz4, klauspost/compress called directly by the harness (not specified in TLA+); the harness' search for where returned bytes occur in the known payloads."),
 "C07": dict(engine="Wire", category="fault_enumeration", design_ref="DESIGN.md §5 C07",
   technique="prefix-freeness lemma of the TLA+ wire specification (TLC) + every proper prefix of every encoded block decoded by the library (typed, inferred, inside a compressed frame); accepted cuts are judged by the specification (trace validation)",
   text="For every block of C01's universe (depth 2 quick / 3 thorough, default and purego builds) every cut position 0..len-1 is decoded three ways (~3*10^5 prefix decodes quick); TLC requires every cut the library accepted to be one the format itself cannot distinguish, and evaluates the specification's own verdict at random cuts.",
   note="Trusted: TLC; blocks above 20000 bytes are cut at sampled positions only (their ends, around every MiB, a stride; one such block ends in a string beyond 1 MiB), frames above 600 bytes are cut at 600 positions; protocol-message prefixes are covered by C17's check once registered."),
 "C09": dict(engine="QueryLifecycle", category="model_checking", design_ref="DESIGN.md §5 C09",
   technique="TLA+ model of Do's send loop with input-contents versions (TLC exhaustive) + every bounded OnInput history executed on the real client with snapshots taken inside the callback, wire blocks matched to snapshots and validated by TLC (trace validation)",
   text="Every OnInput history up to 2 (quick) / 3 (thorough) nil-returning calls followed by a terminal call, over keep/append/reset/reset+append/overwrite-in-place and nil/io.EOF/wrapped io.EOF/error, initial rows zero or not, with a zero-copy and a copying column, across compression modes; TLC validates that block k on the wire holds the contents of round k, exactly one terminator follows, leftover rows are sent, errors stop the stream. Blocks of 12 000 incompressible rows (compressed frames beyond 64 KiB) are included, last before the terminator and mid-stream.",
   note="Trusted: TLC; blocks on the wire are decoded with ch-go's decoders and matched to harness snapshots by value."),
 "C10": dict(engine="QueryLifecycle", category="model_checking", design_ref="DESIGN.md §5 C10",
   technique="TLA+ model of Do with cancellation/deadline enabled in every state (TLC safety + liveness under fairness) + cancellation injected after every prefix of every recorded schedule on the real client, validated by TLC (trace validation)",
   text="TLC checks CancelReturnsCtx, CancelCloses, CancelPacketOnce, NoOrphans and the liveness property Returns; on the real client a cancellation or deadline expiry is injected at every gate of every baseline run (and from inside callbacks); the bytes written by the cancel-watch, Close calls, errors.Is against the context's error and leftover library goroutines are validated against the specification. The wall-clock bound is checked on free-running runs: the server falls silent, the caller cancels 0.3 / 3 / 12 ms into the query, with and without a deadline an hour away on its context, and Do must return the context's error with the client closed within ReadTimeout (2 ms) + 4 s (Trace_Prompt.tla: the fairness assumption of the liveness proof as an obligation of the code).",
   note="Trusted: TLC; gate scheduler; cancellation inside a blocking conn.Read is represented by the gated in-memory connection."),
 "C11": dict(engine="Pool", category="model_checking", design_ref="DESIGN.md §5 C11",
   technique="TLA+ model of chpool over an abstract puddle (TLC exhaustive at 2-3 users) + operation histories (exhaustive to a bound, TLC-generated, random, with real short lifetimes) replayed on a real pool over in-memory connections, every recorded operation validated by TLC, which infers puddle's unobservable asynchronous steps (trace validation)",
   text="TLC checks OneHolder, MaxConns, NoDeadIdle, NoPanic, HeldIsAcquired, PermitsSane, AllClosedAfterClose and ReleaseIdempotent; on the real pool every operation sequence of length 3 (quick) / 4 (thorough) for two users over one connection, TLC-simulated behaviours and random histories with time passing are replayed; which connection a handle got and which served its request, errors, panics (also in foreign goroutines: the process dying is isolated per history), puddle's Stat(), closed connections, ages and idle times are validated.",
   note="Trusted: TLC; the scripted per-connection servers; ages measured by the harness before and after each operation (a decision inside a 15 ms band around the limits is accepted either way); interleaving is at operation granularity (concurrent use: C12)."),
 "C15": dict(engine="Wire", category="translation_validation", design_ref="DESIGN.md §5 C15",
   technique="both builds bound to the same deterministic TLA+ specification (Wire.tla) by trace validation on identical seeded inputs, plus a line-by-line diff of the two transcripts",
   text="The 35 dual-variant codecs x blocks encoded by every path and decoded into fresh and used-then-reset targets, DecodeColumn on arbitrary bytes - every byte value for 8-bit kinds, every 16-bit value for 16-bit kinds - in a `-tags verif` and a `-tags verif,purego` binary; each trace validated by TLC, then the traces compared.",
   note="Trusted: TLC; error texts are not compared, only presence of an error; decoding into a non-empty column is out of scope as the property states."),
 "C16": dict(engine="ColumnHistory", category="model_checking", design_ref="DESIGN.md §5 C16",
   technique="TLA+ list-of-values model of a reused column (TLC exhaustive to 7 operations, with a stale-dictionary variant for non-vacuity) + every bounded operation history executed on real column objects, replayed by TLC in the model with every encode output decoded by the Wire.tla reference decoder (trace validation)",
   text="24 column kinds (all with hidden state and representatives of the others) x every history of length 3 (quick) / 4 (thorough) over 10 operations plus random histories up to 45 operations, default and purego builds; after every operation the row count, and for every encode the bytes, are validated against the model's current contents.",
   note="Trusted: TLC; decode is exercised only into empty (fresh or reset) columns; valid decode input is produced by a fresh column's encoder (validated by C01)."),
 "C17": dict(engine="Messages", category="model_checking", design_ref="DESIGN.md §5 C17",
   technique="TLA+ field tables of every protocol message with an independent table of feature revisions (TLC: encoding changes only at thresholds, over every revision) + byte-exact comparison by TLC of what the library's EncodeAware produced with EncMsg of the specification, decode-back and prefix refusal (trace validation)",
   text="Nine message kinds with random field values at every representative revision (quick: each threshold, both neighbours, interval midpoints; thorough: literally every revision 50000..54500, default and purego builds): TLC requires bytes = EncMsg(kind, rev, fields), every present field returned by DecodeAware with nothing left over, every proper prefix refused.",
   note="Trusted: TLC; integers are handed to the specification in wire form produced with encoding/binary; the library's documented decode refusals are excluded from the decode half."),
 "C13": dict(engine="Handshake", category="model_checking", design_ref="DESIGN.md §5 C13",
   technique="TLA+ model of Dial/Connect/handshake (TLC over revision pairs x server behaviours, with pinned-code variants for non-vacuity) + real ch.Dial runs against scripted server behaviours with real (short) time-outs, validated by TLC with the Messages.tla tables (trace validation)",
   text="Client x server revision pairs over the representatives of every feature interval (quick: diagonal band + sample, thorough: all pairs) x {hello, late hello, exception, other packet, garbage, cut, truncated hello, stall} x credential strings: the hello bytes, the addendum iff min(client, server) has it, the reported server identity, the error carrying the exception, no usable client and a closed dialed connection on failure; a late hello within the handshake time-out must be accepted. Successful handshakes are followed by a query parsed at the negotiated revision.",
   note="Trusted: TLC; real timers with margins (read 40 ms, handshake 600 ms, late hello 110 ms); the harness Dialer makes Close of the dialed connection observable."),
 "C18": dict(engine="Types", category="model_checking", design_ref="DESIGN.md §5 C18",
   technique="TLA+ specification of result binding (Types!BindStep, a state machine over the targets' names and held data; TLC exhaustive over small target lists and block sequences) + real proto.Block.DecodeBlock into real caller columns for random (targets, block sequence) cases, each block validated by TLC (trace validation)",
   text="TLC checks OwnPosition, OnlyMatching, NameKept and RefusedBindsNoLater on the binding state machine; on the real decoder 24 000 (quick) / 200 000 (thorough) cases - equal, blank names, permuted, renamed, extra / missing targets, a type swapped for every other kind, no targets, zero-row header blocks, later blocks with a changed schema, inferable enum / DateTime64 targets - are validated block by block: accepted iff the specification binds it, names as specified, every target holds its own column's data, its previous contents or nothing.",
   note="Trusted: TLC; the harness identifies what a target holds by re-encoding it and comparing with the block's columns; the error text is not inspected."),
 "C19": dict(engine="Types", category="model_checking", design_ref="DESIGN.md §5 C19",
   technique="TLA+ definition of type compatibility on type ASTs (Types!Compatible; reflexivity, symmetry and the documented equivalences checked by TLC as ASSUMEs over a universe of ASTs) + ColumnType.Conflicts on ordered pairs of rendered types and ColAuto.Infer on well-formed and malformed strings, each answer validated by TLC against the relation (trace validation)",
   text="~330 types (every base family with parameterisations under Array / Nullable / LowCardinality / Map / Tuple): Conflicts in both orders for the diagonal plus 60 000 sampled ordered pairs (quick) / all ~110 000 ordered pairs (thorough), in both comma spacings, must equal the complement of Compatible; Infer on every type in both spacings must give an error or a non-conflicting column that decodes and re-encodes a block of that type; every token sequence up to length 4 (quick, ~2*10^5 strings) / 5 (thorough, ~4*10^6) plus deep nesting and byte noise must return without panic.",
   note="Trusted: TLC; the harness' rendering of ASTs to type names; malformed strings are checked for totality only."),
 "C20": dict(engine="Calendar", category="model_checking", design_ref="DESIGN.md §5 C20",
   technique="TLA+ definition of the proleptic Gregorian calendar, instants, civil times in fixed-offset zones, tick arithmetic and interval addition (lemmas checked by TLC over every day 1900..2299) + every conversion call of the library recorded as one trace line and judged by TLC against it (trace validation)",
   text="TLC proves the calendar lemmas (day number <-> date inverse for all 146 097 days, consecutive days, instants <-> civil times in every zone, quarter = 3 months); on the library: ToDate/Date.Time for all 65 536 days and ToDate32/Date32.Time for all days 1900-01-01..2299-12-31 with a time of day and a zone -12h..+14h each (thorough: 8 variants per day), DateTime over boundary + 160 000 random seconds, DateTime64 at each precision 0..9 over range ends, epoch, 64-bit nanosecond ends and 14 000 random instants with boundary fractions, raw DateTime64 values to times, the four time columns with a location through Append, AppendArr and Array(T), Interval.Add for every scale, wide-integer constructors / column encodings and IPv4/IPv6 conversions (~850 000 lines quick, ~7 million thorough).",
   note="Trusted: TLC; Go's time package for building inputs from civil fields and reading the fields of results (recomputed independently by the specification); the harness' 64-bit floor division that splits values into [days, second, fraction]. DateTime's 2^32 seconds and IPv4's 2^32 values are sampled, not enumerated. Known finding F-17 (a quarter is added as four months) is listed in known_findings.txt."),
 "C08": dict(engine="Segmentation", category="model_checking", design_ref="DESIGN.md §5 C08",
   technique="TLA+ model of the receive side over a transport that delivers in arbitrary pieces (TLC exhaustive over all segmentations and time-out placements of bounded streams, safety + liveness, with a short-read variant for non-vacuity) + real Do runs over an in-memory connection fed piece by piece, every connection Read, callback and result validated by TLC as a behaviour of that model with the reader's unlogged progress inferred (trace validation)",
   text="TLC checks NoGarbage, Prompt, Exact, TimeoutIsStutter and Finishes for every segmentation of the bounded streams; on the real client ~40 (quick) / 90 (thorough) response scripts x compression modes are delivered in one piece, one byte at a time, cut in two at every offset (to 600 / 4000 bytes, packet edges + stride beyond), in all 2^(n-1) splits of streams up to 11 bytes, in random splits and packet-wise with injected read time-outs in every gap (~22 000 runs quick): Reads start only when the reader lacks bytes, time-outs only at packet boundaries and without effect, callbacks and result equal those of the one-piece run, each callback only after its packet arrived completely, exactly the stream is consumed.",
   note="Trusted: TLC; the in-memory connection and its feeder (next piece only when the reader waits); time-outs are injected, not timed; how far a query that fails inside a malformed packet has read is not compared; which callbacks a stream calls for is C03's subject (the one-piece run is the reference)."),
 "C12": dict(engine="QueryLifecycle", category="exploration", design_ref="DESIGN.md §5 C12",
   technique="free-running executions (no gates, no hooks) of the scenario universe of QueryLifecycle.tla / Pool.tla on the real client and pool in a binary built with the Go race detector; TLC model-checks the universe with the foreign Close enabled and decides for every observed outcome whether the model can reach it (Outcome_QL.tla reachability search); the race verdict itself is the race detector's - a data race is below the granularity a TLA+ action model can state",
   text="~400 (quick) / ~2500 (thorough) free-running query runs - select / insert / streamed insert with progress, profile events and logs arriving while blocks are sent, OpenTelemetry instrumentation on and off, compression modes, a foreign goroutine calling Close, the caller cancelling, a Ping afterwards - and shared-pool runs (6-8 goroutines, health check every 0.3-0.5 ms, lifetimes of 1-3 ms, Close while in use) under -race: any report whose two accesses are library code is a violation; every distinct (configuration, outcome) pair must be reachable in QueryLifecycle.tla; pool runs must satisfy NoPanic and AllClosedAfterClose.",
   note="Trusted: the Go race detector (reports races of observed executions only; schedules are whatever the Go scheduler produces under harness jitter, not enumerated); TLC; reports involving harness code make the check inconclusive."),
 "C06": dict(engine="Wire", category="fault_enumeration", design_ref="DESIGN.md §5 C06",
   technique="systematic mutation of valid encodings at every byte position (boundary bytes, 8- and 4-byte little-endian windows with 0 / +-1 / boundary / huge values, forged multi-byte varints, deletions, doublings, splices, bit flips, noise) decoded by the real library in a memory-limited, watchdog-supervised child process; every panic, abort, hang, inconsistent result, a sample of the accepted mutants and per-target counts are trace lines validated by TLC, which decodes the accepted mutants with the TLA+ wire specification (Wire.tla) and requires the library's values to be the specification's wherever it accepts the same bytes",
   text="~320 targets (180 column types incl. the inferring enum and JSON-as-string columns as 1- and 3-row blocks through typed targets with Row(i) for every row, a third of them also through inference + re-encoding, LowCardinality encodings with every key width, the non-generic LowCardinality target, nine protocol messages at two revisions) x ~4 000 mutants each = 10^6 decodes (quick) / ~460 types, 3x the random classes (thorough): no panic, no hang (90 s watchdog), no abort under an 8 GiB address-space limit (confirmed alone under 40 GiB), row counts equal to the block's, every row readable; ~3 800 lines validated by TLC.",
   note="Trusted: TLC; the harness' mutation engine and its walker of valid payloads (which skips the ~1.5% of mutants whose count fields read 4*10^6..10^8: the library's own caps admit them and it allocates gigabytes by design); RLIMIT_AS as the stand-in for a machine's memory; only a sample of accepted mutants is cross-decoded by the specification."),
 "C14": dict(engine="Writer", category="model_checking", design_ref="DESIGN.md §5 C14",
   technique="TLA+ model of the vectored writer with explicit backing arrays (TLC exhaustive) + every bounded operation sequence executed on the real proto.Writer and validated by TLC (trace validation)",
   text="Exhaustive at the stated sequence length over a 12-operation alphabet, plus random long sequences; each Flush's delivered bytes are compared by TLC with the specification's pending contents; the failing writer's error class rotates (generic, expired deadline, short write, closed pipe).",
   note="Trusted: TLC; the recording io.Writer of the harness."),
}

def main():
    checks = []
    for p in props:
        pid = p["id"]
        if pid not in CHECKS:
            continue
        c = CHECKS[pid]
        checks.append({
            "property_id": pid,
            "quick_cmd": "bin/check %s --tier quick" % pid,
            "thorough_cmd": "bin/check %s --tier thorough" % pid,
            "evidence_file": "/verif/evidence/%s.json" % pid,
            "replay_cmd_template": "bin/check %s --replay {path}" % pid,
            "engine": c["engine"],
            "level_claimed": {"category": c["category"], "text": c["text"], "design_ref": c["design_ref"]},
            "level_note": c["note"],
            "technique": c["technique"],
        })
    na = [{"property_id": p["id"], "reason": "check not built yet in this round (planned: see DESIGN.md §5); not claimed until its TLA+ binding runs"}
          for p in props if p["id"] not in CHECKS]
    m = {
        "version": 1,
        "setup_cmd": "bin/setup",
        "hooks": {
            "guard": "verif",
            "enable": "go build -tags verif (also -tags verif,purego and -race) in /verif/harness, whose go.mod replaces github.com/ClickHouse/ch-go with /repo",
            "baseline_off_cmd": "cd /repo && GOFLAGS=-mod=mod GOPROXY=off go test -json -vet=off -count=1 -timeout 25m ./...",
            "source_commits": HOOK_COMMITS,
            "add_only": True,
        },
        "engines": [
            {"name": "QueryLifecycle", "path": "spec/QueryLifecycle.tla", "serves_properties": ["C03", "C04", "C09", "C10", "C12"],
             "kind_free_text": "TLA+ state machine of Client.Do (three goroutines, errgroup, writer, connection, faults, cancellation, next request); MC_QL*.cfg model checking, Gen_QL*.cfg behaviour generation, Trace_QL trace validation"},
            {"name": "Wire", "path": "spec/Wire.tla", "serves_properties": ["C01", "C07", "C15", "C16", "C14"],
             "kind_free_text": "TLA+ functional specification of the native format (varints, strings, LE integers, column layouts for a type AST, state prefixes, LowCardinality, block header); MC_Wire design lemma, Trace_Wire trace validation"},
            {"name": "ColumnHistory", "path": "spec/ColumnHistory.tla", "serves_properties": ["C16"],
             "kind_free_text": "TLA+ list-of-values model of column reuse; MC_ColumnHistory*.cfg, Trace_ColumnHistory (uses Wire.tla to decode encode outputs)"},
            {"name": "Messages", "path": "spec/Messages.tla", "serves_properties": ["C17", "C02", "C13"],
             "kind_free_text": "TLA+ field tables of the protocol messages over Features.tla (independent revision thresholds); MC_Messages, Trace_Messages"},
            {"name": "Handshake", "path": "spec/Handshake.tla", "serves_properties": ["C13"],
             "kind_free_text": "TLA+ model of Dial / handshake with abstract time; MC_Handshake_*.cfg; Trace_Session (shared with C02)"},
            {"name": "Types", "path": "spec/Types.tla", "serves_properties": ["C18", "C19"],
             "kind_free_text": "TLA+ type ASTs, the compatibility relation and result binding as a state machine; MC_Types (lemmas + binding model), Trace_Types"},
            {"name": "Calendar", "path": "spec/Calendar.tla", "serves_properties": ["C20"],
             "kind_free_text": "TLA+ calendar, instants, ticks, intervals, byte-string widening; MC_Calendar (lemmas), Trace_Calendar"},
            {"name": "Segmentation", "path": "spec/Segmentation.tla", "serves_properties": ["C08"],
             "kind_free_text": "TLA+ model of the packet reader over arbitrarily segmented delivery with read time-outs; MC_Segmentation*.cfg, Trace_Segmentation"},
            {"name": "Frames", "path": "spec/Frames.tla", "serves_properties": ["C05"],
             "kind_free_text": "TLA+ model of compress.Reader over abstract frame streams with alteration classes; MC_Frames*.cfg, Trace_Frames"},
            {"name": "Pool", "path": "spec/Pool.tla", "serves_properties": ["C11", "C12"],
             "kind_free_text": "TLA+ model of chpool.Pool/Client over an abstract puddle (permits, idle set, async destroy, health check, MinConns, close); MC_Pool*.cfg, Gen_Pool*.cfg, Trace_Pool"},
            {"name": "Writer", "path": "spec/Writer.tla", "serves_properties": ["C14"],
             "kind_free_text": "TLA+ model of proto.Writer with explicit backing arrays and views; MC_Writer*.cfg, Trace_Writer"},
        ],
        "checks": checks,
        "notes": "Model-based verification with an explicit TLA+ specification suite (spec/), bound to the code by trace validation and behaviour replay; see DESIGN.md. bin/check <ID> exits 0 / 1 (VIOLATION line) / 2 (inconclusive).",
        "not_applicable": na,
    }
    json.dump(m, open(os.path.join(ROOT, "MANIFEST.json"), "w"), indent=1)
    print("MANIFEST.json: %d checks, %d not_applicable" % (len(checks), len(na)))

if __name__ == "__main__":
    main()
